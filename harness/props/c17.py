"""C17 — Optimizer wrappers apply exactly the optax update; metrics ignore batching.

Theorems: lean/Flax/Props/C17.lean over lean/Flax/Model/Optim.lean and lean/Flax/Model/Metrics.lean.

Correspondence (three voices wherever possible):
  * the real wrapper (`TrainState.apply_gradients`, `nnx.TrainState.apply_gradients`, `nnx.Optimizer.update`),
  * a hand-written `tx.update` + `optax.apply_updates` loop on the implementation side (bit-identical),
  * the Lean model's plumbing, given optax as a table of the calls the hand loop made (so the model
    checks what the wrapper feeds optax, what it writes back, the step, the frame) — only when every
    `p + u` of the run is exact in float32 (integer/dyadic data), which is verified per case.
  Metrics: integer/dyadic streams x random partitions; Average/Accuracy exact, Welford against the
  rational model with a stated tolerance and exactly on power-of-two count chains.
Only observable behaviour is compared (values, step, which objects changed, exceptions by class).
"""
from __future__ import annotations

import math
from fractions import Fraction

from harness import compat  # noqa: F401  (must precede flax)
from harness.common import InfraError, LeanDriver, load_corpus

import numpy as np
import jax
import jax.numpy as jnp
import optax
from flax import nnx, struct
from flax.core import FrozenDict, freeze
from flax.nnx import filterlib, statelib
from flax.training import train_state as linen_ts

SPEC = {
  'exes': ['drv_c17'],
  'rule': (
    'optimizer cases: random nested param trees / NNX module graphs (shared Variables, several Variable types, tags) '
    'with small integer leaves, an optax transformation drawn from stateless/stateful/chained/scheduled/adaptive families, '
    '1-4 gradient steps, ~38% of the cases in mixed precision (bfloat16/float16 params with some float32 leaves, gradients of the same or wider dtype, transformations with float32 accumulators; compared bit for bit incl. dtype with the by-hand loop), start values of the step counter near the top of int32/uint32/int8/uint8/int16 in ~38% of the cases, value hooks (on_set_value / on_get_value via metadata or subclass) on some Variables with stateful transformations (NNX), a random `wrt` filter (NNX), optional OWG form and kwargs (Linen); a case is non-trivial when at '
    'least one step is applied to at least one leaf. metric cases: integer/dyadic value streams of length 0-40 x two random '
    'partitions into scalar/array batches; non-trivial when the stream is split into >= 2 update calls. distinct = distinct '
    'canonical JSON of the case.'
  ),
  'trusted_base': [
    'hand-written Lean models lean/Flax/Model/Optim.lean, lean/Flax/Model/Metrics.lean (tied to /repo by this correspondence run)',
    'harness/props/c17.py (generators, hand-written optax loop, canonicalisation), harness/compat.py (JAX shim)',
    'A-OPTAX: an optax transformation is a pure function (grads, state, params) -> (updates, state\') preserving the structure of its state; '
    'optax.apply_updates is leaf-wise p + u',
    'A-PY: Python dataclass replace / dict semantics as rendered by the model',
  ],
  'assumptions': [
    'optax is abstract in the theorems (every Tx); the model is run with optax given as the table of calls made by the hand-written loop',
    'step counters: a Python int is unbounded, a w-bit integer array is incremented modulo 2^w (theorem step_increments_mod; the model holds the bit pattern); the oracle is NumPy same-dtype + 1',
    'Welford numerics: float32 accumulation error is not bounded by a theorem; compared with tolerance 1e-4 relative + 1e-5 absolute; on dyadic power-of-two chains count, mean and m2 exactly and std/sem within 2 float32 ULPs',
    'an empty array poisons Welford with NaN (excluded point, exhibited by theorem welford_empty_batch_poisons); Accuracy requires equal leading sizes and a non-empty class axis',
    'TrainState OWG mode: params has exactly the keys params and OWG (any other top-level key is dropped by the code: observation, outside the domain)',
    'MultiMetric member names do not collide with its methods (reset/update/compute)',
  ],
  'model_partial': [],
}

OWG = linen_ts.OVERWRITE_WITH_GRADIENT  # read from the code, passed to the model


# ------------------------------------------------------------------------------------------------
# small helpers
# ------------------------------------------------------------------------------------------------


def fr(x):
  """exact rational of a Python/NumPy/JAX scalar"""
  if isinstance(x, Fraction):
    return x
  if isinstance(x, (bool, np.bool_)):
    return Fraction(int(x))
  if isinstance(x, (int, np.integer)):
    return Fraction(int(x))
  return Fraction(float(x))


def rj(f):
  f = fr(f)
  return [f.numerator, f.denominator]


def arr_json(x):
  """flattened array as exact rationals; a non-finite entry (fp16 overflow inside optax, ...) becomes the
  marker NONFINITE, and requests containing it are not sent to the model"""
  a = np.asarray(x)
  if a.dtype.kind in 'iub':
    return [rj(v) for v in a.reshape(-1).tolist()]
  return [rj(float(v)) if math.isfinite(float(v)) else 'NONFINITE' for v in a.reshape(-1)]


def sendable(req):
  import json as _json

  return req is not None and 'NONFINITE' not in _json.dumps(req)


def from_rj(j):
  return Fraction(j[0], j[1])


def bits(x):
  a = np.asarray(x)
  return (str(a.dtype), tuple(a.shape), a.tobytes())


def same_bits(a, b):
  return bits(a) == bits(b)


def f32_of(frac):
  """nearest float32 of a rational whose numerator and denominator are exactly representable"""
  n, d = frac.numerator, frac.denominator
  if abs(n) < 2**24 and d < 2**24:
    return np.float32(n) / np.float32(d)
  return np.float32(n / d)


def exc_name(e):
  return type(e).__name__


def call(fn, *a, **k):
  try:
    return ('ok', fn(*a, **k))
  except Exception as e:  # an exception raised by flax/optax is an observation
    return ('err', exc_name(e))


# ------------------------------------------------------------------------------------------------
# METRICS
# ------------------------------------------------------------------------------------------------


def gen_stream(rng, dyadic=False):
  n = rng.choice([0, 1, 2, 3, 5, 8, 13, 21, 40]) if rng.random() < 0.6 else rng.randrange(0, 41)
  if dyadic:
    return [Fraction(rng.randrange(-64, 65), 4) for _ in range(n)]
  return [Fraction(rng.randrange(-16, 17)) for _ in range(n)]


def gen_partition(rng, n, allow_empty):
  """list of batch sizes summing to n (possibly with empty batches)"""
  sizes = []
  left = n
  while left > 0:
    k = min(left, rng.choice([1, 1, 2, 3, 4, 7, 16, left]))
    sizes.append(k)
    left -= k
  if allow_empty:
    for _ in range(rng.randrange(0, 3)):
      sizes.insert(rng.randrange(0, len(sizes) + 1), 0)
  return sizes


def make_batches(rng, stream, sizes, ints_ok=True):
  """-> list of (python value for update(values=...), json Batch)"""
  out = []
  i = 0
  all_int = all(v.denominator == 1 for v in stream)
  for k in sizes:
    vals = stream[i : i + k]
    i += k
    form = rng.random()
    if k == 1 and form < 0.35:
      v = vals[0]
      py = int(v) if (v.denominator == 1 and rng.random() < 0.5) else float(v)
      out.append((py, {'s': rj(v)}, 'scalar'))
      continue
    if all_int and ints_ok and form < 0.55:
      a = jnp.asarray(np.array([int(v) for v in vals], dtype=np.int32))
      kind = 'int32'
    else:
      a = jnp.asarray(np.array([float(v) for v in vals], dtype=np.float32))
      kind = 'float32'
    if k >= 4 and k % 2 == 0 and rng.random() < 0.4:
      a = a.reshape(2, k // 2)
      kind += '-2d'
    elif k == 1 and rng.random() < 0.3:
      a = a.reshape(())
      kind += '-0d'
    out.append((a, {'a': [rj(v) for v in vals]}, kind))
  return out


def pow2_chain(rng):
  """batch sizes whose running counts are all powers of two: every Welford intermediate is dyadic"""
  sizes = [1]
  tot = 1
  while tot < 32 and rng.random() < 0.8:
    sizes.append(tot)
    tot *= 2
  return sizes


def close(a, b, rel=1e-4, ab=1e-5):
  a = float(a)
  b = float(b)
  if math.isnan(a) or math.isnan(b):
    return math.isnan(a) and math.isnan(b)
  return abs(a - b) <= ab + rel * max(abs(a), abs(b))


def within_ulps(got, want, k):
  """float32 `got` within k units in the last place of the real number `want`"""
  g = np.float32(np.asarray(got))
  w = np.float32(want)
  if not (np.isfinite(g) and np.isfinite(w)):
    return bool(np.isnan(g) and np.isnan(w)) or g == w
  return abs(float(g) - float(want)) <= k * float(np.spacing(np.abs(w))) 


def check_average(ctx, drv, cases):
  """cases: list of dict(stream, parts=[sizes,...]) — Average over two partitions of one stream"""
  reqs = []
  recs = []
  for c in cases:
    rng_batches = c['batches']  # list (per partition) of list of (py, json, kind)
    rec = {'impl': []}
    for bl in rng_batches:
      m = nnx.metrics.Average()
      hist = []
      r = ('ok', None)
      for py, _, _ in bl:
        r = call(m.update, values=py)
        if r[0] != 'ok':
          break
        hist.append(m.compute())
      rec['impl'].append((r, m, hist))
      reqs.append(('avg_run', [[b[1] for b in bl]]))
    # reset + rerun of partition 0 on the same object
    m = rec['impl'][0][1]
    rr = call(m.reset)
    after_reset = call(m.compute)
    for py, _, _ in rng_batches[0]:
      call(m.update, values=py)
    rec['rerun'] = (rr, after_reset, call(m.compute))
    recs.append(rec)
  outs = drv.run(reqs)
  k = 0
  for c, rec in zip(cases, recs):
    stream = c['stream']
    canon = {'kind': 'average', 'stream': [rj(v) for v in stream], 'parts': [[b[1] for b in bl] for bl in c['batches']]}
    ctx.case(canon, nontrivial=any(len(bl) >= 2 for bl in c['batches']))
    ctx.count('avg_stream_len', f'{min(len(stream) // 8 * 8, 40)}+')
    for bl in c['batches']:
      ctx.count('avg_batches_per_partition', min(len(bl), 8))
      for b in bl:
        ctx.count('batch_form', b[2])
    n = len(stream)
    tot = sum(stream, Fraction(0))
    want = np.float32('nan') if n == 0 else f32_of(tot / n)
    finals = []
    for pi, (r, m, hist) in enumerate(rec['impl']):
      mo = outs[k]
      k += 1
      if r[0] != 'ok':
        ctx.violation('average-update-raises', f'Average.update raised {r[1]} on {canon}', canon)
        continue
      got = np.asarray(m.compute())
      finals.append(got)
      # property oracle: the mean of all values seen, whatever the split
      if not (same_bits(got, want) or (n == 0 and np.isnan(got))):
        ctx.violation('average-not-mean-of-stream', f'Average.compute() = {got!r} after partition {pi}, mean of the stream is {want!r} ({canon})', dict(canon, got=float(got), want=float(want)))
        continue
      # running value after every update = mean of the prefix
      seen = 0
      ok_prefix = True
      for (py, bj, _), h in zip(c['batches'][pi], hist):
        seen += 1 if 's' in bj else len(bj['a'])
        pre = stream[:seen]
        w = np.float32('nan') if not pre else f32_of(sum(pre, Fraction(0)) / len(pre))
        if not (same_bits(np.asarray(h), w) or (not pre and np.isnan(np.asarray(h)))):
          ok_prefix = False
      if not ok_prefix:
        ctx.violation('average-prefix-wrong', f'Average.compute() after some update is not the mean of the values seen so far ({canon})', canon)
        continue
      # model correspondence: (total, count) and compute
      if mo[0] != 'ok':
        ctx.disagreements_checked += 1
        ctx.violation('average-model-mismatch', f'model failed {mo} on {canon}', canon, concrete=False)
        continue
      mt, mc, mcomp = from_rj(mo[1]['total']), mo[1]['count'], mo[1]['compute']
      it = fr(np.asarray(m.total.value)) if hasattr(m, 'total') else mt
      ic = int(np.asarray(m.count.value)) if hasattr(m, 'count') else mc
      mwant = np.float32('nan') if mcomp is None else f32_of(from_rj(mcomp))
      if (it, ic) != (mt, mc) or not (same_bits(got, mwant) or (mcomp is None and np.isnan(got))):
        ctx.disagreements_checked += 1
        ctx.violation('average-model-mismatch', f'model (total,count,compute)=({mt},{mc},{mcomp}) vs impl ({it},{ic},{got!r}) on {canon}', canon, concrete=False)
    if len(finals) == 2 and not (same_bits(finals[0], finals[1]) or (np.isnan(finals[0]) and np.isnan(finals[1]))):
      ctx.violation('average-depends-on-batching', f'two partitions of one stream give {finals[0]!r} and {finals[1]!r} ({canon})', canon)
    rr, after_reset, rerun = rec['rerun']
    if rr[0] != 'ok' or after_reset[0] != 'ok' or not np.isnan(np.asarray(after_reset[1])):
      ctx.violation('average-reset', f'Average.reset()/compute() after reset gave {rr} {after_reset} ({canon})', canon)
    elif rerun[0] != 'ok' or not (same_bits(np.asarray(rerun[1]), want) or (n == 0 and np.isnan(np.asarray(rerun[1])))):
      ctx.violation('average-reset-remembers', f'after reset, the same updates give {rerun} instead of {want!r} ({canon})', canon)


def welford_exact(stream):
  n = len(stream)
  if n == 0:
    return 0, Fraction(0), None
  mean = sum(stream, Fraction(0)) / n
  var = sum(((v - mean) ** 2 for v in stream), Fraction(0)) / n
  return n, mean, var


def check_welford(ctx, drv, cases):
  reqs = []
  recs = []
  for c in cases:
    rec = []
    for bl in c['batches']:
      m = nnx.metrics.Welford()
      r = ('ok', None)
      for py, _, _ in bl:
        r = call(m.update, values=py)
        if r[0] != 'ok':
          break
      comp = call(m.compute) if r[0] == 'ok' else r
      rec.append((r, m, comp))
      reqs.append(('welford_run', [[b[1] for b in bl]]))
    recs.append(rec)
  outs = drv.run(reqs)
  k = 0
  for c, rec in zip(cases, recs):
    stream = c['stream']
    canon = {'kind': 'welford', 'stream': [rj(v) for v in stream], 'parts': [[b[1] for b in bl] for bl in c['batches']], 'exact': c.get('exact', False)}
    ctx.case(canon, nontrivial=any(len(bl) >= 2 for bl in c['batches']))
    ctx.count('welford_stream_len', f'{min(len(stream) // 8 * 8, 40)}+')
    ctx.count('welford_exact_chain', bool(c.get('exact')))
    n, mean, var = welford_exact(stream)
    for pi, (r, m, comp) in enumerate(rec):
      mo = outs[k]
      k += 1
      has_empty = any('a' in b[1] and not b[1]['a'] for b in c['batches'][pi])
      if r[0] != 'ok' or comp[0] != 'ok':
        ctx.violation('welford-raises', f'Welford update/compute raised {r} {comp} on {canon}', canon)
        continue
      st = comp[1]
      gm, gs, ge = float(np.asarray(st.mean)), float(np.asarray(st.standard_deviation)), float(np.asarray(st.standard_error_of_mean))
      if has_empty:
        # excluded point: the model says NaN-poisoned; the implementation must agree (not a property clause)
        if mo != ('ok', 'nan') or not math.isnan(gm):
          ctx.disagreements_checked += 1
          ctx.violation('welford-empty-batch-model-mismatch', f'empty batch: impl mean {gm}, model {mo} ({canon})', canon, concrete=False)
        continue
      if n == 0:
        if not (gm == 0.0 and math.isnan(gs)):
          ctx.violation('welford-empty-stream', f'Welford.compute() on nothing = {st}', canon)
        continue
      wstd = math.sqrt(var)
      wsem = wstd / math.sqrt(n)
      okv = close(gm, mean) and close(gs, wstd) and close(ge, wsem)
      if c.get('exact'):
        # dyadic power-of-two chain: count, mean and m2 are exactly representable and must be exact;
        # std = sqrt(m2 / n) and sem = std / sqrt(n) go through float32 sqrt/div (and m2 / n need not be
        # representable), so they are allowed 2 float32 ULPs around the correctly rounded value
        okv = okv and fr(np.asarray(st.mean)) == mean and within_ulps(st.standard_deviation, wstd, 2) and within_ulps(st.standard_error_of_mean, wsem, 2)
        if hasattr(m, 'count') and hasattr(m, 'm2'):
          okv = okv and int(np.asarray(m.count.value)) == n and fr(np.asarray(m.m2.value)) == var * n
      if not okv:
        ctx.violation(
          'welford-not-statistic-of-stream',
          f'Welford.compute() = (mean {gm}, std {gs}, sem {ge}) after partition {pi}; the stream has mean {float(mean)}, std {wstd}, sem {wsem} ({canon})',
          dict(canon, got=[gm, gs, ge], want=[float(mean), wstd, wsem]),
        )
        continue
      if mo[0] != 'ok' or mo[1] == 'nan':
        ctx.disagreements_checked += 1
        ctx.violation('welford-model-mismatch', f'model {mo} on {canon}', canon, concrete=False)
        continue
      ms = mo[1]['state']
      mm, m2, mc = from_rj(ms['mean']), from_rj(ms['m2']), ms['count']
      mv = mo[1]['compute']['variance']
      bad = (mc != n) or mm != mean or (mv is None) or from_rj(mv) != var
      if hasattr(m, 'count') and hasattr(m, 'm2'):
        bad = bad or int(np.asarray(m.count.value)) != mc or not close(float(np.asarray(m.m2.value)), m2)
        if c.get('exact'):
          bad = bad or fr(np.asarray(m.m2.value)) != m2
      if bad:
        ctx.disagreements_checked += 1
        ctx.violation('welford-model-mismatch', f'model state (count {mc}, mean {mm}, m2 {m2}) vs stream ({n}, {mean}, var {var}) / impl on {canon}', canon, concrete=False)
    # reset: back to the initial state
    r0 = rec[0]
    if r0[0][0] == 'ok':
      m = r0[1]
      rr = call(m.reset)
      cc = call(m.compute)
      if rr[0] != 'ok' or cc[0] != 'ok' or float(np.asarray(cc[1].mean)) != 0.0 or not math.isnan(float(np.asarray(cc[1].standard_deviation))):
        ctx.violation('welford-reset', f'Welford.reset() then compute() = {cc}', canon)
      else:
        for py, _, _ in c['batches'][0]:
          call(m.update, values=py)
        c2 = call(m.compute)
        if n > 0 and not any('a' in b[1] and not b[1]['a'] for b in c['batches'][0]):
          if c2[0] != 'ok' or not (close(float(np.asarray(c2[1].mean)), mean) and close(float(np.asarray(c2[1].standard_deviation)), math.sqrt(var))):
            ctx.violation('welford-reset-remembers', f'after reset the same updates give {c2}, stream mean {float(mean)} std {math.sqrt(var)} ({canon})', canon)


def gen_accuracy_case(rng):
  binary = rng.random() < 0.35
  n = rng.choice([1, 2, 3, 5, 8, 12])
  C = rng.choice([2, 3, 4])
  if binary:
    th = Fraction(rng.randrange(-4, 5), 2)
    logits = [Fraction(rng.randrange(-8, 9), 2) for _ in range(n)]
    labels = [rng.choice([0, 1, 1, 2]) for _ in range(n)]
  else:
    th = None
    logits = [[Fraction(rng.randrange(-3, 4)) for _ in range(C)] for _ in range(n)]  # small range: many ties
    labels = [rng.randrange(0, C) for _ in range(n)]
  parts = [gen_partition(rng, n, False) for _ in range(2)]
  return {'binary': binary, 'threshold': th, 'logits': logits, 'labels': labels, 'parts': parts, 'lab_dtype': rng.choice(['int32', 'int32', 'int64np'])}


def acc_batches(c, sizes):
  out = []
  i = 0
  for k in sizes:
    lg = c['logits'][i : i + k]
    lb = c['labels'][i : i + k]
    i += k
    lab = jnp.asarray(np.array(lb, dtype=np.int32)) if c['lab_dtype'] == 'int32' else np.array(lb, dtype=np.int64)
    if c['binary']:
      py = dict(logits=jnp.asarray(np.array([float(v) for v in lg], dtype=np.float32)), labels=lab)
      kw = [['logits', {'num': {'a': [rj(v) for v in lg]}}], ['labels', {'ints': lb}]]
    else:
      py = dict(logits=jnp.asarray(np.array([[float(v) for v in r] for r in lg], dtype=np.float32)), labels=lab)
      kw = [['logits', {'rows': [[rj(v) for v in r] for r in lg]}], ['labels', {'ints': lb}]]
    if k >= 4 and k % 2 == 0 and c.get('reshape'):
      py = dict(logits=py['logits'].reshape((2, k // 2) + py['logits'].shape[1:]), labels=jnp.asarray(py['labels']).reshape(2, k // 2))
    out.append((py, kw))
  return out


def acc_correct(c):
  if c['binary']:
    return [int((lg >= c['threshold']) == (lb > 0)) for lg, lb in zip(c['logits'], c['labels'])]
  out = []
  for r, lb in zip(c['logits'], c['labels']):
    best = max(r)
    out.append(int(r.index(best) == lb))
  return out


def check_accuracy(ctx, drv, cases):
  reqs = []
  recs = []
  for c in cases:
    rec = []
    for sizes in c['parts']:
      th = None if c['threshold'] is None else float(c['threshold'])
      m = nnx.metrics.Accuracy(threshold=th)
      bl = acc_batches(c, sizes)
      r = ('ok', None)
      for py, _ in bl:
        r = call(m.update, **py)
        if r[0] != 'ok':
          break
      rec.append((r, m))
      spec = {'kind': 'accuracy', 'argname': 'values', 'threshold': None if c['threshold'] is None else rj(c['threshold'])}
      reqs.append(('multi_trace', [[['acc', spec]], [{'update': kw} for _, kw in bl] + ['compute']]))
    recs.append(rec)
  outs = drv.run(reqs)
  k = 0
  for c, rec in zip(cases, recs):
    canon = {'kind': 'accuracy', 'binary': c['binary'], 'threshold': None if c['threshold'] is None else rj(c['threshold']),
             'logits': [[rj(v) for v in r] for r in c['logits']] if not c['binary'] else [rj(v) for v in c['logits']],
             'labels': c['labels'], 'parts': c['parts'], 'lab_dtype': c['lab_dtype'], 'reshape': bool(c.get('reshape'))}
    ctx.case(canon, nontrivial=any(len(p) >= 2 for p in c['parts']))
    ctx.count('accuracy_mode', 'binary' if c['binary'] else 'multiclass')
    cor = acc_correct(c)
    n = len(cor)
    want = f32_of(Fraction(sum(cor), n))
    for pi, (r, m) in enumerate(rec):
      mo = outs[k]
      k += 1
      if r[0] != 'ok':
        ctx.violation('accuracy-update-raises', f'Accuracy.update raised {r[1]} on {canon}', canon)
        continue
      got = np.asarray(m.compute())
      if not same_bits(got, want):
        ctx.violation('accuracy-not-fraction-correct', f'Accuracy.compute() = {got!r}, {sum(cor)}/{n} examples are correct ({canon}, partition {pi})', dict(canon, got=float(got), want=float(want)))
        continue
      mv = mo[1][-1]['compute'][0][1]['avg'] if mo[0] == 'ok' and isinstance(mo[1][-1], dict) and 'compute' in mo[1][-1] else None
      if mv is None or from_rj(mv) != Fraction(sum(cor), n) or any(x != 'ok' for x in mo[1][:-1]):
        ctx.disagreements_checked += 1
        ctx.violation('accuracy-model-mismatch', f'model {mo} vs {sum(cor)}/{n} on {canon}', canon, concrete=False)


def check_accuracy_errors(ctx, drv):
  """ndim checks (ValueError) and the missing-argument TypeError, impl vs model"""
  lg2 = jnp.asarray(np.array([[1.0, 2.0], [3.0, 0.0]], dtype=np.float32))
  lg1 = jnp.asarray(np.array([1.0, -2.0], dtype=np.float32))
  lab = jnp.asarray(np.array([1, 0], dtype=np.int32))
  rows = {'rows': [[rj(1), rj(2)], [rj(3), rj(0)]]}
  flat = {'num': {'a': [rj(1), rj(-2)]}}
  probes = [
    ('ndim-multiclass-flat', None, dict(logits=lg1, labels=lab), [['logits', flat], ['labels', {'ints': [1, 0]}]], 'ValueError'),
    ('ndim-binary-rows', 0.5, dict(logits=lg2, labels=lab), [['logits', rows], ['labels', {'ints': [1, 0]}]], 'ValueError'),
    ('ok-multiclass', None, dict(logits=lg2, labels=lab), [['logits', rows], ['labels', {'ints': [1, 0]}]], None),
    ('ok-binary', 0.5, dict(logits=lg1, labels=lab), [['logits', flat], ['labels', {'ints': [1, 0]}]], None),
  ]
  reqs = []
  impl = []
  for name, th, py, kw, want in probes:
    m = nnx.metrics.Accuracy(threshold=th)
    impl.append(call(m.update, **py))
    reqs.append(('multi_trace', [[['acc', {'kind': 'accuracy', 'argname': 'values', 'threshold': None if th is None else rj(th)}]], [{'update': kw}]]))
  # Average / Welford without their keyword argument
  for cls, kind in ((nnx.metrics.Average, 'average'), (nnx.metrics.Welford, 'welford')):
    m = cls('loss')
    impl.append(call(m.update, values=jnp.ones((2,))))
    reqs.append(('multi_trace', [[['m', {'kind': kind, 'argname': 'loss'}]], [{'update': [['values', {'num': {'a': [rj(1), rj(1)]}}]]}]]))
    probes.append((f'missing-arg-{kind}', None, None, None, 'TypeError'))
  outs = drv.run(reqs)
  for (name, th, py, kw, want), r, mo in zip(probes, impl, outs):
    case = {'kind': 'metric-error', 'probe': name}
    ctx.case(case)
    ctx.count('malformed', name)
    got = None if r[0] == 'ok' else r[1]
    mgot = None
    if mo[0] == 'ok' and isinstance(mo[1][0], dict) and 'raise' in mo[1][0]:
      mgot = mo[1][0]['raise']
    if got != want:
      ctx.violation('metric-error-branch', f'{name}: implementation gave {r}, documented behaviour is {want}', case)
    elif mgot != want:
      ctx.disagreements_checked += 1
      ctx.violation('metric-error-model-mismatch', f'{name}: model {mo} vs impl {r}', case, concrete=False)


METRIC_POOL = ['average', 'welford', 'accuracy', 'average2']


def check_multimetric(ctx, drv, seeds):
  import random as _random

  reqs = []
  recs = []
  for cseed in seeds:
    rng = _random.Random(cseed)
    members = rng.sample(METRIC_POOL, rng.randrange(1, 4))
    names = {'average': 'loss', 'welford': 'stats', 'accuracy': 'acc', 'average2': 'aux'}
    argn = {'average': 'values', 'welford': rng.choice(['values', 'loss_values']), 'accuracy': 'values', 'average2': 'aux_values'}
    def mk(kind):
      if kind == 'average':
        return nnx.metrics.Average()
      if kind == 'average2':
        return nnx.metrics.Average('aux_values')
      if kind == 'welford':
        return nnx.metrics.Welford(argn['welford'])
      return nnx.metrics.Accuracy()
    multi = nnx.MultiMetric(**{names[k]: mk(k) for k in members})
    singles = {names[k]: mk(k) for k in members}
    spec = [[names[k], {'kind': 'average' if k == 'average2' else k, 'argname': argn[k], 'threshold': None}] for k in members]
    ops_py = []
    ops_j = []
    steps = rng.randrange(1, 5)
    for s in range(steps):
      if s > 0 and rng.random() < 0.15:
        ops_py.append('reset')
        ops_j.append('reset')
        continue
      k = rng.choice([1, 2, 3, 4])
      vals = [Fraction(rng.randrange(-8, 9)) for _ in range(k)]
      aux = [Fraction(rng.randrange(-8, 9), 2) for _ in range(rng.choice([1, 2]))]
      lv = [Fraction(rng.randrange(-8, 9)) for _ in range(rng.choice([1, 2, 4]))]
      lg = [[Fraction(rng.randrange(-2, 3)) for _ in range(3)] for _ in range(k)]
      lb = [rng.randrange(0, 3) for _ in range(k)]
      py = dict(
        values=jnp.asarray(np.array([float(v) for v in vals], dtype=np.float32)),
        aux_values=jnp.asarray(np.array([float(v) for v in aux], dtype=np.float32)),
        loss_values=jnp.asarray(np.array([float(v) for v in lv], dtype=np.float32)),
        logits=jnp.asarray(np.array([[float(v) for v in r] for r in lg], dtype=np.float32)),
        labels=jnp.asarray(np.array(lb, dtype=np.int32)),
      )
      kw = [['values', {'num': {'a': [rj(v) for v in vals]}}], ['aux_values', {'num': {'a': [rj(v) for v in aux]}}],
            ['loss_values', {'num': {'a': [rj(v) for v in lv]}}], ['logits', {'rows': [[rj(v) for v in r] for r in lg]}], ['labels', {'ints': lb}]]
      if rng.random() < 0.1:  # drop an argument somebody may need -> TypeError on both sides
        drop = rng.choice(['values', 'aux_values', 'loss_values'])
        py.pop(drop)
        kw = [e for e in kw if e[0] != drop]
      ops_py.append(py)
      ops_j.append({'update': kw})
    impl = []
    aborted = False
    single_err = None
    for op in ops_py:
      if op == 'reset':
        impl.append(call(multi.reset))
        for sm in singles.values():
          sm.reset()
      else:
        needed = all((argn[k] in op) for k in members if k != 'accuracy')
        r = call(multi.update, **op)
        impl.append(r if r[0] == 'err' else ('ok', None))
        if r[0] == 'err':
          aborted = True
          break
        for nme, sm in singles.items():
          rs = call(sm.update, **op)
          if rs[0] != 'ok':
            single_err = (nme, rs[1])
    comp = call(multi.compute)
    comp_single = {n: call(sm.compute) for n, sm in singles.items()}
    recs.append((members, names, spec, ops_j, impl, aborted, comp, comp_single, cseed, single_err))
    n_ops = len(impl) if aborted else len(ops_j)
    reqs.append(('multi_trace', [spec, ops_j[:n_ops] + ([] if aborted else ['compute'])]))
  outs = drv.run(reqs)
  for (members, names, spec, ops_j, impl, aborted, comp, comp_single, cseed, single_err), mo in zip(recs, outs):
    case = {'kind': 'multimetric', 'cseed': cseed, 'members': spec, 'ops': ops_j}
    ctx.case(case, nontrivial=len(members) >= 2)
    ctx.count('multimetric_members', len(members))
    ctx.count('multimetric_aborted', aborted)
    if single_err is not None:
      ctx.violation('multimetric-not-pointwise', f'MultiMetric.update succeeded although its member {single_err[0]} raises {single_err[1]} on the same arguments ({case})', case)
      continue
    if mo[0] != 'ok':
      ctx.disagreements_checked += 1
      ctx.violation('multimetric-model-mismatch', f'model failed {mo} on {case}', case, concrete=False)
      continue
    trace = mo[1]
    if aborted:
      last = trace[len(impl) - 1]
      if not (isinstance(last, dict) and last.get('raise') == impl[-1][1]):
        ctx.disagreements_checked += 1
        ctx.violation('multimetric-model-mismatch', f'impl raised {impl[-1][1]} at op {len(impl)-1}, model trace {trace} ({case})', case, concrete=False)
      continue
    if comp[0] != 'ok':
      ctx.violation('multimetric-compute-raises', f'MultiMetric.compute raised {comp[1]} ({case})', case)
      continue
    # property oracle: pointwise = each member alone
    bad = None
    if set(comp[1].keys()) != set(comp_single.keys()):
      bad = f'keys {sorted(comp[1].keys())} vs members {sorted(comp_single.keys())}'
    else:
      for nme, v in comp[1].items():
        sv = comp_single[nme][1]
        la = [np.asarray(x) for x in jax.tree.leaves(v)]
        lb = [np.asarray(x) for x in jax.tree.leaves(sv)]
        if len(la) != len(lb) or not all(same_bits(a, b) or (np.isnan(a).all() and np.isnan(b).all()) for a, b in zip(la, lb)):
          bad = f'member {nme}: {v} inside the MultiMetric, {sv} alone'
    if bad:
      ctx.violation('multimetric-not-pointwise', f'MultiMetric.compute() differs from its members run alone: {bad} ({case})', case)
      continue
    mcomp = dict((n, v) for n, v in trace[-1]['compute'])
    for nme, v in comp[1].items():
      mv = mcomp.get(nme)
      if mv is None:
        ok = False
      elif 'avg' in mv:
        w = np.float32('nan') if mv['avg'] is None else f32_of(from_rj(mv['avg']))
        ok = same_bits(np.asarray(v), w) or (mv['avg'] is None and np.isnan(np.asarray(v)))
      else:
        ok = close(float(np.asarray(v.mean)), from_rj(mv['mean'])) and (
          (mv['variance'] is None and math.isnan(float(np.asarray(v.standard_deviation))))
          or (mv['variance'] is not None and close(float(np.asarray(v.standard_deviation)), math.sqrt(from_rj(mv['variance']))))
        )
      if not ok:
        ctx.disagreements_checked += 1
        ctx.violation('multimetric-model-mismatch', f'member {nme}: impl {v}, model {mv} ({case})', case, concrete=False)
        break


def check_large_counts(ctx, rng, n_cases):
  """Large batches (batch size x values already seen >= 2^31): the property quantifies over every
  partition, so int32 products of counts must not wrap. Property oracle only (exact integer
  arithmetic on the stream), no model call."""
  plans = [[16384] * 9]
  for _ in range(n_cases):
    plans.append([rng.choice([46341, 50000, 65536, 70000]) for _ in range(rng.choice([2, 3]))])
  for sizes in plans:
    nseed = rng.randrange(2**31)
    nrng = np.random.default_rng(nseed)
    centres = rng.sample([-6, -3, 0, 2, 5, 7, -1, 4, 6], len(sizes))  # batch means differ
    as_int = rng.random() < 0.5
    chunks = [(nrng.integers(-4, 5, size=k) + c).astype(np.int64) for k, c in zip(sizes, centres)]
    allv = np.concatenate(chunks)
    n = int(allv.size)
    s1 = int(allv.sum())
    s2 = int((allv * allv).sum())
    mean = Fraction(s1, n)
    var = Fraction(s2, n) - mean * mean
    wstd = math.sqrt(var)
    wsem = wstd / math.sqrt(n)
    case = {'kind': 'large-counts', 'sizes': sizes, 'centres': centres, 'nseed': nseed, 'int32': as_int}
    ctx.case(case, nontrivial=True)
    ctx.count('large_count_batches', len(sizes))
    dt = np.int32 if as_int else np.float32
    for label, parts in (('as given', chunks), ('one batch', [allv])):
      w = nnx.metrics.Welford()
      a = nnx.metrics.Average()
      r = ('ok', None)
      for ch in parts:
        arr = jnp.asarray(ch.astype(dt))
        r = call(w.update, values=arr)
        ra = call(a.update, values=arr)
        if r[0] != 'ok' or ra[0] != 'ok':
          break
      if r[0] != 'ok' or ra[0] != 'ok':
        ctx.violation('large-count-update-raises', f'update raised {r} {ra} on batch sizes {sizes}', case)
        continue
      st = w.compute()
      gm, gs, ge = float(np.asarray(st.mean)), float(np.asarray(st.standard_deviation)), float(np.asarray(st.standard_error_of_mean))
      if not (close(gm, mean) and close(gs, wstd) and close(ge, wsem)):
        ctx.violation(
          'welford-large-counts-wrong',
          f'Welford.compute() = (mean {gm}, std {gs}, sem {ge}) after update calls of sizes {[int(c.size) for c in parts]} ({label}); '
          f'the {n} values seen have mean {float(mean)}, std {wstd}, sem {wsem}',
          dict(case, partition=label, got=[gm, gs, ge], want=[float(mean), wstd, wsem]),
        )
      ga = np.asarray(a.compute())
      if abs(s1) < 2**24 and not same_bits(ga, f32_of(mean)):
        ctx.violation('average-large-counts-wrong', f'Average.compute() = {ga!r} after sizes {[int(c.size) for c in parts]}; mean of the stream is {float(mean)}', dict(case, partition=label))


def compositions(n):
  """all ordered partitions of n into positive parts"""
  if n == 0:
    return [[]]
  out = []
  for first in range(1, n + 1):
    for rest in compositions(n - first):
      out.append([first] + rest)
  return out


def run_metrics(ctx, drv, thorough):
  rng = ctx.rng
  n = 160 if not thorough else 1500
  # exhaustive small scope: every split of one random stream of length L into non-empty update calls
  L = 6 if not thorough else 9
  stream = [Fraction(rng.randrange(-16, 17)) for _ in range(L)]
  comps = compositions(L)
  ex = [{'stream': stream, 'batches': [make_batches(rng, stream, cmp), make_batches(rng, stream, [L])]} for cmp in comps]
  check_average(ctx, drv, ex)
  check_welford(ctx, drv, ex)
  ctx.extra['exhaustive_scope'] = f'Average and Welford: all {len(comps)} ordered partitions of one random stream of length {L} into non-empty update calls (scalar/array forms random)'
  cases = []
  for _ in range(n):
    stream = gen_stream(rng, dyadic=rng.random() < 0.3)
    batches = [make_batches(rng, stream, gen_partition(rng, len(stream), True)) for _ in range(2)]
    cases.append({'stream': stream, 'batches': batches})
  check_average(ctx, drv, cases)
  wcases = []
  for _ in range(n):
    if rng.random() < 0.3:
      sizes = pow2_chain(rng)
      stream = [Fraction(rng.randrange(-32, 33), 4) for _ in range(sum(sizes))]
      b0 = make_batches(rng, stream, sizes, ints_ok=False)
      b1 = make_batches(rng, stream, list(reversed(sizes)) if sizes[0] == 1 and len(sizes) == 1 else sizes, ints_ok=False)
      wcases.append({'stream': stream, 'batches': [b0, b1], 'exact': True})
    else:
      stream = gen_stream(rng, dyadic=rng.random() < 0.3)
      batches = [make_batches(rng, stream, gen_partition(rng, len(stream), False)) for _ in range(2)]
      wcases.append({'stream': stream, 'batches': batches})
  # the excluded point: an empty array in the stream
  for _ in range(4):
    stream = gen_stream(rng)
    sizes = gen_partition(rng, len(stream), False)
    sizes.insert(rng.randrange(0, len(sizes) + 1), 0)
    wcases.append({'stream': stream, 'batches': [make_batches(rng, stream, sizes, ints_ok=False)]})
  check_welford(ctx, drv, wcases)
  acases = []
  for _ in range(n):
    c = gen_accuracy_case(rng)
    c['reshape'] = rng.random() < 0.3
    acases.append(c)
  check_accuracy(ctx, drv, acases)
  check_accuracy_errors(ctx, drv)
  check_large_counts(ctx, rng, 3 if not thorough else 12)
  check_multimetric(ctx, drv, [rng.randrange(2**62) for _ in range(60 if not thorough else 600)])
  ctx.sample({'kind': 'average', 'stream': [str(v) for v in cases[0]['stream']], 'partitions': [[b[1] for b in bl] for bl in cases[0]['batches']]})
  ctx.sample({'kind': 'welford', 'stream': [str(v) for v in wcases[0]['stream']], 'sizes': [[(1 if 's' in b[1] else len(b[1]['a'])) for b in bl] for bl in wcases[0]['batches']]})


# ------------------------------------------------------------------------------------------------
# OPTIMIZERS: transformations, trees, hand-written loop
# ------------------------------------------------------------------------------------------------


def _sched(rng):
  vals = [rng.choice([1.0, 0.5, 0.25, 0.125]) for _ in range(3)]
  def f(count):
    return jnp.where(count < 1, vals[0], jnp.where(count < 2, vals[1], vals[2]))
  return f, vals


def _gen_tx_base(rng):
  """-> (description, factory). Dyadic hyper-parameters keep float32 exact for the exact families."""
  lr = rng.choice([1.0, 0.5, 0.25, 0.125])
  mom = rng.choice([0.5, 0.25])
  wd = rng.choice([0.5, 0.25])
  fam = rng.choice(
    ['sgd', 'sgd', 'momentum', 'nesterov', 'trace-chain', 'decay-chain', 'sched-sgd', 'scale-by-schedule', 'clip-chain',
     'apply-every', 'identity', 'set-to-zero', 'adam', 'adamw', 'rmsprop', 'adagrad', 'sched-adam', 'ema-chain']
  )
  if fam == 'sgd':
    return f'sgd({lr})', lambda: optax.sgd(lr)
  if fam == 'momentum':
    return f'sgd({lr},momentum={mom})', lambda: optax.sgd(lr, momentum=mom)
  if fam == 'nesterov':
    return f'sgd({lr},momentum={mom},nesterov)', lambda: optax.sgd(lr, momentum=mom, nesterov=True)
  if fam == 'trace-chain':
    return f'chain(trace({mom}),scale({-lr}))', lambda: optax.chain(optax.trace(decay=mom), optax.scale(-lr))
  if fam == 'decay-chain':
    return f'chain(add_decayed_weights({wd}),sgd({lr},momentum={mom}))', lambda: optax.chain(optax.add_decayed_weights(wd), optax.sgd(lr, momentum=mom))
  if fam == 'sched-sgd':
    f, vals = _sched(rng)
    return f'sgd(schedule{vals})', lambda: optax.sgd(f)
  if fam == 'scale-by-schedule':
    f, vals = _sched(rng)
    return f'chain(trace({mom}),scale_by_schedule(-{vals}))', lambda: optax.chain(optax.trace(decay=mom), optax.scale_by_schedule(lambda c: -f(c)))
  if fam == 'clip-chain':
    return f'chain(clip(2.0),sgd({lr}))', lambda: optax.chain(optax.clip(2.0), optax.sgd(lr))
  if fam == 'apply-every':
    return f'chain(apply_every(2),scale({-lr}))', lambda: optax.chain(optax.apply_every(2), optax.scale(-lr))
  if fam == 'identity':
    return 'identity', lambda: optax.identity()
  if fam == 'set-to-zero':
    return 'set_to_zero', lambda: optax.set_to_zero()
  if fam == 'adam':
    return 'adam(1e-2)', lambda: optax.adam(1e-2)
  if fam == 'adamw':
    return 'adamw(1e-2)', lambda: optax.adamw(1e-2, weight_decay=1e-2)
  if fam == 'rmsprop':
    return 'rmsprop(1e-2)', lambda: optax.rmsprop(1e-2)
  if fam == 'adagrad':
    return 'adagrad(0.1)', lambda: optax.adagrad(0.1)
  if fam == 'sched-adam':
    return 'adam(cosine)', lambda: optax.adam(optax.cosine_decay_schedule(1e-2, 10))
  return f'chain(ema({mom}),sgd({lr}))', lambda: optax.chain(optax.ema(mom, debias=False), optax.sgd(lr))


# mixed precision: set only while a case is being generated (see `seeded`); (low dtype, private rng).
# The private rng keeps the main random stream - and so every float32 case of a given cseed - unchanged.
_PREC = None
F32 = jnp.float32


def gen_tx_mixed(prng):
  fam = prng.choice(['sgd-wide-grads', 'clip-global-norm', 'adam-mu32', 'scale-by-adam-mu32', 'momentum-acc32', 'adamw-mu32'])
  lr = prng.choice([0.5, 0.25, 0.125])
  if fam == 'sgd-wide-grads':
    return f'sgd({lr})', lambda: optax.sgd(lr)
  if fam == 'clip-global-norm':
    return f'chain(clip_by_global_norm(1.0),sgd({lr}))', lambda: optax.chain(optax.clip_by_global_norm(1.0), optax.sgd(lr))
  if fam == 'adam-mu32':
    return 'adam(1e-2,mu_dtype=float32)', lambda: optax.adam(1e-2, mu_dtype=jnp.float32)
  if fam == 'scale-by-adam-mu32':
    return f'chain(scale_by_adam(mu_dtype=float32),scale({-lr}))', lambda: optax.chain(optax.scale_by_adam(mu_dtype=jnp.float32), optax.scale(-lr))
  if fam == 'momentum-acc32':
    return f'sgd({lr},momentum=0.5,accumulator_dtype=float32)', lambda: optax.sgd(lr, momentum=0.5, accumulator_dtype=jnp.float32)
  return 'adamw(1e-2,mu_dtype=float32)', lambda: optax.adamw(1e-2, mu_dtype=jnp.float32)


def gen_tx(rng):
  base = _gen_tx_base(rng)
  if _PREC is not None and _PREC[1].random() < 0.75:
    return gen_tx_mixed(_PREC[1])
  return base


class SpyTx:
  """wraps a transformation and records, by value, what every `update` call was given"""

  def __init__(self, tx):
    self.calls = []
    self.inits = []
    def init(params):
      st = tx.init(params)
      self.inits.append((params, st))
      return st
    def update(grads, state, params=None, **kw):
      out = tx.update(grads, state, params, **kw)
      self.calls.append((grads, state, params, out))
      return out
    self.tx = optax.GradientTransformationExtraArgs(init, update)


def gen_array(rng, shape=None, dtype=None):
  """small-integer array (exact in float32, bfloat16 and float16). While a mixed-precision case is being
  generated a fresh leaf is low precision with probability 0.7, float32 otherwise."""
  if shape is None:
    shape = rng.choice([(), (1,), (2,), (3,), (2, 2), (2, 3)])
  n = int(np.prod(shape)) if shape else 1
  a = jnp.asarray(np.array([rng.randrange(-8, 9) for _ in range(n)], dtype=np.float32).reshape(shape))
  if dtype is None and _PREC is not None:
    dtype = _PREC[0] if _PREC[1].random() < 0.7 else F32
  return a if dtype is None else a.astype(dtype)


def grad_dtype(x, prng):
  """gradient dtype: the parameter's own dtype or the wider float32"""
  return jnp.asarray(x).dtype if prng.random() < 0.5 else F32


KEYS = ['w', 'b', 'kernel', 'bias', 'scale', 'layer0', 'layer1', 'dense', 'head', 'emb']


def gen_tree(rng, depth=0):
  """nested dict of float32 arrays with integer values"""
  n = rng.randrange(1, 4) if depth else rng.randrange(1, 4)
  out = {}
  for k in rng.sample(KEYS, n):
    if depth < 2 and rng.random() < 0.35:
      out[k] = gen_tree(rng, depth + 1)
    else:
      out[k] = gen_array(rng)
  return out


def like_tree(rng, t):
  if _PREC is not None:
    return jax.tree.map(lambda x: gen_array(rng, tuple(np.shape(x)), grad_dtype(x, _PREC[1])), t)
  return jax.tree.map(lambda x: gen_array(rng, tuple(np.shape(x))), t)


def is_vs(x):
  return isinstance(x, nnx.VariableState)


def pt_json(t):
  """nested mapping -> JSON PT (keys sorted by the JSON encoder on the Lean side)"""
  if isinstance(t, (dict, FrozenDict)):
    return {str(k): pt_json(v) for k, v in t.items()}
  return arr_json(t)


def pt_canon(t):
  """nested mapping -> comparable canonical form (bitwise leaves)"""
  if isinstance(t, (dict, FrozenDict)):
    return {str(k): pt_canon(t[k]) for k in sorted(t.keys())}
  return bits(t)


def leaves_bits(t):
  return [bits(x.value) if is_vs(x) else bits(x) for x in jax.tree.leaves(t, is_leaf=is_vs)]


def leaves_json(t):
  return [arr_json(x) for x in jax.tree.leaves(t)]


def info_of(v):
  """what filters and the pytree structure see of a Variable / VariableState"""
  t = v.type if is_vs(v) else type(v)
  md = v.get_metadata()
  return {'types': [c.__name__ for c in t.__mro__], 'tag': md.get('tag')}


def enc_path(p):
  return [str(k) for k in p]


def nstate_items(state):
  """nnx.State -> [(path, VariableState)] sorted by path"""
  items = [(tuple(p), v) for p, v in statelib.to_flat_state(state)]
  return sorted(items, key=lambda e: enc_path(e[0]))


def nstate_json(state):
  return [[enc_path(p), info_of(v), arr_json(v.value)] for p, v in nstate_items(state)]


def nstate_canon(state):
  return [(tuple(enc_path(p)), v.type.__name__, tuple(sorted((k, repr(x)) for k, x in v.get_metadata().items())), bits(v.value)) for p, v in nstate_items(state)]


def optstate_json(st):
  out = []
  for x in jax.tree.leaves(st, is_leaf=is_vs):
    if is_vs(x):
      out.append({'vs': [info_of(x), arr_json(x.value)]})
    else:
      out.append({'arr': arr_json(x)})
  return out


def optstate_canon(st):
  out = []
  for x in jax.tree.leaves(st, is_leaf=is_vs):
    if is_vs(x):
      out.append(('vs', x.type.__name__, tuple(sorted((k, repr(v)) for k, v in x.get_metadata().items())), bits(x.value)))
    else:
      out.append(('arr', bits(x)))
  return out


def additions_exact(params, updates):
  """every float32 `p + u` of optax.apply_updates is exact (so that the rational model applies)"""
  ps = [x.value if is_vs(x) else x for x in jax.tree.leaves(params, is_leaf=is_vs)]
  us = [x.value if is_vs(x) else x for x in jax.tree.leaves(updates, is_leaf=is_vs)]
  if len(ps) != len(us):
    return False
  for p, u in zip(ps, us):
    p = np.asarray(p)
    u = np.asarray(u)
    if p.shape != u.shape or not (np.all(np.isfinite(p)) and np.all(np.isfinite(u))):
      return False
    for a, b in zip(p.reshape(-1), u.reshape(-1)):
      ex = Fraction(float(a)) + Fraction(float(b))
      if Fraction(float(ex)) != ex or Fraction(float(np.asarray(float(ex)).astype(p.dtype))) != ex:
        return False  # not representable in the parameter's dtype: the cast-back of apply_updates rounds
  return True


def hand_loop(tx, params, grads_list):
  """the by-hand reference: tx.init, then tx.update + optax.apply_updates per step.
  Returns (trace, err): trace[k] = dict(grads, in_state, params, updates|None, out_state|None, new_params|None)"""
  st = tx.init(params)
  init_state = st
  trace = []
  for g in grads_list:
    rec = {'grads': g, 'in_state': st, 'params': params}
    try:
      u, st2 = tx.update(g, st, params)
      newp = optax.apply_updates(params, u)
    except Exception as e:
      rec['raise'] = exc_name(e)
      trace.append(rec)
      return init_state, trace, exc_name(e)
    rec.update(updates=u, out_state=st2, new_params=newp)
    trace.append(rec)
    st, params = st2, newp
  return init_state, trace, None


# ------------------------------------------------------------------------------------------------
# step counters: "increments the step counter by one" = + 1 in the counter's own arithmetic
# ------------------------------------------------------------------------------------------------

STEP_DTYPES = {'int8': np.int8, 'uint8': np.uint8, 'int16': np.int16, 'int32': np.int32, 'uint32': np.uint32}


def step_key(step):
  """(dtype name or 'pyint', exact integer value) of a step counter"""
  if isinstance(step, int) and not isinstance(step, bool):
    return ('pyint', int(step))
  a = np.asarray(step)
  return (str(a.dtype), int(a))


def step_succ(key):
  """old + 1 computed in the counter's own dtype (NumPy same-dtype addition, which wraps); a Python int is unbounded"""
  dt, v = key
  if dt == 'pyint':
    return (dt, v + 1)
  with np.errstate(over='ignore'):
    return (dt, int(np.add(np.array(v, dtype=dt), np.array(1, dtype=dt), dtype=dt)))


def step_model(key):
  """-> (width or None, bit pattern) as the Lean model represents the counter"""
  dt, v = key
  if dt == 'pyint':
    return None, v
  w = np.dtype(dt).itemsize * 8
  return w, v % (2**w)


def pick_step(prng, kind):
  """start value of the step counter: mostly the default, otherwise a value from
  {0, small, 12345, max-2, max-1, max} of an int32 / int8 / uint8 / int16 / uint32 counter"""
  if prng.random() < 0.62:
    return None
  dts = {'linen': ['int32', 'int32', 'int8', 'uint8', 'int16', 'pyint'], 'nts': ['int32', 'int32', 'int32', 'int8', 'uint8', 'int16', 'uint32'],
         'opt': ['uint32', 'uint32', 'uint32', 'int8', 'int32']}[kind]
  dt = prng.choice(dts)
  if dt == 'pyint':
    return ('pyint', prng.choice([2**31 - 2, 2**31 - 1, 2**32 - 1, 12345]))
  mx = int(np.iinfo(dt).max)
  v = prng.choice([0, prng.randrange(1, 6), min(12345, mx // 2), mx - 2, mx - 2, mx - 1, mx - 1, mx, mx])
  return (dt, v)


def _step_bucket(key):
  if not key:
    return 'default'
  dt, v = key
  if dt == 'pyint':
    return 'pyint-large'
  return f'{dt}:' + ('near-max' if v >= int(np.iinfo(dt).max) - 2 else 'low')


def step_value(key, python_int_for_int32=False):
  dt, v = key
  if dt == 'pyint' or (python_int_for_int32 and dt == 'int32'):
    return v
  return jnp.asarray(np.array(v, dtype=dt))


# ------------------------------------------------------------------------------------------------
# flax.training.train_state.TrainState
# ------------------------------------------------------------------------------------------------

FNS = {i: (lambda i: (lambda *a, **k: i))(i) for i in range(1, 5)}
FN_ID = {id(f): i for i, f in FNS.items()}


class TrainState2(linen_ts.TrainState):
  batch_stats: int = 0
  tag: int = struct.field(pytree_node=False, default=0)


def ts_fields(st):
  out = [['apply_fn', FN_ID.get(id(st.apply_fn), -1)]]
  if isinstance(st, TrainState2):
    out += [['batch_stats', int(st.batch_stats)], ['tag', int(st.tag)]]
  return out


def gen_linen_case(rng):
  desc, mk = gen_tx(rng)
  tree = gen_tree(rng)
  owg = rng.random() < 0.3
  frozen = rng.random() < 0.3
  params = {'params': tree, OWG: gen_tree(rng, 1)} if owg else tree
  steps = rng.randrange(1, 5)
  grads = [like_tree(rng, params) for _ in range(steps)]
  sub = rng.random() < 0.5
  kwargs = []
  for _ in range(steps):
    kw = {}
    r = rng.random()
    if r < 0.15:
      kw['apply_fn'] = rng.randrange(2, 5)
    elif r < 0.35 and sub:
      kw[rng.choice(['batch_stats', 'tag'])] = rng.randrange(1, 100)
    kwargs.append(kw)
  malformed = None
  r = rng.random()
  if r < 0.06:
    malformed = 'unknown-kwarg'
    kwargs[-1] = {'foo': 1}
  elif r < 0.10:
    malformed = 'core-kwarg'
    kwargs[-1] = {rng.choice(['step', 'params', 'opt_state']): 1}
  elif r < 0.16:
    malformed = 'grads-missing-leaf'
  elif r < 0.20 and owg:
    malformed = 'owg-grads-without-params'
  return dict(tx=desc, mk=mk, params=params, owg=owg, frozen=frozen, grads=grads, sub=sub, kwargs=kwargs, malformed=malformed)


def _drop_leaf(t):
  """same tree with one (deepest-first) leaf removed -> structure mismatch for optax"""
  t = dict(t)
  for k in sorted(t.keys()):
    if isinstance(t[k], dict) and k != OWG:
      t[k] = _drop_leaf(t[k])
      return t
  k = sorted(t.keys())[0]
  del t[k]
  return t


def run_linen_case(ctx, c):
  """runs the real TrainState and the hand loop; returns (canon, request-or-None, observation)"""
  params = c['params']
  grads = list(c['grads'])
  if c['malformed'] == 'grads-missing-leaf':
    g = dict(grads[-1])
    if c['owg']:
      g['params'] = _drop_leaf(g['params'])
    else:
      g = _drop_leaf(g)
    grads[-1] = g
  elif c['malformed'] == 'owg-grads-without-params':
    grads[-1] = {OWG: grads[-1][OWG]}
  if c['frozen']:
    params = freeze(params)
    grads = [freeze(g) for g in grads]
  canon = {'kind': 'linen-trainstate', 'step_start': c.get('step_start'), 'prec': c.get('prec'), 'cseed': c.get('cseed'), 'force': c.get('force'), 'tx': c['tx'], 'owg': c['owg'], 'frozen': c['frozen'], 'sub': c['sub'],
           'params': pt_json(params), 'grads': [pt_json(g) for g in grads], 'kwargs': c['kwargs'], 'malformed': c['malformed']}
  popt = params['params'] if c['owg'] else params
  gopts = []
  for g in grads:
    if c['owg']:
      gopts.append(g['params'] if 'params' in g else None)
    else:
      gopts.append(g)
  viol = []
  spy = SpyTx(c['mk']())
  cls = TrainState2 if c['sub'] else linen_ts.TrainState
  extra = dict(batch_stats=0, tag=0) if c['sub'] else {}
  r = call(cls.create, apply_fn=FNS[1], params=params, tx=spy.tx, **extra)
  if r[0] != 'ok':
    viol.append(('trainstate-create-raises', f'TrainState.create raised {r[1]}'))
    return canon, None, viol, None
  st = r[1]
  # hand loop (on a fresh, identical transformation); stops at the first structural problem
  usable = [g for g in gopts]
  n_ok = len(usable)
  if None in usable:
    n_ok = usable.index(None)
  init_state, trace, herr = hand_loop(c['mk'](), popt, usable[:n_ok])
  if int(st.step) != 0 or leaves_bits(st.opt_state) != leaves_bits(init_state) or pt_canon(st.params) != pt_canon(params):
    viol.append(('trainstate-create', 'create(): step != 0, params changed or opt_state != tx.init(params to optimise)'))
  if c.get('step_start'):
    st = st.replace(step=step_value(c['step_start']))  # a resumed run: the caller puts the counter there
  step0_key = step_key(st.step)
  obs = {'err': None, 'at': None}
  cur = st
  for k, g in enumerate(grads):
    kw = dict(c['kwargs'][k])
    if 'apply_fn' in kw:
      kw['apply_fn'] = FNS[kw['apply_fn']]
    before = (step_key(cur.step), pt_canon(cur.params), leaves_bits(cur.opt_state), ts_fields(cur))
    r = call(cur.apply_gradients, grads=g, **kw)
    after = (step_key(cur.step), pt_canon(cur.params), leaves_bits(cur.opt_state), ts_fields(cur))
    if before != after:
      viol.append(('trainstate-old-instance-mutated', f'apply_gradients changed the instance it was called on (step {k})'))
    if r[0] != 'ok':
      obs['err'], obs['at'] = r[1], k
      hand_raises = k < len(trace) and 'raise' in trace[k]
      expected = hand_raises or (k == len(grads) - 1 and c['malformed'] in ('unknown-kwarg', 'core-kwarg', 'owg-grads-without-params'))
      if not expected:
        viol.append(('trainstate-unexpected-exception', f'step {k}: apply_gradients raised {r[1]} although the by-hand step succeeds'))
      elif c['malformed'] in ('unknown-kwarg', 'core-kwarg') and not hand_raises and r[1] != 'TypeError':
        viol.append(('trainstate-kwarg-error-class', f'step {k}: bad kwarg raised {r[1]}, not TypeError'))
      break
    new = r[1]
    if new is cur:
      viol.append(('trainstate-same-instance', f'apply_gradients returned the same instance (step {k})'))
    if k < len(trace) and 'updates' in trace[k]:
      h = trace[k]
      if step_key(new.step) != step_succ(before[0]):
        viol.append(('trainstate-step', f'step went from {before[0]} to {step_key(new.step)} in one apply_gradients call; + 1 in the counter\'s own arithmetic is {step_succ(before[0])}'))
      if c['owg']:
        keys = set(new.params.keys())
        if keys != {'params', OWG}:
          viol.append(('trainstate-owg-keys', f'OWG mode: params has keys {sorted(keys)}'))
        else:
          if pt_canon(new.params['params']) != pt_canon(h['new_params']):
            viol.append(('trainstate-params-differ-from-hand-loop', f'OWG mode, step {k}: params[params] != apply_updates(params[params], tx.update(grads[params])) by hand'))
          if pt_canon(new.params[OWG]) != pt_canon(g[OWG]):
            viol.append(('trainstate-owg-not-overwritten', f'OWG mode, step {k}: params[{OWG}] is not grads[{OWG}]'))
      else:
        if pt_canon(new.params) != pt_canon(h['new_params']):
          viol.append(('trainstate-params-differ-from-hand-loop', f'step {k}: params != optax.apply_updates(params, tx.update(grads, opt_state, params)[0]) computed by hand'))
        elif jax.tree.structure(new.params) != jax.tree.structure(h['new_params']):
          viol.append(('trainstate-params-structure', f'step {k}: params pytree structure differs from the by-hand result'))
      if leaves_bits(new.opt_state) != leaves_bits(h['out_state']) or jax.tree.structure(new.opt_state) != jax.tree.structure(h['out_state']):
        viol.append(('trainstate-opt-state-differs-from-hand-loop', f'step {k}: opt_state != tx.update(...)[1] computed by hand'))
      # fields: only the ones named in kwargs change
      wantf = [[n, (c['kwargs'][k][n] if n in c['kwargs'][k] else v)] for n, v in before[3]]
      if ts_fields(new) != wantf:
        viol.append(('trainstate-fields', f'step {k}: fields {ts_fields(new)} expected {wantf}'))
      # what optax was given
      if len(spy.calls) != k + 1:
        viol.append(('trainstate-tx-call-count', f'tx.update was called {len(spy.calls)} times after {k+1} steps'))
      else:
        sg, ss, sp, _ = spy.calls[k]
        if pt_canon(sg) != pt_canon(h['grads']) or leaves_bits(ss) != leaves_bits(h['in_state']) or sp is None or pt_canon(sp) != pt_canon(h['params']):
          viol.append(('trainstate-tx-inputs', f'step {k}: tx.update was not given (grads, opt_state, params) of the by-hand loop' + (' (OWG subtree must not reach the optimizer)' if c['owg'] else '')))
    cur = new
  # expected exception: by-hand raises at the same step
  if obs['err'] is None and herr is not None:
    viol.append(('trainstate-missed-exception', f'the by-hand loop raises {herr} but apply_gradients did not'))
  obs.update(step=step_model(step_key(cur.step))[1], params=pt_json(cur.params), opt_state=leaves_json(cur.opt_state), fields=ts_fields(cur))
  # model request (only when every p + u was exact)
  exact = all(additions_exact(h['params'], h['updates']) for h in trace if 'updates' in h)
  req = None
  if exact:
    table = []
    for h in trace:
      e = {'grads': pt_json(h['grads']), 'in_state': leaves_json(h['in_state']), 'params': pt_json(h['params'])}
      if 'updates' in h:
        e.update(updates=pt_json(h['updates']), state=leaves_json(h['out_state']))
      else:
        e['raise'] = 1
      table.append(e)
    req = ('trainstate_run', [{
      'width': step_model(step0_key)[0], 'step0': step_model(step0_key)[1], 'owg': OWG, 'params': pt_json(params), 'fields': ts_fields(st),
      'init_table': [{'params': pt_json(popt), 'state': leaves_json(init_state)}], 'table': table,
      'steps': [{'grads': pt_json(g), 'kwargs': [[n, v] for n, v in c['kwargs'][k].items()]} for k, g in enumerate(grads)],
    }])
  return canon, (req if sendable(req) else None), viol, obs


ERR_CLASS = {'KeyError': 'KeyError', 'TypeError': 'TypeError', 'ValueError': 'ValueError', 'Tx1': 'tx-raised', 'Tx0': 'tx-unexpected-call'}


def check_linen(ctx, drv, cases):
  runs = [run_linen_case(ctx, c) for c in cases]
  outs = drv.run([r[1] for r in runs if r[1] is not None])
  k = 0
  for c, (canon, req, viol, obs) in zip(cases, runs):
    steps = len(c['grads'])
    ctx.case(canon, nontrivial=steps >= 1)
    ctx.count('linen_tx', c['tx'].split('(')[0])
    ctx.count('linen_steps', steps)
    ctx.count('linen_form', ('owg' if c['owg'] else 'plain') + ('+frozen' if c['frozen'] else '') + ('+subclass' if c['sub'] else ''))
    ctx.count('linen_malformed', c['malformed'])
    ctx.count('linen_precision', c.get('prec') or 'float32')
    ctx.count('linen_step_start', _step_bucket(c.get('step_start')))
    ctx.count('linen_model_compared', req is not None)
    for key, what in viol:
      ctx.violation(key, f'{what} ({c["tx"]}, owg={c["owg"]})', canon)
    if req is None:
      continue
    mo = outs[k]
    k += 1
    if viol or obs is None:
      continue
    if mo[0] != 'ok':
      ctx.disagreements_checked += 1
      ctx.violation('trainstate-model-mismatch', f'model failed: {mo}', canon, concrete=False)
      continue
    m = mo[1]
    merr = m.get('raise')
    if (merr is None) != (obs['err'] is None) or (merr is not None and m.get('at') != obs['at']):
      ctx.disagreements_checked += 1
      ctx.violation('trainstate-model-mismatch', f'exceptions differ: impl {obs["err"]} at {obs["at"]}, model {merr} at {m.get("at")}', canon, concrete=False)
      continue
    if merr is not None and merr in ('KeyError', 'TypeError') and merr != obs['err']:
      ctx.disagreements_checked += 1
      ctx.violation('trainstate-model-mismatch', f'exception class differs: impl {obs["err"]}, model {merr}', canon, concrete=False)
      continue
    if m['step'] != obs['step'] or m['params'] != obs['params'] or m['opt_state'] != obs['opt_state'] or m['fields'] != obs['fields']:
      ctx.disagreements_checked += 1
      diff = [f for f in ('step', 'params', 'opt_state', 'fields') if m[f] != obs[f]]
      ctx.violation('trainstate-model-mismatch', f'model and implementation differ in {diff} after the run ({c["tx"]})', dict(canon, model=m, impl=obs), concrete=False)


# ------------------------------------------------------------------------------------------------
# NNX: module graphs, wrt filters
# ------------------------------------------------------------------------------------------------


class MyParam(nnx.Param):
  pass


class Aux(nnx.Variable):
  pass


VTYPES = {'Param': nnx.Param, 'BatchStat': nnx.BatchStat, 'MyParam': MyParam, 'Cache': nnx.Cache, 'Aux': Aux, 'Variable': nnx.Variable}
TAGS = ['x', 'y']


class Node(nnx.Module):
  pass


# value hooks: user-level constraints applied by `variable.value = …` / `variable.value`; the optimizer
# wrappers move raw values, so none of them may fire on params or on optimizer-state slots
def hook_clamp(variable, value):
  return jnp.maximum(value, 0.0)


def hook_round(variable, value):
  return jnp.round(value)


def hook_negate(variable, value):
  return -value


class HookParam(nnx.Param):
  def on_set_value(self, value):
    return jnp.maximum(value, 0.0)


VTYPES_HOOK = {'HookParam': HookParam}
_HOOKRNG = None  # private rng, set only while an optimizer case is generated (keeps the main stream unchanged)


def gen_module(rng, reg, depth=0):
  m = Node()
  names = rng.sample(KEYS, rng.randrange(1, 5))
  for name in names:
    r = rng.random()
    if depth < 2 and r < 0.28:
      child = gen_module(rng, reg, depth + 1)
      setattr(m, name, child)
    elif r < 0.38 and reg['vars']:
      v = rng.choice(reg['vars'])  # the same Variable object under a second path
      setattr(m, name, v)
      reg['refs'].append((m, name, v))
      reg['shared'] += 1
    elif r < 0.43 and reg['mods']:
      sm = rng.choice(reg['mods'])  # a shared (already complete) sub-module
      setattr(m, name, sm)
      reg['shared'] += 1
    elif r < 0.53:
      val = rng.choice([3, 'relu', 0.5, None, (1, 2)])
      setattr(m, name, val)
      reg['statics'].append((m, name, val))
    else:
      vt = rng.choice(['Param', 'Param', 'Param', 'BatchStat', 'MyParam', 'Cache', 'Aux'])
      md = {}
      if rng.random() < 0.35:
        md['tag'] = rng.choice(TAGS)
      if rng.random() < 0.2:
        md['note'] = rng.choice(['n1', 'n2'])
      cls = VTYPES[vt]
      if _HOOKRNG is not None and _HOOKRNG.random() < 0.4:
        h = _HOOKRNG.choice(['set-clamp', 'set-round', 'set-negate', 'get-negate', 'subclass'])
        if h == 'subclass' and vt == 'Param':
          cls = HookParam
        elif h.startswith('set-'):
          md['on_set_value'] = {'set-clamp': hook_clamp, 'set-round': hook_round, 'set-negate': hook_negate}[h]
        else:
          md['on_get_value'] = hook_negate
        reg['hooks'] = reg.get('hooks', 0) + 1
      v = cls(gen_array(rng), **md)
      setattr(m, name, v)
      reg['vars'].append(v)
      reg['refs'].append((m, name, v))
  reg['mods'].append(m)
  return m


def gen_model(rng):
  while True:
    reg = {'vars': [], 'mods': [], 'refs': [], 'statics': [], 'shared': 0}
    m = gen_module(rng, reg)
    if reg['vars']:
      return m, reg


def gen_wrt(rng, depth=0):
  r = rng.random()
  if depth >= 2 or r < 0.55:
    a = rng.random()
    if a < 0.45:
      return {'type': rng.choice(['Param', 'Param', 'BatchStat', 'MyParam', 'Cache', 'Aux', 'Variable'])}
    if a < 0.65:
      return {'tag': rng.choice(TAGS)}
    if a < 0.8:
      return {'contains': rng.choice(KEYS)}
    if a < 0.9:
      return 'everything'
    return 'nothing' if a < 0.93 else {'type': 'Param'}
  if r < 0.7:
    return {'not': gen_wrt(rng, depth + 1)}
  k = rng.randrange(1, 4)
  return {rng.choice(['any', 'all']): [gen_wrt(rng, depth + 1) for _ in range(k)]}


def nf_python(j, sugar=None):
  """JSON filter -> real flax filter object (optionally through the literal forms)"""
  if j == 'everything':
    return ... if sugar else filterlib.Everything()
  if j == 'nothing':
    return None if sugar else filterlib.Nothing()
  if 'tag' in j:
    return j['tag'] if sugar else filterlib.WithTag(j['tag'])
  if 'type' in j:
    return VTYPES[j['type']] if sugar else filterlib.OfType(VTYPES[j['type']])
  if 'contains' in j:
    return filterlib.PathContains(j['contains'])
  if 'any' in j:
    xs = [nf_python(x, sugar) for x in j['any']]
    return tuple(xs) if sugar else filterlib.Any(*xs)
  if 'all' in j:
    return filterlib.All(*[nf_python(x, sugar) for x in j['all']])
  if 'not' in j:
    return filterlib.Not(nf_python(j['not'], sugar))
  raise ValueError(j)


def walk(model, path):
  o = model
  for k in path:
    o = getattr(o, k)
  return o


def var_snapshot(v):
  return (type(v).__name__, tuple(sorted((k, repr(x)) for k, x in v.get_metadata().items())), bits(v.raw_value))


def opt_leaves(opt):
  return jax.tree.leaves(opt.opt_state, is_leaf=lambda x: isinstance(x, nnx.Variable))


def opt_state_json_impl(opt):
  out = []
  kinds = []
  for L in opt_leaves(opt):
    kn = type(L).__name__
    kinds.append(kn)
    if kn == 'OptVariable':
      md = L.get_metadata()
      st = md.get('source_type')
      out.append({'vs': [{'types': [c.__name__ for c in st.__mro__] if isinstance(st, type) else ['?'], 'tag': md.get('tag')}, arr_json(L.raw_value)]})
    else:
      out.append({'arr': arr_json(L.raw_value)})
  return out, kinds


def opt_state_canon_impl(opt):
  """same canonical form as optstate_canon(hand state): OptVariable <-> VariableState of source_type"""
  out = []
  for L in opt_leaves(opt):
    if type(L).__name__ == 'OptVariable':
      md = dict(L.get_metadata())
      st = md.pop('source_type', None)
      out.append(('vs', getattr(st, '__name__', repr(st)), tuple(sorted((k, repr(v)) for k, v in md.items())), bits(L.raw_value)))
    elif type(L).__name__ == 'OptArray':
      out.append(('arr', bits(L.raw_value)))
    else:
      out.append(('other', type(L).__name__))
  return out


def kind_changing_tx():
  """a transformation whose new state has a different leaf kind (violates A-OPTAX's structural part):
  exercises the TypeError branch of _update_opt_state, raised after step and model were updated"""
  def init(params):
    return {'c': jnp.zeros((), jnp.float32)}
  def update(grads, state, params=None):
    return jax.tree.map(lambda g: -g, grads), {'c': nnx.VariableState(nnx.Param, jnp.ones((), jnp.float32))}
  return optax.GradientTransformation(init, update)


def drop_state_leaf(state):
  flat = dict(statelib.to_flat_state(state))
  if not flat:
    return state
  k = sorted(flat.keys(), key=enc_path)[0]
  del flat[k]
  return nnx.State.from_flat_path(flat)


# ------------------------------------------------------------------------------------------------
# nnx.Optimizer
# ------------------------------------------------------------------------------------------------


def gen_optimizer_case(rng, force=None):
  model, reg = gen_model(rng)
  if rng.random() < 0.7:
    m2, r2 = gen_model(rng)  # prefer graphs with several Variables
    if len(r2['vars']) > len(reg['vars']):
      model, reg = m2, r2
  wrt = gen_wrt(rng)
  for _ in range(6):
    if rng.random() < 0.1 or len(nstate_items(nnx.state(model, nf_python(wrt)))) > 0:
      break
    wrt = gen_wrt(rng)
  desc, mk = gen_tx(rng)
  malformed = None
  r = rng.random()
  if force == 'grads-missing-leaf' or (force is None and r < 0.08):
    malformed = 'grads-missing-leaf'
  elif force == 'kind-changing-tx' or (force is None and r < 0.12):
    malformed = 'kind-changing-tx'
    desc, mk = 'kind-changing', kind_changing_tx
  return dict(model=model, reg=reg, wrt=wrt, sugar=rng.random() < 0.4, tx=desc, mk=mk, steps=rng.randrange(1, 5), malformed=malformed, gseed=rng.randrange(10**9))


def run_optimizer_case(ctx, c):
  import random as _random

  grng = _random.Random(c['gseed'])
  model, reg = c['model'], c['reg']
  flt = nf_python(c['wrt'], c['sugar'])
  full0 = nstate_items(nnx.state(model))
  objs = [(p, walk(model, p)) for p, _ in full0]
  params0 = nnx.state(model, flt)
  sel_paths = {tuple(p) for p, _ in nstate_items(params0)}
  if c.get('prec'):
    g2 = _random.Random(c['gseed'] + 1)
    grads = [jax.tree.map(lambda x: gen_array(grng, tuple(np.shape(x)), grad_dtype(x, g2)), params0) for _ in range(c['steps'])]
  else:
    grads = [jax.tree.map(lambda x: gen_array(grng, tuple(np.shape(x))), params0) for _ in range(c['steps'])]
  if c['malformed'] == 'grads-missing-leaf':
    grads[-1] = drop_state_leaf(grads[-1])
  canon = {'kind': 'nnx-optimizer', 'hooks': c.get('hooks', 0), 'step_start': c.get('step_start'), 'prec': c.get('prec'), 'cseed': c.get('cseed'), 'force': c.get('force'), 'tx': c['tx'], 'wrt': c['wrt'], 'sugar': c['sugar'], 'model': nstate_json(nnx.state(model)),
           'aliases': reg['shared'], 'grads': [nstate_json(g) for g in grads], 'malformed': c['malformed']}
  viol = []
  init_state, trace, herr = hand_loop(c['mk'](), params0, grads)
  spy = SpyTx(c['mk']())
  r = call(nnx.Optimizer, model, spy.tx, wrt=flt)
  if r[0] != 'ok':
    viol.append(('optimizer-init-raises', f'nnx.Optimizer(...) raised {r[1]}'))
    return canon, None, viol, None
  opt = r[1]
  if int(np.asarray(opt.step.value)) != 0 or opt_state_canon_impl(opt) != optstate_canon(init_state) or opt.model is not model:
    viol.append(('optimizer-init', 'Optimizer.__init__: step != 0, opt_state != wrap(tx.init(nnx.state(model, wrt))) or model not held by reference'))
  if c.get('step_start'):
    opt.step.value = step_value(c['step_start'])  # a resumed run
  step0_key = step_key(opt.step.value)
  obs = {'err': None, 'at': None}
  for k, g in enumerate(grads):
    before_vars = [var_snapshot(v) for _, v in objs]
    before_opt = opt_state_canon_impl(opt)
    before_step = step_key(opt.step.value)
    opt_objs = [id(L) for L in opt_leaves(opt)]
    r = call(opt.update, g)
    after_vars = [var_snapshot(v) for _, v in objs]
    h = trace[k] if k < len(trace) else None
    # frame, whatever happened: identities, unselected Variables, types and metadata, static attributes
    for (p, v), b, a in zip(objs, before_vars, after_vars):
      if tuple(p) not in sel_paths and a != b:
        viol.append(('optimizer-touches-unselected', f'step {k}: Variable {p} ({b[0]}) is not selected by wrt={c["wrt"]} but changed'))
      if a[:2] != b[:2]:
        viol.append(('optimizer-changes-variable-metadata', f'step {k}: type/metadata of Variable {p} changed from {b[:2]} to {a[:2]}'))
    for mod, name, v in reg['refs']:
      if getattr(mod, name, None) is not v:
        viol.append(('optimizer-breaks-identity', f'step {k}: attribute {name} no longer refers to the caller\'s Variable object'))
        break
    for mod, name, val in reg['statics']:
      if getattr(mod, name, '<missing>') != val:
        viol.append(('optimizer-touches-static', f'step {k}: static attribute {name} changed'))
        break
    if [id(L) for L in opt_leaves(opt)] != opt_objs or opt.model is not model:
      viol.append(('optimizer-replaces-objects', f'step {k}: optimizer-state Variables or the model reference were replaced instead of updated in place'))
    if r[0] != 'ok':
      obs['err'], obs['at'] = r[1], k
      if h is not None and 'raise' in h:
        # atomicity: the by-hand step raised, so nothing may have changed
        if after_vars != before_vars or opt_state_canon_impl(opt) != before_opt or step_key(opt.step.value) != before_step:
          viol.append(('optimizer-failed-update-mutates', f'step {k}: update raised {r[1]} (as the by-hand step does) but step/model/opt_state were already changed'))
      elif c['malformed'] != 'kind-changing-tx':
        viol.append(('optimizer-unexpected-exception', f'step {k}: update raised {r[1]} although the by-hand step succeeds (wrt={c["wrt"]})'))
      break
    if h is None or 'raise' in h:
      viol.append(('optimizer-missed-exception', f'step {k}: the by-hand step raises {herr} but update did not'))
      break
    if step_key(opt.step.value) != step_succ(before_step):
      viol.append(('optimizer-step', f'step counter went from {before_step} to {step_key(opt.step.value)} in one update; + 1 in the counter\'s own arithmetic is {step_succ(before_step)}'))
    if nstate_canon(nnx.state(model, flt)) != nstate_canon(h['new_params']):
      viol.append(('optimizer-params-differ-from-hand-loop', f'step {k}: nnx.state(model, wrt) != optax.apply_updates(params, tx.update(grads, opt_state, params)[0]) computed by hand'))
    if opt_state_canon_impl(opt) != optstate_canon(h['out_state']):
      viol.append(('optimizer-opt-state-differs-from-hand-loop', f'step {k}: the stored optimizer state is not tx.update(...)[1] computed by hand'))
    if len(spy.calls) != k + 1:
      viol.append(('optimizer-tx-call-count', f'tx.update called {len(spy.calls)} times after {k+1} updates'))
    else:
      sg, ss, sp, _ = spy.calls[k]
      if nstate_canon(sg) != nstate_canon(h['grads']) or optstate_canon(ss) != optstate_canon(h['in_state']) or sp is None or nstate_canon(sp) != nstate_canon(h['params']):
        viol.append(('optimizer-tx-inputs', f'step {k}: tx.update was not given (grads, unwrapped opt_state, nnx.state(model, wrt)) of the by-hand loop'))
  osj, kinds = opt_state_json_impl(opt)
  obs.update(step=step_model(step_key(opt.step.value))[1], model=nstate_json(nnx.state(model)), opt_state=osj, kinds=kinds)
  exact = all(additions_exact(h['params'], h['updates']) for h in trace if 'updates' in h)
  req = None
  if exact:
    table = []
    for h in trace:
      e = {'grads': nstate_json(h['grads']), 'in_state': optstate_json(h['in_state']), 'params': nstate_json(h['params'])}
      if 'updates' in h:
        e.update(updates=nstate_json(h['updates']), state=optstate_json(h['out_state']))
      else:
        e['raise'] = 1
      table.append(e)
    req = ('optimizer_run', [{
      'width': step_model(step0_key)[0], 'step0': step_model(step0_key)[1], 'model': canon['model'], 'wrt': c['wrt'],
      'init_table': [{'params': nstate_json(params0), 'state': optstate_json(init_state)}], 'table': table,
      'grads': canon['grads'],
    }])
  return canon, (req if sendable(req) else None), viol, obs


def check_optimizer(ctx, drv, cases):
  runs = [run_optimizer_case(ctx, c) for c in cases]
  outs = drv.run([r[1] for r in runs if r[1] is not None])
  k = 0
  for c, (canon, req, viol, obs) in zip(cases, runs):
    nsel = sum(1 for g in canon['grads'][:1] for _ in g)
    ctx.case(canon, nontrivial=nsel >= 1)
    ctx.count('opt_tx', c['tx'].split('(')[0])
    ctx.count('opt_steps', c['steps'])
    ctx.count('opt_n_variables', len(canon['model']))
    ctx.count('opt_n_selected', nsel)
    ctx.count('opt_has_shared', canon['aliases'] > 0)
    ctx.count('opt_wrt_head', next(iter(c['wrt'])) if isinstance(c['wrt'], dict) else c['wrt'])
    ctx.count('opt_malformed', c['malformed'])
    ctx.count('opt_precision', c.get('prec') or 'float32')
    ctx.count('opt_value_hooks', min(c.get('hooks', 0), 3))
    ctx.count('opt_step_start', _step_bucket(c.get('step_start')))
    ctx.count('opt_model_compared', req is not None)
    for key, what in viol:
      ctx.violation(key, f'{what} ({c["tx"]})', canon)
    if req is None:
      continue
    mo = outs[k]
    k += 1
    if viol or obs is None:
      continue
    if mo[0] != 'ok':
      ctx.disagreements_checked += 1
      ctx.violation('optimizer-model-mismatch', f'model failed: {mo}', canon, concrete=False)
      continue
    m = mo[1]
    merr = m.get('error')
    if (merr is None) != (obs['err'] is None) or (merr is not None and merr.get('at') != obs['at']):
      ctx.disagreements_checked += 1
      ctx.violation('optimizer-model-mismatch', f'exceptions differ: impl {obs["err"]} at {obs["at"]}, model {merr}', canon, concrete=False)
      continue
    if merr is not None and merr['raise'] == 'TypeError' and obs['err'] != 'TypeError':
      ctx.disagreements_checked += 1
      ctx.violation('optimizer-model-mismatch', f'exception class differs: impl {obs["err"]}, model TypeError', canon, concrete=False)
      continue
    diff = [f for f in ('step', 'model', 'opt_state', 'kinds') if m[f] != obs[f]]
    if diff:
      ctx.disagreements_checked += 1
      ctx.violation('optimizer-model-mismatch', f'model and implementation differ in {diff} after the run ({c["tx"]}, wrt={c["wrt"]})', dict(canon, model_out={f: m[f] for f in diff}, impl_out={f: obs[f] for f in diff}), concrete=False)


# ------------------------------------------------------------------------------------------------
# nnx.TrainState (functional)
# ------------------------------------------------------------------------------------------------


class NTrainState2(nnx.TrainState):
  other: nnx.State
  tag: int = struct.field(pytree_node=False, default=0)


def gen_ntrainstate_case(rng):
  model, reg = gen_model(rng)
  desc, mk = gen_tx(rng)
  steps = rng.randrange(1, 5)
  kwargs = [({'tag': rng.randrange(1, 100)} if rng.random() < 0.25 else {}) for _ in range(steps)]
  malformed = None
  r = rng.random()
  if r < 0.07:
    malformed = 'unknown-kwarg'
    kwargs[-1] = {'foo': 1}
  elif r < 0.14:
    malformed = 'grads-missing-leaf'
  return dict(model=model, reg=reg, tx=desc, mk=mk, steps=steps, step0=rng.choice([0, 0, 3, 10]), kwargs=kwargs, malformed=malformed, gseed=rng.randrange(10**9),
              wrt=rng.choice([{'type': 'Param'}, {'type': 'Param'}, 'everything', {'not': {'type': 'BatchStat'}}]))


def run_ntrainstate_case(ctx, c):
  import random as _random

  grng = _random.Random(c['gseed'])
  model = c['model']
  graphdef, params, other = nnx.split(model, nf_python(c['wrt']), ...)
  if c.get('prec'):
    g2 = _random.Random(c['gseed'] + 1)
    grads = [jax.tree.map(lambda x: gen_array(grng, tuple(np.shape(x)), grad_dtype(x, g2)), params) for _ in range(c['steps'])]
  else:
    grads = [jax.tree.map(lambda x: gen_array(grng, tuple(np.shape(x))), params) for _ in range(c['steps'])]
  if c['malformed'] == 'grads-missing-leaf':
    grads[-1] = drop_state_leaf(grads[-1])
  canon = {'kind': 'nnx-trainstate', 'step_start': c.get('step_start'), 'prec': c.get('prec'), 'cseed': c.get('cseed'), 'force': c.get('force'), 'tx': c['tx'], 'wrt': c['wrt'], 'params': nstate_json(params), 'grads': [nstate_json(g) for g in grads],
           'step0': c['step0'], 'kwargs': c['kwargs'], 'malformed': c['malformed']}
  viol = []
  init_state, trace, herr = hand_loop(c['mk'](), params, grads)
  spy = SpyTx(c['mk']())
  start = step_value(c['step_start'], python_int_for_int32=True) if c.get('step_start') else c['step0']
  want0 = step_key(jnp.asarray(start))
  r = call(NTrainState2.create, graphdef, params=params, tx=spy.tx, step=start, other=other, tag=0)
  if r[0] != 'ok':
    viol.append(('nnx-trainstate-create-raises', f'nnx.TrainState.create raised {r[1]}'))
    return canon, None, viol, None
  st = r[1]
  if step_key(st.step) != want0 or optstate_canon(st.opt_state) != optstate_canon(init_state) or nstate_canon(st.params) != nstate_canon(params):
    viol.append(('nnx-trainstate-create', 'create(): step, params or opt_state != tx.init(params)'))
  other_canon = nstate_canon(other)
  def snap(x):
    return (step_key(x.step), nstate_canon(x.params), optstate_canon(x.opt_state), int(x.tag), nstate_canon(x.other), id(x.graphdef))
  obs = {'err': None, 'at': None}
  cur = st
  for k, g in enumerate(grads):
    before = snap(cur)
    r = call(cur.apply_gradients, g, **c['kwargs'][k])
    if snap(cur) != before:
      viol.append(('nnx-trainstate-old-instance-mutated', f'step {k}: apply_gradients changed the instance it was called on'))
    if r[0] != 'ok':
      obs['err'], obs['at'] = r[1], k
      hand_raises = k < len(trace) and 'raise' in trace[k]
      if not (hand_raises or (k == len(grads) - 1 and c['malformed'] == 'unknown-kwarg')):
        viol.append(('nnx-trainstate-unexpected-exception', f'step {k}: apply_gradients raised {r[1]} although the by-hand step succeeds'))
      break
    new = r[1]
    h = trace[k] if k < len(trace) else None
    if new is cur:
      viol.append(('nnx-trainstate-same-instance', f'step {k}: apply_gradients returned the same instance'))
    if h is None or 'raise' in h:
      viol.append(('nnx-trainstate-missed-exception', f'step {k}: the by-hand step raises {herr} but apply_gradients did not'))
      break
    if step_key(new.step) != step_succ(before[0]):
      viol.append(('nnx-trainstate-step', f'step went from {before[0]} to {step_key(new.step)} in one call; + 1 in the counter\'s own arithmetic is {step_succ(before[0])}'))
    if nstate_canon(new.params) != nstate_canon(h['new_params']):
      viol.append(('nnx-trainstate-params-differ-from-hand-loop', f'step {k}: params != apply_updates(params, tx.update(grads, opt_state, params)[0]) by hand'))
    if optstate_canon(new.opt_state) != optstate_canon(h['out_state']):
      viol.append(('nnx-trainstate-opt-state-differs-from-hand-loop', f'step {k}: opt_state != tx.update(...)[1] by hand'))
    wtag = c['kwargs'][k].get('tag', before[3])
    if int(new.tag) != wtag or nstate_canon(new.other) != other_canon or new.graphdef is not cur.graphdef:
      viol.append(('nnx-trainstate-fields', f'step {k}: graphdef / other fields changed (tag {int(new.tag)} expected {wtag})'))
    if len(spy.calls) == k + 1:
      sg, ss, sp, _ = spy.calls[k]
      if nstate_canon(sg) != nstate_canon(h['grads']) or optstate_canon(ss) != optstate_canon(h['in_state']) or sp is None or nstate_canon(sp) != nstate_canon(h['params']):
        viol.append(('nnx-trainstate-tx-inputs', f'step {k}: tx.update was not given (grads, opt_state, params) of the by-hand loop'))
    else:
      viol.append(('nnx-trainstate-tx-call-count', f'tx.update called {len(spy.calls)} times after {k+1} steps'))
    cur = new
  if obs['err'] is None and herr is not None:
    viol.append(('nnx-trainstate-missed-exception', f'the by-hand loop raises {herr} but apply_gradients did not'))
  obs.update(step=step_model(step_key(cur.step))[1], params=nstate_json(cur.params), opt_state=optstate_json(cur.opt_state), fields=[['graphdef', 1], ['tag', int(cur.tag)]])
  exact = all(additions_exact(h['params'], h['updates']) for h in trace if 'updates' in h)
  req = None
  if exact:
    table = []
    for h in trace:
      e = {'grads': nstate_json(h['grads']), 'in_state': optstate_json(h['in_state']), 'params': nstate_json(h['params'])}
      if 'updates' in h:
        e.update(updates=nstate_json(h['updates']), state=optstate_json(h['out_state']))
      else:
        e['raise'] = 1
      table.append(e)
    req = ('ntrainstate_run', [{
      'params': nstate_json(params), 'step': step_model(want0)[1], 'width': step_model(want0)[0], 'fields': [['graphdef', 1], ['tag', 0]],
      'init_table': [{'params': nstate_json(params), 'state': optstate_json(init_state)}], 'table': table,
      'steps': [{'grads': nstate_json(g), 'kwargs': [[n, v] for n, v in c['kwargs'][k].items()]} for k, g in enumerate(grads)],
    }])
  return canon, (req if sendable(req) else None), viol, obs


def check_ntrainstate(ctx, drv, cases):
  runs = [run_ntrainstate_case(ctx, c) for c in cases]
  outs = drv.run([r[1] for r in runs if r[1] is not None])
  k = 0
  for c, (canon, req, viol, obs) in zip(cases, runs):
    ctx.case(canon, nontrivial=len(canon['params']) >= 1)
    ctx.count('nts_tx', c['tx'].split('(')[0])
    ctx.count('nts_steps', c['steps'])
    ctx.count('nts_n_params', len(canon['params']))
    ctx.count('nts_malformed', c['malformed'])
    ctx.count('nts_precision', c.get('prec') or 'float32')
    ctx.count('nts_step_start', _step_bucket(c.get('step_start')))
    ctx.count('nts_model_compared', req is not None)
    for key, what in viol:
      ctx.violation(key, f'{what} ({c["tx"]})', canon)
    if req is None:
      continue
    mo = outs[k]
    k += 1
    if viol or obs is None:
      continue
    if mo[0] != 'ok':
      ctx.disagreements_checked += 1
      ctx.violation('nnx-trainstate-model-mismatch', f'model failed: {mo}', canon, concrete=False)
      continue
    m = mo[1]
    merr = m.get('raise')
    if (merr is None) != (obs['err'] is None) or (merr is not None and m.get('at') != obs['at']):
      ctx.disagreements_checked += 1
      ctx.violation('nnx-trainstate-model-mismatch', f'exceptions differ: impl {obs["err"]} at {obs["at"]}, model {merr} at {m.get("at")}', canon, concrete=False)
      continue
    diff = [f for f in ('step', 'params', 'opt_state', 'fields') if m[f] != obs[f]]
    if diff:
      ctx.disagreements_checked += 1
      ctx.violation('nnx-trainstate-model-mismatch', f'model and implementation differ in {diff} after the run ({c["tx"]})', dict(canon, model_out={f: m[f] for f in diff}, impl_out={f: obs[f] for f in diff}), concrete=False)


# ------------------------------------------------------------------------------------------------
# entry points
# ------------------------------------------------------------------------------------------------


def run(ctx):
  drv = LeanDriver('drv_c17')
  thorough = ctx.tier == 'thorough'
  for fn, obj in load_corpus('C17'):
    ctx.corpus_replayed += 1
    _run_case(ctx, drv, obj)
  run_metrics(ctx, drv, thorough)
  run_optimizers(ctx, drv, thorough)
  ctx.extra['driver_calls'] = drv.calls


def seeded(gen, cseed, force=None):
  import random as _random

  global _PREC
  prng = _random.Random(cseed * 2 + 1)
  r = prng.random()
  low = None if r < 0.62 else (jnp.bfloat16 if r < 0.84 else jnp.float16)
  _PREC = None if low is None else (low, prng)
  global _HOOKRNG
  hrng = _random.Random(cseed * 2 + 11)
  _HOOKRNG = hrng if (gen.__name__ in ('gen_optimizer_case', 'gen_ntrainstate_case') and hrng.random() < 0.4) else None
  try:
    c = gen(_random.Random(cseed), force) if force is not None else gen(_random.Random(cseed))
  finally:
    _PREC = None
    _HOOKRNG = None
  c['hooks'] = c.get('reg', {}).get('hooks', 0)
  if c['hooks'] and gen.__name__ == 'gen_optimizer_case' and c.get('malformed') is None and low is None and hrng.random() < 0.7:
    # value hooks matter for stateful transformations whose state goes negative
    c['tx'], c['mk'] = hrng.choice([
      ('adam(1e-2)', lambda: optax.adam(1e-2)),
      ('sgd(0.5,momentum=0.5)', lambda: optax.sgd(0.5, momentum=0.5)),
      ('MultiSteps(sgd(0.5),2)', lambda: optax.MultiSteps(optax.sgd(0.5), 2).gradient_transformation()),
      ('chain(trace(0.5),scale(-0.25))', lambda: optax.chain(optax.trace(decay=0.5), optax.scale(-0.25))),
      ('chain(scale_by_adam(),scale_by_schedule)', lambda: optax.chain(optax.scale_by_adam(), optax.scale_by_schedule(lambda c_: -0.1 / (1.0 + c_)))),
    ])
    c['steps'] = max(c['steps'], 3)
  c['cseed'] = cseed
  c['force'] = force
  c['prec'] = None if low is None else jnp.dtype(low).name
  kind = {'gen_linen_case': 'linen', 'gen_optimizer_case': 'opt', 'gen_ntrainstate_case': 'nts'}.get(gen.__name__)
  c['step_start'] = pick_step(_random.Random(cseed * 2 + 7), kind) if kind else None
  return c


def run_optimizers(ctx, drv, thorough):
  rng = ctx.rng
  n = 100 if not thorough else 700
  lcases = [seeded(gen_linen_case, rng.randrange(2**62)) for _ in range(n)]
  check_linen(ctx, drv, lcases)
  ocases = [seeded(gen_optimizer_case, rng.randrange(2**62)) for _ in range(n)]
  ocases += [seeded(gen_optimizer_case, rng.randrange(2**62), f) for f in ('grads-missing-leaf', 'kind-changing-tx', 'kind-changing-tx')]
  check_optimizer(ctx, drv, ocases)
  ncases = [seeded(gen_ntrainstate_case, rng.randrange(2**62)) for _ in range(n * 2 // 3)]
  check_ntrainstate(ctx, drv, ncases)
  # generator health: hollow evidence is an infrastructure failure, not a pass
  d = ctx.dist
  tot = sum(d.get('opt_n_selected', {}).values()) or 1
  if d.get('opt_n_selected', {}).get('0', 0) > 0.5 * tot:
    raise InfraError('generator degenerated: more than half of the nnx.Optimizer cases select no Variable')
  for b in ('linen_model_compared', 'opt_model_compared', 'nts_model_compared'):
    t = sum(d.get(b, {}).values()) or 1
    if d.get(b, {}).get('True', 0) < 0.3 * t:
      raise InfraError(f'generator degenerated: fewer than 30% of the cases in {b} were exact enough to be compared with the model')
  for cs in (lcases[:1], ocases[:1], ncases[:1]):
    c = cs[0]
    ctx.sample({k: (v if k != 'wrt' else v) for k, v in c.items() if k in ('tx', 'owg', 'frozen', 'sub', 'kwargs', 'malformed', 'wrt', 'steps', 'cseed')})


def batches_from_json(bjs):
  out = []
  for bj in bjs:
    if 's' in bj:
      out.append((float(from_rj(bj['s'])), bj, 'scalar'))
    else:
      out.append((jnp.asarray(np.array([float(from_rj(v)) for v in bj['a']], dtype=np.float32)), bj, 'float32'))
  return out


def _run_case(ctx, drv, obj):
  case = obj
  while isinstance(case, dict) and 'kind' not in case and 'case' in case:
    case = case['case']  # replay files wrap the case (possibly twice)
  kind = case.get('kind')
  if kind in ('average', 'welford'):
    c = {'stream': [from_rj(v) for v in case['stream']], 'batches': [batches_from_json(p) for p in case['parts']], 'exact': case.get('exact', False)}
    (check_average if kind == 'average' else check_welford)(ctx, drv, [c])
  elif kind == 'accuracy':
    c = {'binary': case['binary'], 'threshold': None if case['threshold'] is None else from_rj(case['threshold']),
         'logits': [from_rj(v) for v in case['logits']] if case['binary'] else [[from_rj(v) for v in r] for r in case['logits']],
         'labels': case['labels'], 'parts': case['parts'], 'lab_dtype': case.get('lab_dtype', 'int32'), 'reshape': case.get('reshape', False)}
    check_accuracy(ctx, drv, [c])
  elif kind == 'metric-error':
    check_accuracy_errors(ctx, drv)
  elif kind == 'large-counts':
    import random as _random

    check_large_counts(ctx, _random.Random(case.get('nseed', 0)), 2)
  elif kind == 'multimetric':
    check_multimetric(ctx, drv, [case['cseed']])
  elif kind == 'linen-trainstate':
    check_linen(ctx, drv, [seeded(gen_linen_case, case['cseed'])])
  elif kind == 'nnx-optimizer':
    check_optimizer(ctx, drv, [seeded(gen_optimizer_case, case['cseed'], case.get('force'))])
  elif kind == 'nnx-trainstate':
    check_ntrainstate(ctx, drv, [seeded(gen_ntrainstate_case, case['cseed'])])
  else:
    ctx.notes.append(f'unknown corpus case kind {kind}')


def replay(ctx, obj):
  drv = LeanDriver('drv_c17')
  _run_case(ctx, drv, obj)
  for v in ctx.violations:
    print('  ', v['key'], '-', v['what'][:300])
  return bool(ctx.violations)
