"""C19 — Partition metadata stays aligned with array axes through boxing and transforms.

Theorems: lean/Flax/Props/C19.lean over lean/Flax/Model/Axes.lean.
Correspondence: the real flax (Partitioned boxes, meta.add_axis/remove_axis/unbox/replace_boxed, nn.vmap /
nn.scan with metadata_params, the legacy vmap_with_axes / scan_with_axes, nnx.vmap / nnx.scan with
transform_metadata, get_partition_spec of both APIs, logical_to_mesh_axes, the Linen->NNX metadata bridge)
against the compiled Lean driver, exhaustively on a small scope and seeded beyond it.  Compared: axis-name
tuples, value shapes, partition specs as per-dimension lists of mesh axes, error classes.  Never compared:
messages, reprs, PartitionSpec object identity / tuple-vs-str encodings of one mesh axis.

Property oracles (independent of the model): every array dimension in these runs has a distinct size, so
the final *shape* says where each axis went; the names must label exactly those positions.
"""
from __future__ import annotations

import itertools

import numpy as np

from harness import compat  # noqa: F401  (must precede flax)
from harness.common import LeanDriver, load_corpus

import jax
import jax.numpy as jnp
import flax.linen as nn
from flax import errors as flax_errors
from flax import nnx
from flax.core import lift as core_lift
from flax.core import meta
from flax.core import scope as core_scope
from flax.linen import partitioning as nnp
from flax.nnx import bridge as nnx_bridge
from flax.nnx import spmd as nnx_spmd
from flax.nnx.bridge import variables as bridge_vars

SPEC = {
  'exes': ['drv_c19'],
  'rule': (
    'unit: every names tuple of length<=4 over {None,a,b,L} x every index in [-6,6] x partition name in {L,None} for '
    'add_axis / remove_axis / add-then-remove (Linen Partitioned, meta tree API, nnx.spmd on VariableState); '
    'transforms: real nn.vmap/nn.scan (metadata_params), legacy vmap_with_axes/scan_with_axes, nnx.vmap/nnx.scan '
    '(transform_metadata) on a parameter and a mutable state variable of rank 0-3, every variable axis in '
    '[-(r+2), r+1] (so both out-of-range sides), aligned / short / None-containing names, boxed and raw; all 2-level '
    'nestings of rank 2 (quick: seeded sample), 3-level samples; init, what the body sees, state after apply, '
    'get_partition_spec; the same for NNX modules with sharding annotations wrapped by bridge.ToLinen (NNXMeta boxes; '
    'NNXMeta.add_axis/remove_axis also in the exhaustive unit scope); Linen collections lifted In(k)-only / Out(k)-only / broadcast with three different axes and NNX '
    'StateAxes with a different axis per substate (all axis triples/pairs in thorough, seeded sample in quick); NNX StateAxes '
    'over three annotated variable types in every filter order (broadcast-first, int-first, Carry for scan, several int '
    'groups with different axes, catch-all tail): creation through nnx.vmap/nnx.scan out_axes, body view and state after '
    'nnx.vmap/nnx.scan in_axes (16 fixed layouts + seeded random ones); '
    'a sample executed for real and compared bit-for-bit with the raw-array run; '
    'logical_to_mesh_axes: all rule lists of length<=2 (thorough <=3) over 3 logical x 6 mesh values x 9 name tuples '
    'plus random lists up to 8 rules; boxes: unbox/replace_boxed/Variable.value setter on nested boxes; '
    'to_nnx_var/to_linen_var round trip. A case is non-trivial when it has at least one named dimension or one rule; '
    'distinct = distinct canonical JSON.'
  ),
  'trusted_base': [
    'hand-written Lean model lean/Flax/Model/Axes.lean (tied to /repo by this correspondence run)',
    'harness/props/c19.py (generators, adapters, canonicalisation, oracles), harness/compat.py (JAX shim)',
    'Python list.insert/pop/index semantics (A-PY); jax.vmap in_axes/out_axes and lax.scan stacking place the '
    'mapped axis where stackAt/sliceAt say (A-VMAP/A-SCAN, cross-checked against the real shapes on every run)',
  ],
  'assumptions': [
    'names tuples shorter than the array rank are aligned only for non-negative axes (the box does not know the rank); '
    'the oracle skips short names with a negative axis, the model comparison does not',
    'alignment is claimed for the outermost box (the one get_partition_spec reads); transforms do not touch inner boxes',
    'no device mesh in the sandbox: sharding constraints inside unbox are inert; pmap/shard_map not exercised',
    'NNX get_partition_spec is modelled without logical sharding_rules in scope',
    'NNXMeta boxes: the on_add_axis/on_remove_axis hooks of the wrapped NNX variable are not run by Linen transforms (TODO in flax)',
  ],
  'model_partial': [],
}

PN = meta.PARTITION_NAME


# ------------------------------------------------------------------------------------------------
# helpers
# ------------------------------------------------------------------------------------------------


def classify(e):
  if isinstance(e, flax_errors.PartitioningUnspecifiedError):
    return 'PartitioningUnspecified'
  if isinstance(e, AssertionError):
    return 'AssertionError'
  if isinstance(e, IndexError):
    return 'IndexError'
  if isinstance(e, ValueError):
    return 'ValueError'
  if isinstance(e, AttributeError):
    return 'AttributeError'
  if isinstance(e, TypeError):
    return 'TypeError'
  if isinstance(e, KeyError):
    return 'KeyError'
  return 'Exception:' + type(e).__name__


def call(fn, *a, **kw):
  try:
    return ('ok', fn(*a, **kw))
  except Exception as e:  # any exception raised by flax is an observation
    return ('err', classify(e))


def shape_of(x):
  return [int(d) for d in x.shape]


def box_json(x):
  """Canonical JSON of a Linen leaf: nested Partitioned boxes around an array-like."""
  if isinstance(x, meta.Partitioned):
    return {'names': list(x.names), 'inner': box_json(x.value)}
  if isinstance(x, bridge_vars.NNXMeta):
    sh = x.metadata.get('sharding')
    return box_json(x.value) if sh is None else {'names': list(sh), 'inner': box_json(x.value)}
  return {'raw': shape_of(x)}


def box_build(j, mk=np.zeros):
  if 'raw' in j:
    return mk(tuple(j['raw']))
  return meta.Partitioned(box_build(j['inner'], mk), tuple(j['names']))


def strip_none(names):
  names = list(names)
  while names and names[-1] is None:
    names.pop()
  return names


def spec_leaves(spec):
  """PartitionSpec -> per-dimension list of mesh axes (None/'x'/('x',)/() are encodings, not semantics)."""
  out = []
  for e in tuple(spec):
    if e is None:
      out.append([])
    elif isinstance(e, str):
      out.append([e])
    else:
      out.append(list(e))
  return out


SIZES_BASE = [3, 5, 7, 11, 13]
SIZES_LEVEL = [2, 4, 6]


def names_by_size(base_shape, base_names, levels):
  """size -> name, for the independent oracle (all sizes distinct)."""
  m = {}
  for i, s in enumerate(base_shape):
    m[s] = base_names[i] if i < len(base_names) else None
  for _kind, _ax, pname, size in levels:
    m[size] = pname
  return m


# ------------------------------------------------------------------------------------------------
# 1. unit level: add_axis / remove_axis
# ------------------------------------------------------------------------------------------------


def _linen_add(names, k, nm, with_key=True):
  p = meta.Partitioned(np.zeros(()), tuple(names))
  params = {PN: nm} if with_key else {}
  return call(lambda: list(p.add_axis(k, params).names))


def _linen_remove(names, k, nm):
  p = meta.Partitioned(np.zeros(()), tuple(names))
  return call(lambda: list(p.remove_axis(k, {PN: nm}).names))


def _nnx_state(names):
  kw = {} if names is None else {'sharding': tuple(names)}
  return nnx.Param(np.zeros(()), **kw).to_state()


def _nnx_sharding(vs):
  md = vs.get_metadata()
  return list(md['sharding']) if md.get('sharding') is not None else None


def _nnx_add(names, k, nm):
  vs = _nnx_state(names)
  return call(lambda: _nnx_sharding(nnx_spmd.add_axis(nnx.State({'w': vs}), k, {nnx.PARTITION_NAME: nm})['w']))


def _nnx_remove(names, k, nm):
  vs = _nnx_state(names)
  return call(lambda: _nnx_sharding(nnx_spmd.remove_axis(nnx.State({'w': vs}), k, {nnx.PARTITION_NAME: nm})['w']))


def _meta_box(names):
  md = {} if names is None else {'sharding': tuple(names)}
  return bridge_vars.NNXMeta(nnx.Param, np.zeros(()), md)


def _nnxmeta_add(names, k, nm, with_key=True):
  b = _meta_box(names)
  return call(lambda: (lambda r: None if r is None else list(r))(b.add_axis(k, {PN: nm} if with_key else {}).metadata.get('sharding')))


def _nnxmeta_remove(names, k, nm, with_key=True):
  b = _meta_box(names)
  return call(lambda: (lambda r: None if r is None else list(r))(b.remove_axis(k, {PN: nm} if with_key else {}).metadata.get('sharding')))


def np_stack_names(names, k, nm):
  """Independent reference: where does numpy put a new axis `k`?  Returns the expected names or None
  when numpy rejects the axis.  Only meaningful for len(names) == rank."""
  r = len(names)
  shape = tuple(SIZES_BASE[i] for i in range(r))
  try:
    st = np.stack([np.zeros(shape, np.int8)] * 2, axis=k)
  except Exception:
    return None
  by = {SIZES_BASE[i]: names[i] for i in range(r)}
  by[2] = nm
  return [by[s] for s in st.shape]


def check_unit(ctx, drv, cases):
  """cases: list of (names, k, nm)."""
  reqs = []
  for names, k, nm in cases:
    reqs += [('add_axis', [k, nm, names]), ('remove_axis', [k, nm, names]), ('nnx_add_axis', [k, nm, names]), ('nnx_remove_axis', [k, nm, names]),
             ('nnxmeta_add_axis', [k, [nm], names]), ('nnxmeta_remove_axis', [k, [nm], names])]
  outs = drv.run(reqs)
  reqs2 = []
  for i, (names, k, nm) in enumerate(cases):
    a = outs[6 * i]
    reqs2.append(('remove_axis', [k, nm, a[1]]))
  outs2 = drv.run(reqs2)
  for i, (names, k, nm) in enumerate(cases):
    case = {'kind': 'unit', 'names': names, 'k': k, 'nm': nm}
    ctx.case(case, nontrivial=any(n is not None for n in names) or nm is not None)
    ctx.count('unit_k', 'neg' if k < 0 else ('pad' if k > len(names) else 'in'))
    ctx.count('unit_rank', len(names))
    m_add, m_rem, m_nadd, m_nrem, m_madd, m_mrem = outs[6 * i : 6 * i + 6]
    m_back = outs2[i]
    i_add = _linen_add(names, k, nm)
    i_rem = _linen_remove(names, k, nm)
    i_nadd = _nnx_add(names, k, nm)
    i_nrem = _nnx_remove(names, k, nm)
    i_madd = _nnxmeta_add(names, k, nm)
    i_mrem = _nnxmeta_remove(names, k, nm)
    # ---- property oracle on the implementation
    bad = None
    want = np_stack_names(names, k, nm)
    for api, got in (('linen', i_add), ('nnx', i_nadd), ('nnxmeta', i_madd)):
      if got[0] != 'ok':
        bad = (f'{api}-add_axis-raises', f'{api} add_axis({k}) on names {names} raised {got[1]}')
      elif want is not None and got[1] != want:
        sign = 'negative-index' if k < 0 else 'index'
        bad = (f'{api}-add_axis-misplaced-{sign}', f'{api} add_axis({k}, {nm!r}) on {names} gives {got[1]}; an array stacked on axis {k} has its new dimension where the names would be {want}')
      if bad:
        break
    if not bad and -(len(names) + 1) <= k <= len(names):
      for api, add, rem in (('linen', i_add, _linen_remove), ('nnx', i_nadd, _nnx_remove), ('nnxmeta', i_madd, _nnxmeta_remove)):
        back = rem(add[1], k, nm)
        if back != ('ok', list(names)):
          bad = (f'{api}-add-remove-not-inverse', f'{api}: remove_axis({k}) after add_axis({k}) on {names} gives {back}, not the original names')
          break
    if not bad:
      # remove_axis must take out exactly the entry at the (normalised) position and only if it is `nm`
      n = len(names)
      j = k + n if k < 0 else k
      for api, got in (('linen', i_rem), ('nnx', i_nrem), ('nnxmeta', i_mrem)):
        if 0 <= j < n and names[j] == nm:
          w = ('ok', names[:j] + names[j + 1 :])
          if got != w:
            bad = (f'{api}-remove_axis-wrong', f'{api} remove_axis({k}, {nm!r}) on {names} gives {got}, expected {w}')
        elif got[0] == 'ok':
          bad = (f'{api}-remove_axis-accepts-mismatch', f'{api} remove_axis({k}, {nm!r}) on {names} succeeded with {got[1]} although position {k} does not hold {nm!r}')
        if bad:
          break
    if bad:
      ctx.violation(bad[0], bad[1], case)
      continue
    # ---- correspondence with the model
    impl = [i_add, i_rem, i_nadd, i_nrem, i_madd, i_mrem]
    model = [m_add, m_rem, m_nadd, m_nrem, m_madd, m_mrem]
    if impl != model:
      ctx.disagreements_checked += 1
      ctx.violation('unit-model-mismatch', f'add/remove differ from the model on {case}: impl {impl}, model {model}', case, concrete=False)
    elif -(len(names) + 1) <= k <= len(names) and m_back != ('ok', list(names)):
      ctx.disagreements_checked += 1
      ctx.violation('unit-model-inverse', f'model add/remove not inverse on {case}: {m_back}', case, concrete=False)


def check_tree_api(ctx, drv, cases):
  """meta.add_axis / remove_axis / unbox / replace_boxed / get_partition_spec on leaves of a dict tree.
  cases: list of (box_json, k, params) with params [] or [nm]."""
  reqs = []
  for bj, k, params in cases:
    reqs += [('box_add_axis', [k, params, bj]), ('box_remove_axis', [k, params, bj]), ('unbox', [bj]), ('replace_boxed', [bj, [9, 9]]), ('set_value', [bj, [9, 9]]), ('pspec', [bj, True])]
  outs = drv.run(reqs)
  for i, (bj, k, params) in enumerate(cases):
    case = {'kind': 'tree', 'box': bj, 'k': k, 'params': params}
    ctx.case(case, nontrivial='names' in bj)
    ctx.count('tree_box_depth', _box_depth(bj))
    mp = {PN: params[0]} if params else {}
    leaf = box_build(bj)
    tree = {'x': {'leaf': leaf, 'other': np.zeros((4,))}}
    i_add = call(lambda: box_json(meta.add_axis(tree, k, mp)['x']['leaf']))
    i_rem = call(lambda: box_json(meta.remove_axis(tree, k, mp)['x']['leaf']))
    i_unb = call(lambda: shape_of(meta.unbox(tree)['x']['leaf']))
    new = {'x': {'leaf': np.ones((9, 9)), 'other': np.ones((4,))}}
    i_rep = call(lambda: box_json(meta.replace_boxed(tree, new)['x']['leaf']))
    i_set = call(lambda: _scope_set_value(leaf, np.ones((9, 9))))
    i_ps = call(lambda: _pspec_json(meta.get_partition_spec(tree)['x']['leaf']))
    # oracle: boxes compute like their raw arrays, and keep their names
    bad = None
    if i_rep[0] == 'ok':
      back = call(lambda: meta.unbox(meta.replace_boxed(tree, new))['x']['leaf'])
      if back[0] != 'ok' or not np.array_equal(back[1], new['x']['leaf']):
        bad = ('unbox-replace_boxed-not-identity', f'unbox(replace_boxed(b, v)) is not v for box {bj}')
      elif _names_chain(i_rep[1]) != _names_chain(bj):
        bad = ('replace_boxed-changes-names', f'replace_boxed changed the axis names of {bj}: {i_rep[1]}')
    else:
      bad = ('replace_boxed-raises', f'replace_boxed raised {i_rep[1]} on {bj}')
    if not bad and (i_unb != ('ok', _raw_of(bj))):
      bad = ('unbox-wrong', f'unbox of {bj} has shape {i_unb}')
    if not bad and i_set[0] == 'ok' and (_names_chain(i_set[1]) != _names_chain(bj) or _raw_of(i_set[1]) != [9, 9]):
      bad = ('variable-setter-loses-box', f'Variable.value = v on stored {bj} left {i_set[1]}')
    if not bad and i_ps != ('ok', list(bj['names']) if 'names' in bj else []):
      bad = ('linen-partition-spec-wrong', f'get_partition_spec of {bj} is {i_ps}')
    if bad:
      ctx.violation(bad[0], bad[1], case)
      continue
    impl = [i_add, i_rem, i_unb, i_rep, i_set, i_ps]
    model = list(outs[6 * i : 6 * i + 6])
    if impl != model:
      ctx.disagreements_checked += 1
      ctx.violation('tree-model-mismatch', f'meta tree API differs from the model on {case}: impl {impl}, model {model}', case, concrete=False)


def _box_depth(bj):
  d = 0
  while 'names' in bj:
    bj = bj['inner']
    d += 1
  return d


def _names_chain(bj):
  out = []
  while 'names' in bj:
    out.append(list(bj['names']))
    bj = bj['inner']
  return out


def _raw_of(bj):
  while 'names' in bj:
    bj = bj['inner']
  return list(bj['raw'])


def _pspec_json(p):
  return None if p is None else list(tuple(p))


def _scope_set_value(stored, new):
  """Runs the real scope.Variable.value setter on a stored (possibly boxed) value."""
  from flax.core import apply

  def f(scope):
    v = scope.variable('state', 'c', lambda: None)
    v.value = new
    return None

  _, upd = apply(f, mutable=['state'])({'state': {'c': stored}})
  return box_json(upd['state']['c'])


# ------------------------------------------------------------------------------------------------
# 2. real transforms
# ------------------------------------------------------------------------------------------------

SEEN = []


def int_init(key, shape):
  return jax.random.randint(key, shape, 0, 7).astype(jnp.float32)


def _zeros(shape):
  return jnp.zeros(shape)


class Leaf(nn.Module):
  shape: tuple
  names: tuple | None  # None = raw (unboxed) variables
  logical: bool = False  # LogicallyPartitioned instead of Partitioned boxes

  @nn.compact
  def __call__(self, c, x):
    wrap = nn.with_logical_partitioning if self.logical else nn.with_partitioning
    init = int_init if self.names is None else wrap(int_init, self.names)
    zinit = _zeros if self.names is None else wrap(_zeros, self.names)
    w = self.param('w', init, self.shape)
    st = self.variable('state', 'c', zinit, self.shape)
    SEEN.append(('w', box_json(self.variables['params']['w'])))
    SEEN.append(('c', box_json(self.variables['state']['c'])))
    if not self.is_initializing() and self.is_mutable_collection('state'):
      st.value = st.value + x
    y = x * jnp.sum(w)
    return c + y, y


def linen_build(levels, shape, names, with_key=True, logical=False):
  cls = Leaf
  for kind, ax, pname, size in levels:
    mp = {PN: pname} if with_key else {}
    if kind == 'vmap':
      cls = nn.vmap(cls, variable_axes={'params': ax, 'state': ax}, split_rngs={'params': True}, in_axes=(0, 0), out_axes=0, axis_size=size, metadata_params=mp)
    else:
      cls = nn.scan(cls, variable_axes={'params': ax, 'state': ax}, split_rngs={'params': True}, in_axes=0, out_axes=0, length=size, metadata_params=mp)
  return cls(tuple(shape), None if names is None else tuple(names), logical)


def level_inputs(levels):
  cshape = tuple(s for k, a, p, s in reversed(levels) if k == 'vmap')
  xshape = tuple(s for k, a, p, s in reversed(levels))
  n = int(np.prod(xshape)) if xshape else 1
  return jnp.ones(cshape), jnp.arange(n, dtype=jnp.float32).reshape(xshape)


def linen_logical_observe(levels, shape, names, with_key=True):
  return linen_observe(levels, shape, names, with_key, logical=True)


def linen_observe(levels, shape, names, with_key=True, logical=False):
  """init / apply through jax.eval_shape (names are static metadata, shapes are abstract values)."""
  m = linen_build(levels, shape, names, with_key, logical)
  c, xs = level_inputs(levels)
  obs = {}
  SEEN.clear()
  r = call(lambda: jax.eval_shape(m.init, jax.random.key(0), c, xs))
  if r[0] == 'err':
    return {'init': r}
  v = r[1]
  obs['init'] = ('ok', {'w': box_json(v['params']['w']), 'c': box_json(v['state']['c'])})
  obs['init_seen'] = _seen_summary()
  obs['spec'] = call(lambda: _pspec_json(nn.get_partition_spec(v)['params']['w']))
  SEEN.clear()
  r = call(lambda: jax.eval_shape(lambda vv: m.apply(vv, c, xs, mutable=['state']), v))
  if r[0] == 'err':
    obs['apply'] = r
    return obs
  obs['apply'] = ('ok', {'c': box_json(r[1][1]['state']['c'])})
  obs['apply_seen'] = _seen_summary()
  return obs


def _seen_summary():
  out = {}
  for key, bj in SEEN:
    out.setdefault(key, [])
    if bj not in out[key]:
      out[key].append(bj)
  return out


def model_levels(levels):
  return [[ax, pname, size] for _k, ax, pname, size in levels]


def base_box(shape, names):
  return {'raw': list(shape)} if names is None else {'names': list(names), 'inner': {'raw': list(shape)}}


def oracle_aligned(bj, shape, names, levels, what):
  """Independent alignment oracle: names label dimensions by their (distinct) sizes."""
  if 'names' not in bj:
    return None
  got_names, dims = list(bj['names']), _raw_of(bj)
  by = names_by_size(shape, names, levels)
  want = [by.get(s, '?') for s in dims]
  if strip_none(got_names) != strip_none(want) or len(got_names) > len(dims):
    return f'{what}: value shape {dims} but axis names {got_names}; by dimension the names are {want}'
  return None


def check_transform(ctx, drv, api, cases):
  """api in {'linen','legacy','nnx'}; cases: list of dict(levels, shape, names, with_key)."""
  observe = {'linen': linen_observe, 'linen-logical': linen_logical_observe, 'legacy': legacy_observe, 'nnx': nnx_observe, 'bridge': bridge_observe}[api]
  reqs = []
  for cs in cases:
    levels, shape, names = cs['levels'], cs['shape'], cs['names']
    bj = base_box(shape, names)
    reqs.append(('init_through', [model_levels(levels), bj]))
  outs = drv.run(reqs)
  # second round: apply_in on the model's init result
  reqs2 = [('apply_in', [model_levels(cs['levels']), o[1]]) for cs, o in zip(cases, outs) if o[0] == 'ok']
  outs2 = iter(drv.run(reqs2))
  for cs, m_init in zip(cases, outs):
    levels, shape, names = cs['levels'], cs['shape'], cs['names']
    with_key = cs.get('with_key', True)
    case = {'kind': 'transform', 'api': api, 'levels': [list(l) for l in levels], 'shape': list(shape), 'names': names, 'with_key': with_key}
    ctx.case(case, nontrivial=names is not None and any(n is not None for n in names))
    ctx.count(f'{api}_nesting', '/'.join(l[0] for l in reversed(levels)))
    ctx.count(f'{api}_axis_sign', ','.join('neg' if l[1] < 0 else 'pos' for l in levels))
    ctx.count(f'{api}_names', 'raw' if names is None else ('aligned' if len(names) == len(shape) else 'short'))
    m_in = next(outs2) if m_init[0] == 'ok' else None
    obs = observe(levels, shape, names, with_key)
    i_init = obs['init']
    in_range = _levels_in_range(levels, len(shape))
    ctx.count(f'{api}_in_range', in_range)
    aligned_domain = names is not None and (len(names) == len(shape) or all(l[1] >= 0 for l in levels))
    bad = None
    # ---- property oracle
    if not with_key:
      pass  # error behaviour only: compared with the model below
    elif in_range and i_init[0] != 'ok':
      bad = (f'{api}-init-raises', f'{api} init through {levels} raised {i_init[1]} although every axis is in range')
    elif i_init[0] == 'ok':
      for var in ('w', 'c'):
        if var not in i_init[1]:
          continue
        bj = i_init[1][var]
        dims = _raw_of(bj)
        want_sizes = sorted(list(shape) + [l[3] for l in levels])
        if sorted(dims) != want_sizes:
          bad = (f'{api}-init-shape', f'{api} {var}: shape {dims} after stacking {levels} on {shape}')
          break
        if aligned_domain:
          msg = oracle_aligned(bj, shape, names, levels, f'{api} init {var} through {levels}')
          if msg:
            neg = any(l[1] < 0 for l in levels)
            bad = (f'{api}-init-misaligned' + ('-negative-axis' if neg else ''), msg)
            break
        if names is not None and 'names' not in bj:
          bad = (f'{api}-init-box-lost', f'{api} {var}: box lost through {levels}')
          break
      if not bad and names is not None and obs.get('spec') is not None and 'w' in i_init[1]:
        if obs['spec'] != ('ok', list(i_init[1]['w']['names'])):
          bad = (f'{api}-partition-spec-wrong', f'{api} get_partition_spec gives {obs["spec"]} for names {i_init[1]["w"]["names"]}')
      if not bad and 'apply' in obs and (aligned_domain or names is None):
        if obs['apply'][0] != 'ok':
          bad = (f'{api}-apply-raises', f'{api} apply on the variables produced by init through {levels} raised {obs["apply"][1]}')
        else:
          inner = base_box(shape, names)
          seen = obs.get('apply_seen', {})
          for var, lst in seen.items():
            if [_strip_box(b) for b in lst] != [_strip_box(inner)] and not (api == 'legacy'):
              bad = (f'{api}-body-sees-wrong-names', f'{api} body saw {var} as {lst} instead of {inner} (levels {levels})')
              break
          if not bad and api == 'legacy' and seen.get('w') != [{'raw': list(shape)}]:
            bad = ('legacy-body-shape', f'legacy body saw w as {seen.get("w")}')
          if not bad and 'c' in obs['apply'][1] and 'c' in i_init[1] and obs['apply'][1]['c'] != i_init[1]['c']:
            bad = (f'{api}-state-after-apply', f'{api} mutable state after apply is {obs["apply"][1]["c"]}, after init it was {i_init[1]["c"]} (levels {levels})')
    if bad:
      ctx.violation(bad[0], bad[1], case)
      continue
    # ---- correspondence with the model (ok/err class; names and shapes when ok)
    if api == 'legacy':
      mm = _legacy_model(drv, levels, shape, names)
      if i_init[0] != mm[0] or (mm[0] == 'ok' and i_init[1]['w'] != mm[1]):
        ctx.disagreements_checked += 1
        ctx.violation('legacy-model-mismatch', f'legacy API differs from the model on {case}: impl {i_init}, model {mm}', case, concrete=False)
      continue
    ok_impl = i_init[0] == 'ok'
    if not with_key:
      mm = m_init_nokey(drv, levels, shape, names)
      if i_init[0] != mm[0] or (mm[0] == 'err' and i_init[1] != mm[1]):
        ctx.disagreements_checked += 1
        ctx.violation(f'{api}-nokey-model-mismatch', f'{api} without partition_name: impl {i_init}, model {mm}', case, concrete=False)
      continue
    if ok_impl != (m_init[0] == 'ok') or (ok_impl and any(i_init[1][v] != m_init[1] for v in i_init[1])):
      ctx.disagreements_checked += 1
      ctx.violation(f'{api}-init-model-mismatch', f'{api} init differs from the model on {case}: impl {i_init}, model {m_init}', case, concrete=False)
      continue
    if ok_impl and 'apply' in obs:
      seen = obs.get('apply_seen', {})
      ok_ap = obs['apply'][0] == 'ok'
      if ok_ap != (m_in[0] == 'ok') or (ok_ap and any(lst != [m_in[1]] for lst in seen.values())):
        ctx.disagreements_checked += 1
        ctx.violation(f'{api}-apply-model-mismatch', f'{api} apply differs from the model on {case}: impl {obs["apply"]} seen {seen}, model {m_in}', case, concrete=False)


def m_init_nokey(drv, levels, shape, names):
  """model of init when metadata_params lacks 'partition_name' (Linen raises for boxed leaves)."""
  bj = base_box(shape, names)
  out = drv.run([('box_add_axis', [levels[0][1], [], bj])])[0]
  return ('err', out[1]) if out[0] == 'err' else ('ok', None)


def _strip_box(bj):
  return {'names': strip_none(bj['names']), 'inner': bj['inner']} if 'names' in bj else bj


def _levels_in_range(levels, rank):
  r = rank
  for _k, ax, _p, _s in levels:
    if not (-(r + 1) <= ax <= r):
      return False
    r += 1
  return True


# ---- legacy API (flax.linen.partitioning) -------------------------------------------------------


class LegacyLeaf(nn.Module):
  shape: tuple
  names: tuple

  @nn.compact
  def __call__(self, c, x):
    w = nnp.param_with_axes('w', int_init, self.shape, axes=self.names)
    SEEN.append(('w', {'raw': shape_of(w)}))
    y = x * jnp.sum(w)
    return c + y, y


def legacy_build(levels, shape, names):
  cls = LegacyLeaf
  for kind, ax, pname, size in levels:
    if kind == 'vmap':
      cls = nnp.vmap_with_axes(cls, variable_axes={'params': ax}, split_rngs={'params': True}, in_axes=(0, 0), out_axes=0, axis_size=size, partitioning_axis_names={'params': pname})
    else:
      cls = nnp.scan_with_axes(cls, variable_axes={'params': ax}, split_rngs={'params': True}, in_axes=0, out_axes=0, length=size, axis_name=pname)
  return cls(tuple(shape), tuple(names))


def legacy_observe(levels, shape, names, with_key=True):
  m = legacy_build(levels, shape, names)
  c, xs = level_inputs(levels)
  obs = {}
  SEEN.clear()
  r = call(lambda: jax.eval_shape(m.init, jax.random.key(0), c, xs))
  if r[0] == 'err':
    return {'init': r}
  v = r[1]
  obs['init'] = ('ok', {'w': {'names': list(v['params_axes']['w_axes'].names), 'inner': {'raw': shape_of(v['params']['w'])}}})
  obs['spec'] = call(lambda: _pspec_json(nnp.get_axis_names(v['params_axes'])['w']))
  SEEN.clear()
  r = call(lambda: jax.eval_shape(lambda vv: m.apply(vv, c, xs), v))
  obs['apply'] = ('ok', {}) if r[0] == 'ok' else r
  obs['apply_seen'] = _seen_summary()
  return obs


def _legacy_model(drv, levels, shape, names):
  ns, dims = list(names), list(shape)
  for _kind, ax, pname, size in levels:
    o = drv.run([('add_axis_legacy', [ax, pname, ns]), ('stack_at', [ax, size, dims])])
    if o[1][0] == 'err':
      return ('err', o[1][1])
    ns, dims = o[0][1], o[1][1]
  return ('ok', {'names': ns, 'inner': {'raw': dims}})


# ---- NNX ----------------------------------------------------------------------------------------


class NLeaf(nnx.Module):
  def __init__(self, shape, names, key):
    kw = {} if names is None else {'sharding': tuple(names)}
    self.w = nnx.Param(int_init(key, tuple(shape)), **kw)
    self.c = nnx.BatchStat(jnp.zeros(tuple(shape)), **kw)


def nnx_create_fn(levels, shape, names):
  f = lambda key: NLeaf(shape, names, key)
  for kind, ax, pname, _size in levels:
    tm = {nnx.PARTITION_NAME: pname}
    if kind == 'vmap':
      f = nnx.vmap(f, in_axes=0, out_axes=ax, transform_metadata=tm)
    else:
      f = nnx.scan(f, in_axes=0, out_axes=ax, transform_metadata=tm)
  kshape = tuple(s for k, a, p, s in reversed(levels))
  n = int(np.prod(kshape)) if kshape else 1
  keys = jax.random.split(jax.random.key(0), n).reshape(kshape)
  return lambda: f(keys)


def _nnx_var_json(v):
  md = v.get_metadata()
  sh = md.get('sharding')
  dims = shape_of(v.value)
  return {'raw': dims} if sh is None else {'names': list(sh), 'inner': {'raw': dims}}


def nnx_body(m, c, x):
  SEEN.append(('w', _nnx_var_json(m.w)))
  SEEN.append(('c', _nnx_var_json(m.c)))
  m.c.value = m.c.value + x
  y = x * jnp.sum(m.w.value)
  return c + y, y


def nnx_apply_fn(levels):
  f = nnx_body
  for kind, ax, pname, _size in levels:
    tm = {nnx.PARTITION_NAME: pname}
    if kind == 'vmap':
      f = nnx.vmap(f, in_axes=(ax, 0, 0), out_axes=0, transform_metadata=tm)
    else:
      f = nnx.scan(f, in_axes=(ax, nnx.Carry, 0), out_axes=(nnx.Carry, 0), transform_metadata=tm)
  return f


def nnx_observe(levels, shape, names, with_key=True):
  obs = {}
  SEEN.clear()
  r = call(lambda: nnx.eval_shape(nnx_create_fn(levels, shape, names)))
  if r[0] == 'err':
    return {'init': r}
  m = r[1]
  obs['init'] = ('ok', {'w': _nnx_var_json(m.w), 'c': _nnx_var_json(m.c)})
  obs['spec'] = call(lambda: _pspec_json(nnx.get_partition_spec(nnx.state(m))['w'].value))
  if names is not None and not names:
    obs['spec'] = None  # empty sharding tuple: replicated spec, nothing to compare by name
  c, xs = level_inputs(levels)
  gd, st = nnx.split(m)

  def run(state):
    mm = nnx.merge(gd, state)
    out = nnx_apply_fn(levels)(mm, c, xs)
    return out, nnx.state(mm)

  SEEN.clear()
  r = call(lambda: jax.eval_shape(run, st))
  if r[0] == 'err':
    obs['apply'] = r
    return obs
  obs['apply'] = ('ok', {'c': _nnx_var_json(r[1][1]['c'])})
  obs['apply_seen'] = _seen_summary()
  return obs


# ---- bridge: an NNX module with sharding annotations, wrapped by ToLinen, under Linen transforms --


class BridgeNM(nnx.Module):
  def __init__(self, shape, names, *, rngs):
    kw = {} if names is None else {'sharding': tuple(names)}
    self.w = nnx.Param(int_init(rngs.params(), tuple(shape)), **kw)

  def __call__(self, c, x):
    SEEN.append(('w', _nnx_var_json(self.w)))
    y = x * jnp.sum(self.w.value)
    return c + y, y


def bridge_build(levels, shape, names, with_key=True):
  cls = nnx_bridge.ToLinen
  for kind, ax, pname, size in levels:
    mp = {PN: pname} if with_key else {}
    if kind == 'vmap':
      cls = nn.vmap(cls, variable_axes={'params': ax, 'nnx': None}, split_rngs={'params': True}, in_axes=(0, 0), out_axes=0, axis_size=size, metadata_params=mp)
    else:
      cls = nn.scan(cls, variable_axes={'params': ax}, variable_broadcast='nnx', split_rngs={'params': True}, in_axes=0, out_axes=0, length=size, metadata_params=mp)
  return cls(BridgeNM, args=(tuple(shape), None if names is None else tuple(names)))


def bridge_observe(levels, shape, names, with_key=True):
  m = bridge_build(levels, shape, names, with_key)
  c, xs = level_inputs(levels)
  obs = {}
  SEEN.clear()
  r = call(lambda: jax.eval_shape(m.init, jax.random.key(0), c, xs))
  if r[0] == 'err':
    return {'init': r}
  v = r[1]
  obs['init'] = ('ok', {'w': box_json(v['params']['w'])})
  obs['spec'] = call(lambda: _pspec_json(nn.get_partition_spec({'w': v['params']['w']})['w']))
  if not names:
    obs['spec'] = None  # unannotated / empty sharding: replicated spec, nothing to compare by name
  SEEN.clear()
  r = call(lambda: jax.eval_shape(lambda vv: m.apply(vv, c, xs), v))
  obs['apply'] = ('ok', {}) if r[0] == 'ok' else r
  obs['apply_seen'] = _seen_summary()
  return obs


# ---- Linen: collections lifted in only / out only / broadcast, each with its own axis ------------


class Leaf2(nn.Module):
  @nn.compact
  def __call__(self, c, x):
    w = self.param('w', nn.with_partitioning(int_init, ('in', 'out')), (3, 5))
    self.variable('shared', 's', nn.with_partitioning(_zeros, ('sa', 'sb')), (7, 11))
    self.variable('aux', 'a', nn.with_partitioning(_zeros, ('ax',)), (13,))
    for col, nm in (('params', 'w'), ('shared', 's'), ('aux', 'a'), ('consts', 't')):
      if self.has_variable(col, nm):
        SEEN.append((nm, box_json(self.variables[col][nm])))
    y = x * jnp.sum(w)
    return c + y, y


def py_insert_norm(lst, k, x):
  j = k + len(lst) + 1 if k < 0 else k
  return lst[:j] + [x] + lst[j:]


def inout_observe(kind, k1, k2, k3, n):
  mp = {PN: 'L'}
  if kind == 'vmap':
    m = nn.vmap(Leaf2, variable_axes={'params': k1, 'aux': core_lift.Out(k2), 'consts': core_lift.In(k3), 'shared': None},
                split_rngs={'params': True}, in_axes=(0, 0), out_axes=0, axis_size=n, metadata_params=mp)()
  else:
    m = nn.scan(Leaf2, variable_axes={'params': k1, 'aux': core_lift.Out(k2), 'consts': core_lift.In(k3)}, variable_broadcast='shared',
                split_rngs={'params': True}, in_axes=0, out_axes=0, length=n, metadata_params=mp)()
  c, xs = level_inputs([(kind, 0, 'L', n)])
  SEEN.clear()
  v = jax.eval_shape(m.init, jax.random.key(0), c, xs)
  init = {nm: box_json(v[col][nm]) for col, nm in (('params', 'w'), ('shared', 's'), ('aux', 'a'))}
  t = meta.Partitioned(jax.ShapeDtypeStruct(tuple(py_insert_norm([17], k3, n)), jnp.float32), tuple(py_insert_norm(['tn'], k3, 'L')))
  SEEN.clear()
  r = jax.eval_shape(lambda vv: m.apply(vv, c, xs, mutable=['aux']), {'params': v['params'], 'shared': v['shared'], 'consts': {'t': t}})
  return {'init': init, 'seen': _seen_summary(), 'aux_after': box_json(r[1]['aux']['a']), 'mutated': sorted(r[1].keys())}


def check_linen_inout(ctx, drv, cases):
  for kind, k1, k2, k3 in cases:
    n = 2
    case = {'kind': 'inout', 'transform': kind, 'k_params': k1, 'k_aux_out': k2, 'k_consts_in': k3}
    ctx.case(case)
    ctx.count('inout_kind', kind)
    r = call(lambda: inout_observe(kind, k1, k2, k3, n))
    if r[0] != 'ok':
      ctx.violation('linen-inout-raises', f'{kind} with params axis {k1}, aux Out({k2}), consts In({k3}) raised {r[1]}', case)
      continue
    o = r[1]
    w0 = base_box([3, 5], ['in', 'out'])
    s0 = base_box([7, 11], ['sa', 'sb'])
    a0 = base_box([13], ['ax'])
    t0 = base_box([17], ['tn'])
    want = {
      'w': {'names': py_insert_norm(['in', 'out'], k1, 'L'), 'inner': {'raw': py_insert_norm([3, 5], k1, n)}},
      's': s0,
      'a': {'names': py_insert_norm(['ax'], k2, 'L'), 'inner': {'raw': py_insert_norm([13], k2, n)}},
    }
    bad = None
    if o['init'] != want:
      bad = ('linen-inout-init-misaligned', f'{kind}: init gives {o["init"]}, by axis the variables are {want}')
    elif o['seen'] != {'w': [w0], 's': [s0], 'a': [a0], 't': [t0]}:
      bad = ('linen-inout-body-sees-wrong', f'{kind}: body saw {o["seen"]}')
    elif o['aux_after'] != want['a'] or o['mutated'] != ['aux']:
      bad = ('linen-inout-out-collection', f'{kind}: Out-only collection after apply is {o["aux_after"]} (mutated: {o["mutated"]}), expected {want["a"]}')
    if bad:
      ctx.violation(bad[0], bad[1], case)
      continue
    lv = lambda k: [[k, 'L', n]]
    m = drv.run([('init_through', [lv(k1), w0]), ('init_through', [lv(k2), a0]), ('apply_in', [lv(k3), {'names': py_insert_norm(['tn'], k3, 'L'), 'inner': {'raw': py_insert_norm([17], k3, n)}}])])
    if m != [('ok', want['w']), ('ok', want['a']), ('ok', t0)]:
      ctx.disagreements_checked += 1
      ctx.violation('linen-inout-model-mismatch', f'{kind} in/out collections: model {m}, impl {o}', case, concrete=False)


# ---- NNX: StateAxes with a different axis per substate -----------------------------------------


def nnx_state_axes_observe(kind, kw, kc, n):
  tm = {nnx.PARTITION_NAME: 'L'}
  axes = nnx.StateAxes({nnx.Param: kw, nnx.BatchStat: kc})
  create = lambda key: NLeaf((3, 5), ('in', 'out'), key)
  if kind == 'vmap':
    f = nnx.vmap(create, in_axes=0, out_axes=axes, axis_size=n, transform_metadata=tm)
    g = nnx.vmap(nnx_body, in_axes=(axes, 0, 0), out_axes=0, transform_metadata=tm)
  else:
    f = nnx.scan(create, in_axes=0, out_axes=axes, length=n, transform_metadata=tm)
    g = nnx.scan(nnx_body, in_axes=(axes, nnx.Carry, 0), out_axes=(nnx.Carry, 0), transform_metadata=tm)
  keys = jax.random.split(jax.random.key(0), n)
  m = nnx.eval_shape(lambda: f(keys))
  init = {'w': _nnx_var_json(m.w), 'c': _nnx_var_json(m.c)}
  c, xs = level_inputs([(kind, 0, 'L', n)])
  gd, st = nnx.split(m)

  def run(state):
    mm = nnx.merge(gd, state)
    out = g(mm, c, xs)
    return out, nnx.state(mm)

  SEEN.clear()
  r = jax.eval_shape(run, st)
  return {'init': init, 'seen': _seen_summary(), 'after': {'w': _nnx_var_json(r[1]['w']), 'c': _nnx_var_json(r[1]['c'])}}


def check_nnx_state_axes(ctx, drv, cases):
  for kind, kw, kc in cases:
    n = 2
    case = {'kind': 'nnx-stateaxes', 'transform': kind, 'k_param': kw, 'k_batchstat': kc}
    ctx.case(case)
    ctx.count('nnx_stateaxes_kind', kind)
    r = call(lambda: nnx_state_axes_observe(kind, kw, kc, n))
    if r[0] != 'ok':
      ctx.violation('nnx-stateaxes-raises', f'nnx.{kind} with StateAxes(Param: {kw}, BatchStat: {kc}) raised {r[1]}', case)
      continue
    o = r[1]
    base = base_box([3, 5], ['in', 'out'])
    mk = lambda k: base if k is None else {'names': py_insert_norm(['in', 'out'], k, 'L'), 'inner': {'raw': py_insert_norm([3, 5], k, n)}}
    want = {'w': mk(kw), 'c': mk(kc)}
    if o['init'] != want:
      ctx.violation('nnx-stateaxes-init-misaligned', f'nnx.{kind} StateAxes(Param: {kw}, BatchStat: {kc}): created {o["init"]}, by axis {want}', case)
    elif o['seen'] != {'w': [base], 'c': [base]}:
      ctx.violation('nnx-stateaxes-body-sees-wrong', f'nnx.{kind} StateAxes: body saw {o["seen"]}', case)
    elif o['after'] != want:
      ctx.violation('nnx-stateaxes-after-apply', f'nnx.{kind} StateAxes: after apply {o["after"]}, expected {want}', case)
    else:
      m = drv.run([('init_through', [[[k, 'L', n]] if k is not None else [], base]) for k in (kw, kc)])
      if m != [('ok', want['w']), ('ok', want['c'])]:
        ctx.disagreements_checked += 1
        ctx.violation('nnx-stateaxes-model-mismatch', f'model {m}, impl {o["init"]}', case, concrete=False)


# ---- NNX: StateAxes in every filter order (broadcast / carry / several int groups) ---------------

SA_VARS = {  # attribute -> (variable type, filter name, base shape, base names)
  'w': ('Param', [3, 5], ['in', 'out']),
  'c': ('BatchStat', [7], ['cn']),
  'h': ('Cache', [11, 13], ['ha', 'hb']),
}
SA_TYPES = {'Param': nnx.Param, 'BatchStat': nnx.BatchStat, 'Cache': nnx.Cache, '...': ...}


class SALeaf(nnx.Module):
  def __init__(self, key):
    self.w = nnx.Param(int_init(key, (3, 5)), sharding=('in', 'out'))
    self.c = nnx.BatchStat(jnp.zeros((7,)), sharding=('cn',))
    self.h = nnx.Cache(jnp.zeros((11, 13)), sharding=('ha', 'hb'))


def _sa_axis(a):
  return nnx.Carry if a == 'carry' else a


def _sa_state_axes(layout, carry_as=None):
  return nnx.StateAxes({SA_TYPES[f]: (_sa_axis(a) if a != 'carry' else (nnx.Carry if carry_as is None else carry_as[0])) for f, a in layout})


def _sa_axis_of(layout, attr):
  """axis the layout gives to a variable: first filter that matches its type ('...' matches everything)."""
  t = SA_VARS[attr][0]
  for f, a in layout:
    if f == t or f == '...':
      return a
  raise ValueError(attr)


def sa_observe(kind, layout, n):
  """layout: ordered [(filter name, axis)], axis in int | None | 'carry' (scan apply only).
  Creation always goes through nnx.vmap with the same filter order (carry -> None: created once, not stacked);
  for scan, creation through nnx.scan is tried as well when every axis is an int."""
  tm = {nnx.PARTITION_NAME: 'L'}
  create_layout = [(f, None if a == 'carry' else a) for f, a in layout]
  keys = jax.random.split(jax.random.key(0), n)
  f_create = nnx.vmap(lambda key: SALeaf(key), in_axes=0, out_axes=_sa_state_axes(create_layout), axis_size=n, transform_metadata=tm)
  m = nnx.eval_shape(lambda: f_create(keys))
  obs = {'init': {a: _nnx_var_json(getattr(m, a)) for a in SA_VARS}}
  if kind == 'scan' and all(isinstance(a, int) for _f, a in layout):
    f_scan = nnx.scan(lambda key: SALeaf(key), in_axes=0, out_axes=_sa_state_axes(layout), length=n, transform_metadata=tm)
    ms = nnx.eval_shape(lambda: f_scan(keys))
    obs['init_scan'] = {a: _nnx_var_json(getattr(ms, a)) for a in SA_VARS}
  mutable = [a for a in SA_VARS if _sa_axis_of(layout, a) is not None]

  def body(mod, c, x):
    for a in SA_VARS:
      SEEN.append((a, _nnx_var_json(getattr(mod, a))))
    for a in mutable:
      v = getattr(mod, a)
      v.value = v.value + x
    y = x * jnp.sum(mod.w.value)
    return c + y, y

  axes = _sa_state_axes(layout)
  if kind == 'vmap':
    g = nnx.vmap(body, in_axes=(axes, 0, 0), out_axes=0, transform_metadata=tm)
  else:
    g = nnx.scan(body, in_axes=(axes, nnx.Carry, 0), out_axes=(nnx.Carry, 0), transform_metadata=tm)
  c, xs = level_inputs([(kind, 0, 'L', n)])
  gd, st = nnx.split(m)

  def run(state):
    mm = nnx.merge(gd, state)
    out = g(mm, c, xs)
    return out, nnx.state(mm)

  SEEN.clear()
  r = jax.eval_shape(run, st)
  obs['seen'] = _seen_summary()
  obs['after'] = {a: _nnx_var_json(r[1][a]) for a in SA_VARS}
  return obs


def check_nnx_state_axes_orders(ctx, drv, cases):
  for kind, layout in cases:
    n = 2
    layout = [tuple(x) for x in layout]
    case = {'kind': 'nnx-stateaxes-order', 'transform': kind, 'layout': [list(x) for x in layout]}
    ctx.case(case)
    pat = ','.join('I' if isinstance(a, int) else ('N' if a is None else 'C') for _f, a in layout)
    ctx.count('nnx_stateaxes_order_' + kind, pat)
    r = call(lambda: sa_observe(kind, layout, n))
    if r[0] != 'ok':
      ctx.violation('nnx-stateaxes-order-raises', f'nnx.{kind} with transform_metadata and StateAxes {layout} raised {r[1]}', case)
      continue
    o = r[1]
    base = {a: base_box(SA_VARS[a][1], SA_VARS[a][2]) for a in SA_VARS}
    want = {}
    for a in SA_VARS:
      k = _sa_axis_of(layout, a)
      want[a] = base[a] if not isinstance(k, int) else {'names': py_insert_norm(SA_VARS[a][2], k, 'L'), 'inner': {'raw': py_insert_norm(SA_VARS[a][1], k, n)}}
    bad = None
    for a in SA_VARS:
      got = o['init'][a]
      if len(got.get('names', [])) != len(_raw_of(got)):
        bad = ('nnx-stateaxes-order-init-misaligned', f'nnx.vmap StateAxes {layout}: {a} has names {got.get("names")} for shape {_raw_of(got)}')
        break
    if not bad and o['init'] != want:
      bad = ('nnx-stateaxes-order-init-misaligned', f'nnx.vmap out_axes StateAxes {layout}: created {o["init"]}; by axis the variables are {want}')
    elif not bad and 'init_scan' in o and o['init_scan'] != want:
      bad = ('nnx-stateaxes-order-init-misaligned', f'nnx.scan out_axes StateAxes {layout}: created {o["init_scan"]}; by axis the variables are {want}')
    elif not bad and o['seen'] != {a: [base[a]] for a in SA_VARS}:
      bad = ('nnx-stateaxes-order-body-sees-wrong', f'nnx.{kind} in_axes StateAxes {layout}: body saw {o["seen"]}, expected every variable without the partition name: {base}')
    elif not bad and o['after'] != want:
      bad = ('nnx-stateaxes-order-after-apply', f'nnx.{kind} StateAxes {layout}: after apply {o["after"]}, expected {want}')
    if bad:
      ctx.violation(bad[0], bad[1], case)
      continue
    reqs = []
    for a in SA_VARS:
      k = _sa_axis_of(layout, a)
      lv = [[k, 'L', n]] if isinstance(k, int) else []
      reqs += [('init_through', [lv, base[a]]), ('apply_in', [lv, want[a]])]
    m = drv.run(reqs)
    exp = []
    for a in SA_VARS:
      exp += [('ok', want[a]), ('ok', base[a])]
    if m != exp:
      ctx.disagreements_checked += 1
      ctx.violation('nnx-stateaxes-order-model-mismatch', f'model {m}, impl {o}', case, concrete=False)
      continue
    # the routing model of _update_variable_sharding_metadata: which state gets which axis
    groups = [[a for a in sorted(SA_VARS) if next(i for i, (f2, _a) in enumerate(layout) if f2 in (SA_VARS[a][0], '...')) == fi] for fi in range(len(layout))]
    j_axes = lambda lay: [a if (a is None or isinstance(a, int)) else 'carry' for _f, a in lay]
    create_layout = [(f, None if a == 'carry' else a) for f, a in layout]
    v_states = [[SA_VARS[a][2] for a in g] for g in groups]
    r1 = drv.run([('sa_add', ['vmap', j_axes(create_layout), v_states, 'L'])])[0]
    got1 = {a: o['init'][a]['names'] for a in SA_VARS}
    mod1 = {a: r1[1][gi][ai] for gi, g in enumerate(groups) for ai, a in enumerate(g)} if r1[0] == 'ok' else None
    ok = mod1 == got1
    if ok and kind == 'scan':
      vec = [gi for gi, (_f, a) in enumerate(layout) if isinstance(a, int)]
      r2 = drv.run([('sa_add', ['scan', j_axes(layout), [v_states[gi] for gi in vec], 'L'])])[0]
      mod2 = {a: r2[1][vi][ai] for vi, gi in enumerate(vec) for ai, a in enumerate(groups[gi])} if r2[0] == 'ok' else None
      got2 = {a: o['after'][a]['names'] for gi in vec for a in groups[gi]}
      ok = mod2 == got2
    if not ok:
      ctx.disagreements_checked += 1
      ctx.violation('nnx-stateaxes-routing-model-mismatch', f'StateAxes routing model differs on {case}', case, concrete=False)


def sa_random_layout(rng, kind):
  """a random filter order with a random axis per filter; the Param always gets an int axis."""
  import itertools as _it

  while True:
    names = ['Param', 'BatchStat', 'Cache']
    rng.shuffle(names)
    if rng.random() < 0.35:
      names = names[: rng.randrange(1, 3)] + ['...']
    layout = []
    for f in names:
      if f == '...':
        rest = [SA_VARS[a] for a in SA_VARS if SA_VARS[a][0] not in names]
        minrank = min(len(v[1]) for v in rest)
        choices = [None, None] + list(range(-(minrank + 1), minrank + 1)) + (['carry'] if kind == 'scan' else [])
      else:
        rank = [len(v[1]) for v in SA_VARS.values() if v[0] == f][0]
        choices = [None, None] + list(range(-(rank + 1), rank + 1)) + (['carry', 'carry'] if kind == 'scan' else [])
      layout.append((f, rng.choice(choices)))
    # the Param is initialised from the per-lane key, so it has to be stacked (an int axis)
    if isinstance(_sa_axis_of(layout, 'w'), int):
      return layout


SA_FIXED = (
  [('vmap', [('BatchStat', None), ('Param', k), ('...', None)]) for k in (0, 1, 2, -1)]
  + [('scan', [('BatchStat', None), ('Param', k), ('...', None)]) for k in (0, 1, 2, -1)]
  + [('vmap', [('Param', 1), ('BatchStat', None), ('Cache', -1)]), ('vmap', [('BatchStat', None), ('Param', 1), ('Cache', -1)]),
     ('scan', [('Param', 1), ('BatchStat', None), ('Cache', -1)]), ('scan', [('BatchStat', None), ('Param', 1), ('Cache', -1)]),
     ('scan', [('Cache', 'carry'), ('Param', 2), ('BatchStat', None)]), ('scan', [('BatchStat', None), ('Cache', 'carry'), ('Param', 0)]),
     ('scan', [('Param', 0), ('BatchStat', 1), ('Cache', -1)]), ('scan', [('Cache', 2), ('...', 0)])]
)


# ---- real execution: boxed computes like raw ----------------------------------------------------


def check_real_exec(ctx, api, cases):
  for cs in cases:
    levels, shape, names = cs['levels'], cs['shape'], cs['names']
    case = {'kind': 'exec', 'api': api, 'levels': [list(l) for l in levels], 'shape': list(shape), 'names': names}
    ctx.case(case)
    ctx.count('real_exec', api)
    c, xs = level_inputs(levels)
    if api == 'linen':
      def run():
        m = linen_build(levels, shape, names)
        v = m.init(jax.random.key(1), c, xs)
        out, upd = m.apply(v, c, xs, mutable=['state'])
        mr = linen_build(levels, shape, None)
        out2, upd2 = mr.apply(meta.unbox(v), c, xs, mutable=['state'])
        a = jax.tree.leaves((out, meta.unbox(upd)))
        b = jax.tree.leaves((out2, upd2))
        return all(np.array_equal(np.asarray(x), np.asarray(y)) for x, y in zip(a, b)) and len(a) == len(b), box_json(upd['state']['c']), box_json(v['state']['c'])
    elif api == 'bridge':
      def run():
        m = bridge_build(levels, shape, names)
        v = m.init(jax.random.key(1), c, xs)
        out = m.apply(v, c, xs)
        mr = bridge_build(levels, shape, None)
        vr = mr.init(jax.random.key(1), c, xs)
        out2 = mr.apply(vr, c, xs)
        a = jax.tree.leaves((out, meta.unbox(v['params'])))
        b = jax.tree.leaves((out2, vr['params']))
        same = all(np.array_equal(np.asarray(x), np.asarray(y)) for x, y in zip(a, b)) and len(a) == len(b)
        bj = box_json(v['params']['w'])
        want = oracle_aligned(bj, shape, names, levels, 'bridge exec')
        return same and want is None, bj, bj
    else:
      def run():
        m = nnx_create_fn(levels, shape, names)()
        mr = nnx_create_fn(levels, shape, None)()
        before = _nnx_var_json(m.c)
        out = nnx_apply_fn(levels)(m, c, xs)
        out2 = nnx_apply_fn(levels)(mr, c, xs)
        a = jax.tree.leaves((out, m.c.value, m.w.value))
        b = jax.tree.leaves((out2, mr.c.value, mr.w.value))
        return all(np.array_equal(np.asarray(x), np.asarray(y)) for x, y in zip(a, b)) and len(a) == len(b), _nnx_var_json(m.c), before
    r = call(run)
    if r[0] != 'ok':
      ctx.violation(f'{api}-exec-raises', f'{api} real execution through {levels} raised {r[1]}', case)
    elif not r[1][0]:
      ctx.violation(f'{api}-boxed-differs-from-raw', f'{api}: outputs/state of the boxed run differ from the raw-array run through {levels}', case)
    elif r[1][1] != r[1][2]:
      ctx.violation(f'{api}-state-after-exec', f'{api}: state box after apply {r[1][1]} != after init {r[1][2]}', case)


# ------------------------------------------------------------------------------------------------
# 3. get_partition_spec on mixed trees (both APIs)
# ------------------------------------------------------------------------------------------------


def check_pspec(ctx, drv, rng, n):
  name_pool = [None, 'a', 'b', 'data']
  reqs, impl, cases = [], [], []
  for i in range(n):
    r = rng.randrange(0, 4)
    names = [rng.choice(name_pool) for _ in range(rng.randrange(0, r + 1))]
    kind = rng.choice(['boxed', 'boxed', 'raw', 'sds', 'nonarray', 'nested'])
    shape = tuple(SIZES_BASE[:r])
    if kind == 'boxed':
      leaf, bj, arr = meta.Partitioned(np.zeros(shape), tuple(names)), {'names': names, 'inner': {'raw': list(shape)}}, True
    elif kind == 'nested':
      leaf = meta.Partitioned(meta.Partitioned(np.zeros(shape), ('z',) * r), tuple(names))
      bj, arr = {'names': names, 'inner': {'names': ['z'] * r, 'inner': {'raw': list(shape)}}}, True
    elif kind == 'raw':
      leaf, bj, arr = jnp.zeros(shape), {'raw': list(shape)}, True
    elif kind == 'sds':
      leaf, bj, arr = jax.ShapeDtypeStruct(shape, jnp.float32), {'raw': list(shape)}, True
    else:
      leaf, bj, arr = rng.choice([3, 'text', 2.5]), {'raw': []}, False
    cases.append({'kind': 'pspec', 'api': 'linen', 'leaf': kind, 'box': bj, 'is_array': arr})
    reqs.append(('pspec', [bj, arr]))
    impl.append(call(lambda: _pspec_json(meta.get_partition_spec({'p': {'leaf': leaf}})['p']['leaf'])))
    # NNX
    sh = rng.choice([None, None, tuple(names), tuple(names), ()])
    vkind = rng.choice(['state', 'variable'])
    val = rng.choice([jnp.zeros(shape), np.zeros(shape), jax.ShapeDtypeStruct(shape, jnp.float32)])
    nonarr = rng.random() < 0.15
    if nonarr:
      val = 7
    kw = {} if sh is None else {'sharding': sh}
    var = nnx.Param(val, **kw)
    x = var.to_state() if vkind == 'state' else var
    cases.append({'kind': 'pspec', 'api': 'nnx', 'holder': vkind, 'value': type(val).__name__, 'sharding': None if sh is None else list(sh)})
    reqs.append(('nnx_pspec', [None if sh is None else list(sh), not nonarr]))
    impl.append(call(lambda: _pspec_json(nnx.get_partition_spec([x])[0].value)))
  outs = drv.run(reqs)
  for case, i_r, m_r in zip(cases, impl, outs):
    ctx.case(case, nontrivial=True)
    ctx.count('pspec_kind', case['api'] + ':' + case.get('leaf', case.get('holder', '')))
    # oracle: exactly the names; replicated for unboxed arrays; None for non-arrays
    if case['api'] == 'linen':
      want = ('ok', list(case['box']['names'])) if 'names' in case['box'] else ('ok', [] if case['is_array'] else None)
    else:
      sh = case['sharding']
      want = ('ok', sh) if sh else ('ok', None if case['value'] == 'int' else [])
    if i_r != want:
      key = f"{case['api']}-partition-spec-wrong" + ('-unannotated-variable' if case['api'] == 'nnx' and not case['sharding'] and case.get('holder') == 'variable' else '')
      ctx.violation(key, f'get_partition_spec on {case} gives {i_r}, expected {want}', case)
    elif i_r != m_r:
      ctx.disagreements_checked += 1
      ctx.violation('pspec-model-mismatch', f'get_partition_spec: impl {i_r}, model {m_r} on {case}', case, concrete=False)


# ------------------------------------------------------------------------------------------------
# 4. logical_to_mesh_axes
# ------------------------------------------------------------------------------------------------

MESH_VALUES = [None, 'X', 'Y', 'Z', ['X', 'Y'], ['Z', 'X']]
LOGICAL = ['a', 'b', 'c']
NAME_TUPLES = [[], ['a'], ['a', 'b'], ['b', 'a'], ['a', None, 'b'], [None, None], ['a', 'b', 'c'], ['c', None, 'a', 'b'], ['a', 'a']]


def _py_rules(rules):
  return tuple((n, tuple(m) if isinstance(m, list) else m) for n, m in rules)


def _l2m(names, rules):
  return call(lambda: spec_leaves(nn.logical_to_mesh_axes(tuple(names), _py_rules(rules))))


def check_l2m(ctx, drv, cases):
  """cases: list of (names, rules) with rules = [[logical|None, mesh]]."""
  outs = drv.run([('l2m', [names, rules]) for names, rules in cases])
  for (names, rules), m_r in zip(cases, outs):
    case = {'kind': 'l2m', 'names': names, 'rules': rules}
    ctx.case(case, nontrivial=bool(rules) and any(n is not None for n in names))
    ctx.count('l2m_nrules', len(rules))
    i_r = _l2m(names, rules)
    named = [n for n in names if n is not None]
    dup = len(set(named)) != len(named)
    bad = None
    if dup:
      if i_r[0] == 'ok':
        bad = ('l2m-accepts-duplicate-names', f'logical_to_mesh_axes accepted duplicate logical names {names}')
    elif i_r[0] != 'ok':
      bad = ('l2m-raises', f'logical_to_mesh_axes({names}, {rules}) raised {i_r[1]}')
    else:
      res = i_r[1]
      if len(res) != len(names):
        bad = ('l2m-length', f'logical_to_mesh_axes({names}, {rules}) has {len(res)} entries for {len(names)} dimensions')
      # no mesh axis on two dimensions
      if not bad:
        for p in range(len(res)):
          for q in range(p + 1, len(res)):
            both = set(res[p]) & set(res[q])
            if both:
              bad = ('l2m-mesh-axis-used-twice', f'logical_to_mesh_axes({names}, {rules}) = {res}: mesh axis {sorted(both)} on dimensions {p} and {q}')
      # priority: position p holds the mesh of the first rule for names[p] that was free when processed
      if not bad:
        for p, nme in enumerate(names):
          if nme is None:
            want = []
          else:
            want = []
            for i, (rn, rm) in enumerate(rules):
              if rn != nme:
                continue
              before = _l2m(names, rules[:i])[1]
              used = set(a for e in before for a in e)
              leaves = [] if rm is None else ([rm] if isinstance(rm, str) else list(rm))
              if not (set(leaves) & used):
                want = leaves
                break
          if res[p] != want:
            bad = ('l2m-priority', f'logical_to_mesh_axes({names}, {rules}) = {res}: dimension {p} ({nme}) should get {want} (first rule whose mesh axes were still free)')
            break
    if bad:
      ctx.violation(bad[0], bad[1], case)
    elif i_r != m_r and not (i_r[0] == 'err' and m_r[0] == 'err'):
      ctx.disagreements_checked += 1
      ctx.violation('l2m-model-mismatch', f'logical_to_mesh_axes: impl {i_r}, model {m_r} on {case}', case, concrete=False)


def check_l2m_end_to_end(ctx, drv, rng, n):
  """transform -> get_partition_spec -> logical_to_mesh: the mesh spec has one entry per dimension of the
  stacked array and the transform's partition name is resolved by the rules like any other name."""
  for _ in range(n):
    ax = rng.choice([-3, -2, -1, 0, 1, 2])
    levels = [('scan', ax, 'layers', 4)]
    rules = [['layers', rng.choice(['X', None])], ['in', rng.choice(['X', 'Y'])], ['out', rng.choice(['X', 'Y', ['Y', 'Z']])]]
    rng.shuffle(rules)
    case = {'kind': 'l2m-e2e', 'axis': ax, 'rules': rules}
    ctx.case(case)
    ctx.count('l2m_e2e_axis', ax)

    logical = rng.random() < 0.5

    def run():
      m = linen_build(levels, (3, 5), ('in', 'out'), logical=logical)
      c, xs = level_inputs(levels)
      v = jax.eval_shape(m.init, jax.random.key(0), c, xs)
      w = v['params']['w']
      spec = nn.logical_to_mesh(nn.get_partition_spec({'w': w}), _py_rules(rules))['w']
      return shape_of(w.value), list(w.names), spec_leaves(spec)

    r = call(run)
    if r[0] != 'ok':
      ctx.violation('l2m-e2e-raises', f'scan(axis {ax}) -> get_partition_spec -> logical_to_mesh raised {r[1]}', case)
      continue
    dims, names, res = r[1]
    want = _l2m(names, rules)
    by = {3: 'in', 5: 'out', 4: 'layers'}
    if [by[d] for d in dims] != names or want != ('ok', res) or len(res) != len(dims):
      ctx.violation('l2m-e2e-misaligned', f'scan(axis {ax}): shape {dims}, names {names}, mesh spec {res} (direct: {want})', case)


# ------------------------------------------------------------------------------------------------
# 5. Linen -> NNX metadata bridge (finding F4)
# ------------------------------------------------------------------------------------------------


def check_bridge(ctx, drv, cases):
  reqs = []
  for names, cls in cases:
    d = [['value', {'other': 'array'}], ['names', {'names': names}], ['mesh', {'other': 'None'}]]
    if cls == 'logical':
      d.append(['rules', {'other': 'rules'}])
    reqs.append(('to_nnx', [d]))
  outs = drv.run(reqs)
  for (names, cls), m_r in zip(cases, outs):
    case = {'kind': 'bridge', 'names': names, 'cls': cls}
    ctx.case(case, nontrivial=bool(names))
    ctx.count('bridge_cls', cls)
    if cls == 'logical':
      p = nn.LogicallyPartitioned(np.zeros(tuple(SIZES_BASE[: len(names)])), tuple(names), rules=(('a', 'X'),))
    else:
      p = meta.Partitioned(np.zeros(tuple(SIZES_BASE[: len(names)])), tuple(names))
    r = call(lambda: bridge_vars.to_nnx_var('params', p))
    if r[0] != 'ok':
      ctx.violation('bridge-to_nnx-raises', f'to_nnx_var raised {r[1]} on a {cls} box with names {names}', case)
      continue
    after = call(lambda: list(p.names))
    spec_after = call(lambda: _pspec_json(meta.get_partition_spec({'p': p})['p']))
    sh = call(lambda: list(r[1].get_metadata()['sharding']))
    back = call(lambda: box_json(bridge_vars.to_linen_var(r[1].to_state())))
    if after != ('ok', names) or spec_after != ('ok', names):
      ctx.violation('bridge-to_nnx-mutates-source', f'after to_nnx_var the source {cls} box reads names={after}, spec={spec_after} (was {names})', case)
    elif sh != ('ok', names):
      ctx.violation('bridge-to_nnx-sharding', f'to_nnx_var gives sharding {sh} for names {names}', case)
    elif back != ('ok', {'names': names, 'inner': {'raw': list(SIZES_BASE[: len(names)])}}):
      ctx.violation('bridge-roundtrip', f'to_linen_var(to_nnx_var(box)) = {back} for names {names}', case)
    else:
      ok = m_r[0] == 'ok' and dict((k, v) for k, v in m_r[1]['self']).get('names') == {'names': names} and dict((k, v) for k, v in m_r[1]['ret']).get('sharding') == {'names': names} and 'names' not in dict((k, v) for k, v in m_r[1]['ret'])
      if not ok:
        ctx.disagreements_checked += 1
        ctx.violation('bridge-model-mismatch', f'model of to_nnx_metadata gives {m_r} for names {names}', case, concrete=False)


# ------------------------------------------------------------------------------------------------
# generators
# ------------------------------------------------------------------------------------------------


def unit_cases(max_rank, krange):
  alphabet = [None, 'a', 'b', 'L']
  out = []
  for r in range(max_rank + 1):
    for names in itertools.product(alphabet, repeat=r):
      for k in range(-krange, krange + 1):
        for nm in ('L', None):
          out.append((list(names), k, nm))
  return out


def aligned_names(r, variant):
  base = ['in', 'out', 'feat'][:r]
  if variant == 'aligned':
    return base
  if variant == 'none' and r >= 1:
    return [None] + base[1:]
  if variant == 'short' and r >= 1:
    return base[: r - 1]
  return None


def single_level_cases(ranks, variants=('aligned', 'none', 'short')):
  out = []
  for r in ranks:
    shape = SIZES_BASE[:r]
    for kind in ('vmap', 'scan'):
      for k in range(-(r + 2), r + 2):
        for variant in variants:
          names = aligned_names(r, variant)
          if names is None:
            continue
          out.append({'levels': [(kind, k, 'V' if kind == 'vmap' else 'S', 2)], 'shape': shape, 'names': names})
  return out


def nested_cases(r, depth=2):
  shape = SIZES_BASE[:r]
  names = aligned_names(r, 'aligned')
  out = []
  kinds = list(itertools.product(('vmap', 'scan'), repeat=depth))
  ranges = [range(-(r + 1 + i), r + 1 + i) for i in range(depth)]
  for ks in kinds:
    for axes in itertools.product(*ranges):
      levels = [(ks[i], axes[i], ['P', 'Q', 'R'][i], SIZES_LEVEL[i]) for i in range(depth)]
      out.append({'levels': levels, 'shape': shape, 'names': names})
  return out


def random_l2m(rng):
  names = rng.choice(NAME_TUPLES[:-1] + [['a', 'b', 'c', None], ['d', 'a'], ['b', None, 'c']])
  n = rng.randrange(0, 9)
  rules = []
  for _ in range(n):
    ln = rng.choice(LOGICAL + ['d'] + ([None] if rng.random() < 0.1 else []))
    mv = rng.choice(MESH_VALUES + [['Y'], [], ['W', 'Y', 'Z']])
    rules.append([ln, mv])
  return (list(names), rules)


# ------------------------------------------------------------------------------------------------
# entry points
# ------------------------------------------------------------------------------------------------


def run(ctx):
  drv = LeanDriver('drv_c19')
  thorough = ctx.tier == 'thorough'
  rng = ctx.rng
  import time as _time

  phases = {}
  t_last = [_time.time()]

  def mark(name):
    now = _time.time()
    phases[name] = round(phases.get(name, 0) + now - t_last[0], 2)
    t_last[0] = now

  ctx.extra['phase_seconds'] = phases
  for _fn, obj in load_corpus('C19'):
    ctx.corpus_replayed += 1
    _run_case(ctx, drv, obj)

  mark('corpus')
  # 1. unit level, exhaustive
  ucases = unit_cases(4 if not thorough else 5, 6 if not thorough else 8)
  for i in range(0, len(ucases), 4000):
    check_unit(ctx, drv, ucases[i : i + 4000])
  tcases = []
  boxes = [{'raw': [3, 5]}, {'names': ['a', 'b'], 'inner': {'raw': [3, 5]}}, {'names': ['a'], 'inner': {'raw': [3, 5]}}, {'names': [], 'inner': {'raw': []}},
           {'names': ['a', 'L'], 'inner': {'names': ['x', 'y'], 'inner': {'raw': [3, 5]}}}, {'names': ['L', None, 'b'], 'inner': {'raw': [3, 5, 7]}}]
  for bj in boxes:
    for k in range(-4, 5):
      for params in ([], ['L'], [None]):
        tcases.append((bj, k, params))
  check_tree_api(ctx, drv, tcases)

  mark('unit')
  # 2. real transforms
  single = single_level_cases((0, 1, 2, 3))
  check_transform(ctx, drv, 'linen', single)
  check_transform(ctx, drv, 'nnx', [c for c in single_level_cases((0, 1, 2)) if c['names'] is not None])
  raw_cases = [{'levels': [(kind, k, 'V', 2)], 'shape': [3, 5], 'names': None} for kind in ('vmap', 'scan') for k in (-3, -1, 0, 2)]
  check_transform(ctx, drv, 'linen', raw_cases)
  check_transform(ctx, drv, 'nnx', raw_cases)
  check_transform(ctx, drv, 'linen', [{'levels': [(kind, k, 'V', 2)], 'shape': [3, 5], 'names': nm, 'with_key': False} for kind in ('vmap', 'scan') for k in (0, -1) for nm in (['in', 'out'], None)])
  check_transform(ctx, drv, 'legacy', single_level_cases((1, 2), variants=('aligned',)))
  check_transform(ctx, drv, 'linen-logical', single_level_cases((2,), variants=('aligned',)))
  # NNX modules with sharding annotations wrapped by bridge.ToLinen: the NNXMeta box under nn.vmap / nn.scan
  check_transform(ctx, drv, 'bridge', single_level_cases((1, 2)))
  check_transform(ctx, drv, 'bridge', raw_cases)
  check_transform(ctx, drv, 'bridge', [{'levels': [(kind, 0, 'V', 2)], 'shape': [3, 5], 'names': nm, 'with_key': False} for kind in ('vmap', 'scan') for nm in (['in', 'out'], None)])
  nested2 = nested_cases(2)
  ctx.extra['nested2_total'] = len(nested2)
  if not thorough:
    pick = rng.sample(nested2, 40)
    pick_nnx = rng.sample(nested2, 24)
    pick_legacy = rng.sample(nested2, 8)
    nested3 = rng.sample(nested_cases(1, 3), 10)
  else:
    pick, pick_nnx = nested2, nested2
    pick_legacy = rng.sample(nested2, 80)
    nested3 = rng.sample(nested_cases(1, 3), 150) + rng.sample(nested_cases(2, 3), 150)
  check_transform(ctx, drv, 'linen', pick)
  check_transform(ctx, drv, 'nnx', pick_nnx)
  check_transform(ctx, drv, 'legacy', pick_legacy)
  check_transform(ctx, drv, 'bridge', rng.sample(nested2, 16) if not thorough else nested2)
  check_transform(ctx, drv, 'linen', nested3)
  check_transform(ctx, drv, 'nnx', nested3[: len(nested3) // 2])
  mark('transforms_eval_shape')
  inout = [(kind, k1, k2, k3) for kind in ('vmap', 'scan') for k1 in range(-3, 3) for k2 in range(-2, 2) for k3 in range(-2, 2)]
  check_linen_inout(ctx, drv, inout if thorough else rng.sample(inout, 16))
  sax = [(kind, kw, kc) for kind in ('vmap', 'scan') for kw in range(-3, 3) for kc in range(-3, 3)]
  check_nnx_state_axes(ctx, drv, sax if thorough else rng.sample(sax, 8))
  n_sa = 10 if not thorough else 250
  check_nnx_state_axes_orders(ctx, drv, list(SA_FIXED) + [(kind, sa_random_layout(rng, kind)) for kind in ('vmap', 'scan') for _ in range(n_sa)])
  mark('inout_stateaxes')
  in_range2 = [c for c in nested2 if _levels_in_range(c['levels'], 2)]
  n_exec = 3 if not thorough else 12
  check_real_exec(ctx, 'linen', rng.sample(in_range2, n_exec) + [{'levels': [('vmap', -1, 'V', 2)], 'shape': [3, 5], 'names': ['in', 'out']}])
  check_real_exec(ctx, 'bridge', rng.sample(in_range2, 1 if not thorough else 6) + [{'levels': [('vmap', 0, 'layers', 4)], 'shape': [3, 5], 'names': ['in', 'out']}])
  check_real_exec(ctx, 'nnx', rng.sample(in_range2, n_exec - 1) + [{'levels': [('scan', -1, 'S', 4)], 'shape': [3, 5], 'names': ['in', 'out']}])

  mark('real_exec')
  # 3. partition specs
  check_pspec(ctx, drv, rng, 300 if not thorough else 3000)

  mark('pspec')
  # 4. logical -> mesh
  opts = [[ln, mv] for ln in LOGICAL for mv in MESH_VALUES]
  maxlen = 2 if not thorough else 3
  lists = [list(c) for n in range(0, maxlen + 1) for c in itertools.product(opts, repeat=n)]
  ctx.extra['l2m_exhaustive'] = f'{len(lists)} rule lists (length<={maxlen} over {len(opts)} rules) x {len(NAME_TUPLES)} name tuples'
  l2m_cases = [(names, rl) for rl in lists for names in NAME_TUPLES]
  l2m_cases += [random_l2m(rng) for _ in range(1500 if not thorough else 20000)]
  for i in range(0, len(l2m_cases), 5000):
    check_l2m(ctx, drv, l2m_cases[i : i + 5000])
  check_l2m_end_to_end(ctx, drv, rng, 12 if not thorough else 100)

  mark('l2m')
  # 5. bridge
  check_bridge(ctx, drv, [(list(n), cls) for cls in ('partitioned', 'logical') for n in ([], ['a'], ['a', 'b'], [None, 'b'], ['a', None, 'c'])])

  mark('bridge')
  ctx.sample({'kind': 'unit', 'names': ['a', 'b'], 'k': -1, 'nm': 'L'})
  ctx.sample({'kind': 'transform', 'api': 'linen', **{k: (v if k != 'levels' else [list(l) for l in v]) for k, v in pick[0].items()}})
  ctx.sample({'kind': 'transform', 'api': 'nnx', **{k: (v if k != 'levels' else [list(l) for l in v]) for k, v in pick_nnx[0].items()}})
  ctx.sample({'kind': 'l2m', 'names': l2m_cases[-1][0], 'rules': l2m_cases[-1][1]})
  ctx.sample({'kind': 'tree', 'box': tcases[40][0], 'k': tcases[40][1], 'params': tcases[40][2]})
  ctx.extra['exhaustive'] = False
  ctx.extra['driver_calls'] = drv.calls


def _run_case(ctx, drv, obj):
  case = obj.get('case', obj)
  kind = case.get('kind')
  if kind == 'unit':
    check_unit(ctx, drv, [(case['names'], case['k'], case['nm'])])
  elif kind == 'tree':
    check_tree_api(ctx, drv, [(case['box'], case['k'], case['params'])])
  elif kind == 'transform':
    levels = [tuple(l) for l in case['levels']]
    check_transform(ctx, drv, case['api'], [{'levels': levels, 'shape': case['shape'], 'names': case['names'], 'with_key': case.get('with_key', True)}])
  elif kind == 'exec':
    check_real_exec(ctx, case['api'], [{'levels': [tuple(l) for l in case['levels']], 'shape': case['shape'], 'names': case['names']}])
  elif kind == 'inout':
    check_linen_inout(ctx, drv, [(case['transform'], case['k_params'], case['k_aux_out'], case['k_consts_in'])])
  elif kind == 'nnx-stateaxes-order':
    check_nnx_state_axes_orders(ctx, drv, [(case['transform'], case['layout'])])
  elif kind == 'nnx-stateaxes':
    check_nnx_state_axes(ctx, drv, [(case['transform'], case['k_param'], case['k_batchstat'])])
  elif kind == 'l2m':
    check_l2m(ctx, drv, [(case['names'], case['rules'])])
  elif kind == 'bridge':
    check_bridge(ctx, drv, [(case['names'], case['cls'])])
  elif kind == 'pspec':
    import random

    check_pspec(ctx, drv, random.Random(case.get('seed', 0)), 50)
  elif kind == 'nnx-pspec-variable':
    r = call(lambda: _pspec_json(nnx.get_partition_spec([nnx.Param(jnp.ones(3))])[0].value))
    ctx.case(case)
    if r != ('ok', []):
      ctx.violation('nnx-partition-spec-wrong-unannotated-variable', f'nnx.get_partition_spec([nnx.Param(jnp.ones(3))]) gives {r}, expected the replicated spec', case)
  elif kind == 'l2m-e2e':
    import random

    check_l2m_end_to_end(ctx, drv, random.Random(0), 6)
  else:
    ctx.notes.append(f'unknown corpus case kind {kind}')


def replay(ctx, obj):
  drv = LeanDriver('drv_c19')
  _run_case(ctx, drv, obj)
  for v in ctx.violations:
    print('  ', v['key'], '-', v['what'][:300])
  return bool(ctx.violations)
