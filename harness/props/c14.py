"""C14 — Filters form a Boolean algebra; grouping by filters is a first-match partition.

Theorems: lean/Flax/Props/C14.lean over lean/Flax/Model/Filter.lean.
Correspondence: exhaustive small scope + seeded random, real flax vs the compiled Lean driver; only
observable semantics are compared (membership, emptiness, groups), never the representation of a
returned filter, so an equivalent re-encoding is not an alarm.
"""
from __future__ import annotations

import itertools

from harness import compat  # noqa: F401  (must precede flax)
from harness.common import LeanDriver, load_corpus

import flax.core.scope as scope
from flax.core.frozen_dict import FrozenDict
from flax import errors as flax_errors
from flax import nnx
from flax.nnx import filterlib, statelib

SPEC = {
  'exes': ['drv_c14'],
  'rule': (
    'Linen: every filter of deny-depth<=D over names {a,b,c} (all subsets, str and collection forms), '
    'all ordered pairs x {union,intersect,subtract}, probes = mentioned names + 2 fresh names; random deeper/'
    'other syntactic forms; group_collections over all filter lists <=3 (quick: sampled). NNX: filters of '
    'depth<=2-3 over 3 variable types, 2 tags, path predicates against real Variable/VariableState objects, '
    'and State.split/filter/nnx.split. A case is non-trivial when at least one operand is not a plain bool; '
    'distinct = distinct canonical JSON of the case.'
  ),
  'trusted_base': [
    'hand-written Lean model lean/Flax/Model/Filter.lean (tied to /repo by this correspondence run)',
    'harness/props/c14.py (generators, canonicalisation), harness/compat.py (JAX shim)',
    'Python typing.Collection membership and set algebra (A-PY)',
  ],
  'assumptions': [
    'filters never mention the reserved probe name __flax_internal_stub__ (guard of empty_iff; the excluded point is exhibited by theorem stub_guard_needed)',
    'NNX predicates observe a value only through isinstance/.type/.tag (VarInfo abstraction)',
  ],
  'model_partial': [],
}

STUB = '__flax_internal_stub__'


# ------------------------------------------------------------------------------------------------
# Linen side
# ------------------------------------------------------------------------------------------------


def lf_json(f):
  """Canonical JSON of a Python Linen filter (collections become sorted lists)."""
  if isinstance(f, bool):
    return f
  if isinstance(f, str):
    return f
  if isinstance(f, scope.DenyList):
    return {'deny': lf_json(f.deny)}
  return sorted(f)


def call(fn, *a):
  try:
    return ('ok', fn(*a))
  except flax_errors.InvalidFilterError:
    return ('err', 'InvalidFilter')
  except AssertionError:
    return ('err', 'Assertion')
  except Exception as e:  # any other exception is an observable behaviour, not a harness crash
    return ('err', 'Exception:' + type(e).__name__)


def ref_in(j, c):
  """Independent reading of in_filter's documented meaning, on the canonical JSON of a filter."""
  if isinstance(j, bool):
    return j
  if isinstance(j, str):
    return c == j
  if isinstance(j, dict):
    return not ref_in(j['deny'], c)
  return c in list(j)


def base_filters(names):
  out = [True, False]
  out += list(names)
  for r in range(len(names) + 1):
    for sub in itertools.combinations(names, r):
      out.append(list(sub))
  return out


def wrap(f, d):
  for _ in range(d):
    f = scope.DenyList(f)
  return f


def all_filters(names, depth):
  return [wrap(b, d) for d in range(depth + 1) for b in base_filters(names)]


def random_filter(rng, names, maxdepth):
  kind = rng.random()
  if kind < 0.12:
    b = rng.choice([True, False])
  elif kind < 0.3:
    b = rng.choice(names)
  else:
    sub = [n for n in names if rng.random() < 0.5]
    rng.shuffle(sub)
    form = rng.randrange(6)
    b = [sub, tuple(sub), set(sub), frozenset(sub), {k: 1 for k in sub}, FrozenDict({k: 1 for k in sub})][form]
    if form == 5:
      b = b.keys()
  return wrap(b, rng.randrange(maxdepth + 1))


OPS = {
  'union': (scope.union_filters, lambda x, y: x or y),
  'intersect': (scope.intersect_filters, lambda x, y: x and y),
  'subtract': (scope.subtract_filters, lambda x, y: x and not y),
}


def check_pair_batch(ctx, drv, pairs, probes, tag):
  """pairs: list of (a, b) Python filters. Runs impl, model, property oracle."""
  reqs = []
  impl = []
  for a, b in pairs:
    ja, jb = lf_json(a), lf_json(b)
    ina = [call(scope.in_filter, a, c) for c in probes]
    inb = [call(scope.in_filter, b, c) for c in probes]
    rec = {'a': ja, 'b': jb, 'ina': ina, 'inb': inb, 'ops': {}}
    reqs.append(('in', [ja, probes]))
    reqs.append(('in', [jb, probes]))
    for op, (fn, _) in OPS.items():
      r = call(fn, a, b)
      if r[0] == 'ok':
        rin = [call(scope.in_filter, r[1], c) for c in probes]
        remp = call(scope.is_filter_empty, r[1])
        try:
          rj = lf_json(r[1])
        except Exception:
          rj = None
      else:
        rin, remp, rj = None, None, None
      rec['ops'][op] = {'res': r[0] if r[0] == 'err' else 'ok', 'err': r[1] if r[0] == 'err' else None, 'in': rin, 'empty': remp, 'json': rj}
      reqs.append((op, [ja, jb]))
    impl.append(rec)
  outs = drv.run(reqs)
  # second round: membership/emptiness of the model's results, and of the impl's results fed to the model
  reqs2 = []
  k = 0
  for rec in impl:
    rec['m_ina'] = outs[k]
    rec['m_inb'] = outs[k + 1]
    k += 2
    for op in OPS:
      rec['ops'][op]['m'] = outs[k]
      k += 1
      m = rec['ops'][op]['m']
      if m[0] == 'ok':
        reqs2.append(('in', [m[1], probes]))
        reqs2.append(('empty', [m[1]]))
      if rec['ops'][op]['json'] is not None:
        reqs2.append(('in', [rec['ops'][op]['json'], probes]))
  outs2 = drv.run(reqs2)
  k = 0
  for rec in impl:
    case = {'kind': 'linen-pair', 'a': rec['a'], 'b': rec['b'], 'probes': probes}
    nontrivial = not (isinstance(rec['a'], bool) and isinstance(rec['b'], bool))
    ctx.case(case, nontrivial=nontrivial)
    ctx.count('linen_pair_depth', f"{_depth(rec['a'])}+{_depth(rec['b'])}")
    ina = [x[1] for x in rec['ina']]
    inb = [x[1] for x in rec['inb']]
    bad_in = False
    for nm, j, got_in in (('a', rec['a'], rec['ina']), ('b', rec['b'], rec['inb'])):
      ref = [('ok', ref_in(j, c)) for c in probes]
      if got_in != ref:
        wrong = [c for c, g, r in zip(probes, got_in, ref) if g != r]
        ctx.violation('linen-in_filter-wrong', f'in_filter({j!r}, c) differs from "True / equal / contained / not denied" at names {wrong}', dict(case, filter=j, got=got_in))
        bad_in = True
    if bad_in:
      continue
    if rec['m_ina'] != ('ok', ina) or rec['m_inb'] != ('ok', inb):
      ctx.disagreements_checked += 1
      ctx.violation('linen-in_filter-model-mismatch', f'in_filter differs from the model on {case}', case, concrete=False)
    for op, (fn, sem) in OPS.items():
      o = rec['ops'][op]
      m = o['m']
      m_in = m_emp = back = None
      if m[0] == 'ok':
        m_in, m_emp = outs2[k], outs2[k + 1]
        k += 2
      if o['json'] is not None:
        back = outs2[k]
        k += 1
      want = [sem(x, y) for x, y in zip(ina, inb)]
      c2 = dict(case, op=op)
      if o['res'] == 'err':
        ctx.violation(f'linen-{op}-raises', f'{op}_filters raised {o["err"]} on {c2}', c2)
        continue
      got = [x[1] if x[0] == 'ok' else x for x in o['in']]
      if got != want:
        bad = [c for c, g, w in zip(probes, got, want) if g != w]
        ctx.violation(
          f'linen-{op}-not-boolean', f'{op}_filters({rec["a"]!r},{rec["b"]!r}) membership differs from the logical combination at names {bad}', dict(c2, got=got, want=want)
        )
        continue
      # emptiness of the result: reported empty exactly when nothing can match (probes contain fresh names)
      emp = o['empty']
      if emp[0] != 'ok' or emp[1] != (not any(want)) and STUB not in str(o['json']):
        if not _infinite_hidden(o['json'], want):
          ctx.violation(
            'linen-empty-wrong' + ('-nested-deny' if _depth(o['json']) >= 2 else ''),
            f'is_filter_empty({o["json"]!r}) = {emp} but membership over {probes} is {want}', dict(c2, result=o['json'], empty=emp, want_in=want)
          )
          continue
      # correspondence with the model (semantic)
      if m[0] != 'ok' or m_in != ('ok', got) or m_emp != ('ok', emp[1]) or (back is not None and back != ('ok', got)):
        ctx.disagreements_checked += 1
        ctx.violation(f'linen-{op}-model-mismatch', f'model and implementation differ on {c2}: impl in={got} empty={emp}; model={m} in={m_in} empty={m_emp} back={back}', c2, concrete=False)


def _depth(j):
  d = 0
  while isinstance(j, dict):
    j = j['deny']
    d += 1
  return d


def _infinite_hidden(j, want):
  """is_filter_empty may legitimately say 'not empty' when no *probe* matches but some other name
  could: only for co-finite results, which always match the fresh probes, so never hidden."""
  return False


def check_empty_all(ctx, drv, filters, probes):
  reqs = [('empty', [lf_json(f)]) for f in filters] + [('in', [lf_json(f), probes]) for f in filters]
  outs = drv.run(reqs)
  n = len(filters)
  for i, f in enumerate(filters):
    j = lf_json(f)
    emp = call(scope.is_filter_empty, f)
    ins = [call(scope.in_filter, f, c)[1] for c in probes]
    case = {'kind': 'linen-empty', 'f': j, 'probes': probes}
    if ins != [ref_in(j, c) for c in probes]:
      ctx.violation('linen-in_filter-wrong', f'in_filter({j!r}, c) over {probes} = {ins}, differs from "True / equal / contained / not denied"', dict(case, got=ins))
      continue
    ctx.case(case, nontrivial=not isinstance(j, bool))
    ctx.count('linen_empty_depth', _depth(j))
    if emp != ('ok', not any(ins)):
      ctx.violation('linen-empty-wrong' + ('-nested-deny' if _depth(j) >= 2 else ''), f'is_filter_empty({j!r}) = {emp} but membership over {probes} is {ins}', dict(case, empty=emp, ins=ins))
    elif outs[i] != emp or outs[n + i] != ('ok', ins):
      ctx.disagreements_checked += 1
      ctx.violation('linen-empty-model-mismatch', f'model/impl differ on emptiness/membership of {j!r}: impl {emp} {ins}, model {outs[i]} {outs[n+i]}', case, concrete=False)


def check_groups(ctx, drv, cases):
  reqs = []
  impl = []
  for cols, fs in cases:
    xs = {c: {'v': i} for i, c in enumerate(cols)}
    r = call(scope.group_collections, xs, fs)
    impl.append(r)
    reqs.append(('group', [cols, [lf_json(f) for f in fs]]))
  outs = drv.run(reqs)
  for (cols, fs), r, m in zip(cases, impl, outs):
    case = {'kind': 'linen-group', 'cols': cols, 'filters': [lf_json(f) for f in fs]}
    ctx.case(case, nontrivial=len(fs) >= 2)
    ctx.count('group_nfilters', len(fs))
    if r[0] != 'ok':
      ctx.violation('linen-group-raises', f'group_collections raised {r[1]} on {case}', case)
      continue
    groups = [list(g.keys()) for g in r[1]]
    # property oracle: first-match partition
    want = [[] for _ in fs]
    for c in cols:
      for i, f in enumerate(fs):
        if scope.in_filter(f, c):
          want[i].append(c)
          break
    vals_ok = all(g[c] == {'v': cols.index(c)} for g in r[1] for c in g)
    if [sorted(g) for g in groups] != [sorted(g) for g in want] or len(groups) != len(fs) or not vals_ok:
      ctx.violation('linen-group-not-first-match', f'group_collections{case} = {groups}, first-match partition is {want}', dict(case, got=groups, want=want))
    elif m != ('ok', groups):
      if m[0] == 'ok' and [sorted(g) for g in m[1]] == [sorted(g) for g in groups]:
        continue  # key order inside a group is not part of the property
      ctx.disagreements_checked += 1
      ctx.violation('linen-group-model-mismatch', f'model {m} vs impl {groups} on {case}', case, concrete=False)


# ------------------------------------------------------------------------------------------------
# NNX side
# ------------------------------------------------------------------------------------------------


class MyParam(nnx.Param):
  pass


VTYPES = {'Param': nnx.Param, 'BatchStat': nnx.BatchStat, 'MyParam': MyParam, 'Variable': nnx.Variable, 'Cache': nnx.Cache}
TAGS = ['x', 'y']
KEYS = ['a', 'b', 'w']


def enc_key(k):
  return ('#%d' % k) if isinstance(k, int) else ('$' + k)


def info_of(v):
  t = type(v)
  names = [c.__name__ for c in t.__mro__]
  if hasattr(v, 'type') and isinstance(getattr(v, 'type'), type):
    names += [c.__name__ for c in v.type.__mro__]
  return {'types': names, 'tag': getattr(v, 'tag') if hasattr(v, 'tag') else None}


def nf_python(j):
  """JSON NFilter -> a real flax filter object (explicit predicate classes)."""
  if j == 'everything':
    return filterlib.Everything()
  if j == 'nothing':
    return filterlib.Nothing()
  if 'tag' in j:
    return filterlib.WithTag(j['tag'])
  if 'type' in j:
    return filterlib.OfType(VTYPES[j['type']])
  if 'contains' in j:
    return filterlib.PathContains(dec_key(j['contains']))
  if 'pathin' in j:
    return filterlib.PathIn(*[tuple(dec_key(k) for k in p) for p in j['pathin']])
  if 'any' in j:
    return filterlib.Any(*[nf_python(x) for x in j['any']])
  if 'all' in j:
    return filterlib.All(*[nf_python(x) for x in j['all']])
  if 'not' in j:
    return filterlib.Not(nf_python(j['not']))
  raise ValueError(j)


def nf_python_sugar(j, rng):
  """Same filter through the literal forms accepted by to_predicate (str, type, bool, ..., None, list/tuple)."""
  if j == 'everything':
    return rng.choice([True, ...])
  if j == 'nothing':
    return rng.choice([False, None])
  if 'tag' in j:
    return j['tag']
  if 'type' in j:
    return VTYPES[j['type']]
  if 'any' in j:
    xs = [nf_python_sugar(x, rng) for x in j['any']]
    return rng.choice([list, tuple])(xs)
  if 'all' in j:
    return filterlib.All(*[nf_python_sugar(x, rng) for x in j['all']])
  if 'not' in j:
    return filterlib.Not(nf_python_sugar(j['not'], rng))
  return nf_python(j)


def dec_key(s):
  return int(s[1:]) if s.startswith('#') else s[1:]


def nf_atoms(paths):
  atoms = ['everything', 'nothing']
  atoms += [{'tag': t} for t in TAGS]
  atoms += [{'type': t} for t in ['Param', 'BatchStat', 'MyParam', 'Variable']]
  atoms += [{'contains': enc_key(k)} for k in ['a', 'w', 0]]
  atoms += [{'pathin': [list(p) for p in ps]} for ps in ([paths[0]], paths[1:3], [])]
  return atoms


def nf_level(prev, rng=None, cap=None):
  out = []
  for f in prev:
    out.append({'not': f})
  pairs = list(itertools.product(prev, prev))
  if cap and len(pairs) > cap:
    pairs = rng.sample(pairs, cap)
  for f, g in pairs:
    out.append({'any': [f, g]})
    out.append({'all': [f, g]})
  out.append({'any': []})
  out.append({'all': []})
  return out


def make_items(rng=None):
  """Real Variables / VariableStates at paths; returns (items_json, objects)."""
  objs = []
  paths = [('a', 'w'), ('a', 'b'), ('b', 0, 'w'), ('w',), ('c', 1)]
  protos = [
    lambda: nnx.Param(1),
    lambda: nnx.Param(2, tag='x'),
    lambda: nnx.BatchStat(3, tag='y'),
    lambda: MyParam(4),
    lambda: nnx.Cache(5, tag='x'),
    lambda: nnx.Param(6).to_state(),
    lambda: MyParam(7, tag='y').to_state(),
  ]
  for i, mk in enumerate(protos):
    p = paths[i % len(paths)] if rng is None else rng.choice(paths)
    objs.append((p, mk()))
  return objs, [tuple(enc_key(k) for k in p) for p in paths]


def check_nnx_denote(ctx, drv, filters, objs, sugar_rng=None):
  items_j = [[[enc_key(k) for k in p], info_of(v)] for p, v in objs]
  reqs = [('nnx_denote', [f, items_j]) for f in filters]
  outs = drv.run(reqs)
  for f, m in zip(filters, outs):
    case = {'kind': 'nnx-denote', 'filter': f}
    ctx.case(case, nontrivial=isinstance(f, dict))
    ctx.count('nnx_filter_head', next(iter(f)) if isinstance(f, dict) else f)
    variants = [nf_python(f)]
    if sugar_rng is not None:
      variants.append(nf_python_sugar(f, sugar_rng))
    for pf in variants:
      r = call(lambda: [bool(filterlib.to_predicate(pf)(p, v)) for p, v in objs])
      want = call(lambda: [_nnx_oracle(f, p, v) for p, v in objs])
      if r != want:
        ctx.violation('nnx-denote-wrong', f'to_predicate({f}) gives {r}, predicate combination gives {want}', dict(case, got=r, want=want))
        break
      if m != r:
        ctx.disagreements_checked += 1
        ctx.violation('nnx-denote-model-mismatch', f'model {m} vs impl {r} on {f}', case, concrete=False)
        break


def _nnx_oracle(j, path, v):
  """Independent reading of the documented meaning of each filter form."""
  if j == 'everything':
    return True
  if j == 'nothing':
    return False
  if 'tag' in j:
    return hasattr(v, 'tag') and v.tag == j['tag']
  if 'type' in j:
    t = VTYPES[j['type']]
    return isinstance(v, t) or (hasattr(v, 'type') and isinstance(v.type, type) and issubclass(v.type, t))
  if 'contains' in j:
    return dec_key(j['contains']) in path
  if 'pathin' in j:
    return tuple(path) in {tuple(dec_key(k) for k in p) for p in j['pathin']}
  if 'any' in j:
    return any(_nnx_oracle(x, path, v) for x in j['any'])
  if 'all' in j:
    return all(_nnx_oracle(x, path, v) for x in j['all'])
  if 'not' in j:
    return not _nnx_oracle(j['not'], path, v)
  raise ValueError(j)


def build_state(objs):
  flat = {}
  for i, (p, v) in enumerate(objs):
    p = tuple(p) + (f'v{i}',)  # make paths unique, keep the interesting keys inside
    flat[p] = v if isinstance(v, nnx.VariableState) else v.to_state()
  return nnx.State.from_flat_path(flat), flat


def check_nnx_split(ctx, drv, filter_lists, objs):
  state, flat = build_state(objs)
  paths = sorted(flat.keys(), key=lambda p: tuple(str(k) for k in p))
  items = [(p, flat[p]) for p in flat]
  items_j = [[[enc_key(k) for k in p], info_of(v)] for p, v in items]
  reqs = [('nnx_split', [fs, items_j]) for fs in filter_lists]
  outs = drv.run(reqs)
  for fs, m in zip(filter_lists, outs):
    case = {'kind': 'nnx-split', 'filters': fs}
    ctx.case(case, nontrivial=len(fs) >= 2)
    ctx.count('nnx_split_nfilters', len(fs))
    pfs = [nf_python(f) for f in fs]
    want = []
    for p, v in items:
      idx = len(fs)
      for i, f in enumerate(fs):
        if _nnx_oracle(f, p, v):
          idx = i
          break
      want.append(idx)
    exhaustive = all(i < len(fs) for i in want)
    # State.split: must be exhaustive, otherwise raises
    r = call(lambda: statelib.split_state(state, *pfs))
    if exhaustive:
      if r[0] != 'ok':
        ctx.violation('nnx-split-raises', f'split_state raised {r[1]} on exhaustive filters {fs}', case)
        continue
      states = [r[1]] if len(fs) == 1 else list(r[1])
      got = _bucket_index(states, items)
      if got != want:
        ctx.violation('nnx-split-not-first-match', f'split_state{fs}: item buckets {got}, first-match partition {want}', dict(case, got=got, want=want))
        continue
    else:
      if r[0] == 'ok':
        ctx.violation('nnx-split-lossy', f'split_state accepted non-exhaustive filters {fs} (items would be lost)', case)
        continue
    # State.filter: non-exhaustive allowed; unmatched dropped
    r2 = call(lambda: statelib.filter_state(state, *pfs))
    if r2[0] != 'ok':
      ctx.violation('nnx-filter-raises', f'filter_state raised {r2[1]} on {fs}', case)
      continue
    states2 = [r2[1]] if len(fs) == 1 else list(r2[1])
    got2 = _bucket_index(states2, items, default=len(fs))
    if got2 != want:
      ctx.violation('nnx-filter-not-first-match', f'filter_state{fs}: buckets {got2}, want {want}', dict(case, got=got2, want=want))
      continue
    if m != ('ok', want):
      ctx.disagreements_checked += 1
      ctx.violation('nnx-split-model-mismatch', f'model {m} vs impl {want} on {fs}', case, concrete=False)


def _bucket_index(states, items, default=None):
  flats = [dict(statelib.to_flat_state(s)) if hasattr(statelib, 'to_flat_state') else s.flat_state() for s in states]
  out = []
  for p, v in items:
    where = [i for i, fl in enumerate(flats) if p in fl]
    if len(where) == 0:
      out.append(default)
    elif len(where) == 1:
      out.append(where[0])
    else:
      out.append(('dup', where))
  return out


def check_ellipsis(ctx, drv, n):
  combos = [list(c) for k in range(1, n + 1) for c in itertools.product([False, True], repeat=k)]
  outs = drv.run([('ellipsis_ok', [c]) for c in combos])
  for c, m in zip(combos, outs):
    fs = [(... if (i % 2 == 0) else True) if e else nnx.Param for i, e in enumerate(c)]
    r = call(filterlib.filters_to_predicates, fs)
    ok = r[0] == 'ok'
    want = all(not (c[i] and not c[j]) for i in range(len(c)) for j in range(i + 1, len(c)))
    case = {'kind': 'nnx-ellipsis', 'pattern': c}
    ctx.case(case, nontrivial=len(c) >= 2)
    if ok != want:
      ctx.violation('nnx-ellipsis-rule', f'filters_to_predicates accepted={ok} for pattern {c}, rule says {want}', case)
    elif m != ('ok', ok):
      ctx.disagreements_checked += 1
      ctx.violation('nnx-ellipsis-model-mismatch', f'model {m} vs impl {ok} on {c}', case, concrete=False)


def check_nnx_graph_split(ctx, rng, n):
  """nnx.split on a real module: loses and duplicates nothing (property oracle on the public API)."""
  for _ in range(n):
    class M(nnx.Module):
      pass

    m = M()
    m.a = M()
    m.a.w = nnx.Param(1)
    m.a.b = nnx.Param(2, tag='x')
    m.s = nnx.BatchStat(3, tag='y')
    m.c = nnx.Cache(4)
    m.q = MyParam(5)
    atoms = [{'type': 'Param'}, {'type': 'BatchStat'}, {'tag': 'x'}, {'tag': 'y'}, {'type': 'MyParam'}, {'contains': '$a'}, {'not': {'type': 'Param'}}]
    k = rng.randrange(1, 4)
    fs = [rng.choice(atoms) for _ in range(k)] + ['everything']
    case = {'kind': 'nnx-graph-split', 'filters': fs}
    ctx.case(case)
    r = call(lambda: nnx.split(m, *[nf_python(f) for f in fs]))
    if r[0] != 'ok':
      ctx.violation('nnx-graph-split-raises', f'nnx.split raised {r[1]} with {fs}', case)
      continue
    states = list(r[1][1:])
    full = dict(statelib.to_flat_state(nnx.state(m)))
    items = list(full.items())
    got = _bucket_index(states, items)
    want = []
    for p, v in items:
      want.append(next(i for i, f in enumerate(fs) if _nnx_oracle(f, p, v)))
    if got != want:
      ctx.violation('nnx-graph-split-not-first-match', f'nnx.split{fs}: {got} vs first-match {want}', dict(case, got=got, want=want))
      continue
    m2 = call(lambda: nnx.merge(r[1][0], *reversed(states)))
    if m2[0] != 'ok' or dict((p, v.value) for p, v in statelib.to_flat_state(nnx.state(m2[1]))) != dict((p, v.value) for p, v in items):
      ctx.violation('nnx-graph-merge-any-order', f'merging the split states in reverse order does not rebuild the state ({fs})', case)


# ------------------------------------------------------------------------------------------------
# NNX literal forms (str, class, bool, ..., None, list/tuple, Any/All/Not over literals): to_predicate and
# filters_to_predicates themselves are modelled (SFilter / toPredicate / filtersToPredicates)
# ------------------------------------------------------------------------------------------------


def lit_python(j):
  if j is None or isinstance(j, bool):
    return j
  if j == 'ellipsis':
    return ...
  if 'str' in j:
    return j['str']
  if 'type' in j:
    return VTYPES[j['type']]
  if 'seq' in j:
    xs = [lit_python(x) for x in j['seq']]
    return tuple(xs) if j.get('tuple') else xs
  if 'any' in j:
    return filterlib.Any(*[lit_python(x) for x in j['any']])
  if 'all' in j:
    return filterlib.All(*[lit_python(x) for x in j['all']])
  if 'not' in j:
    return filterlib.Not(lit_python(j['not']))
  if 'pred' in j:
    return nf_python(j['pred'])
  raise ValueError(j)


def _lit_oracle(j, path, v):
  """What each literal form is documented to mean, read independently of to_predicate."""
  if j is None:
    return False
  if isinstance(j, bool):
    return j
  if j == 'ellipsis':
    return True
  if 'str' in j:
    return hasattr(v, 'tag') and v.tag == j['str']
  if 'type' in j:
    return _nnx_oracle({'type': j['type']}, path, v)
  if 'seq' in j:
    return any(_lit_oracle(x, path, v) for x in j['seq'])
  if 'any' in j:
    return any(_lit_oracle(x, path, v) for x in j['any'])
  if 'all' in j:
    return all(_lit_oracle(x, path, v) for x in j['all'])
  if 'not' in j:
    return not _lit_oracle(j['not'], path, v)
  if 'pred' in j:
    return _nnx_oracle(j['pred'], path, v)
  raise ValueError(j)


def _is_catch_all(j):
  return j is True or j == 'ellipsis'


def random_literal(rng, atoms, depth):
  r = rng.random()
  if depth <= 0 or r < 0.45:
    k = rng.randrange(8)
    if k == 0:
      return {'str': rng.choice(TAGS + ['zz'])}
    if k == 1:
      return {'type': rng.choice(['Param', 'BatchStat', 'MyParam', 'Variable', 'Cache'])}
    if k == 2:
      return rng.choice([True, False])
    if k == 3:
      return 'ellipsis'
    if k == 4:
      return None
    if k == 5:
      return {'pred': rng.choice(atoms)}
    return {'str': rng.choice(TAGS)} if k == 6 else {'type': rng.choice(['Param', 'BatchStat'])}
  n = rng.choice([0, 1, 2, 2, 3])
  kids = [random_literal(rng, atoms, depth - 1) for _ in range(n)]
  if r < 0.70:
    return {'seq': kids, 'tuple': rng.random() < 0.5}
  if r < 0.80:
    return {'any': kids}
  if r < 0.90:
    return {'all': kids}
  return {'not': random_literal(rng, atoms, depth - 1)}


def check_lit_denote(ctx, drv, lits, objs):
  items_j = [[[enc_key(k) for k in p], info_of(v)] for p, v in objs]
  outs = drv.run([('lit_denote', [f, items_j]) for f in lits])
  for f, m in zip(lits, outs):
    case = {'kind': 'nnx-literal', 'filter': f}
    ctx.case(case, nontrivial=isinstance(f, dict))
    ctx.count('nnx_literal_head', next(iter(f)) if isinstance(f, dict) else repr(f))
    r = call(lambda: [bool(filterlib.to_predicate(lit_python(f))(p, v)) for p, v in objs])
    want = ('ok', [_lit_oracle(f, p, v) for p, v in objs])
    if r != want:
      ctx.violation('nnx-literal-wrong', f'to_predicate of literal {f} gives {r}, the literal stands for {want}', dict(case, got=r, want=want))
      continue
    if m != r:
      ctx.disagreements_checked += 1
      ctx.violation('nnx-literal-model-mismatch', f'model {m} vs impl {r} on literal {f}', case, concrete=False)


def check_lit_split(ctx, drv, lit_lists, objs):
  state, flat = build_state(objs)
  items = [(p, flat[p]) for p in flat]
  items_j = [[[enc_key(k) for k in p], info_of(v)] for p, v in items]
  outs = drv.run([('lit_split', [fs, items_j]) for fs in lit_lists])
  for fs, m in zip(lit_lists, outs):
    case = {'kind': 'nnx-literal-split', 'filters': fs}
    ctx.case(case, nontrivial=len(fs) >= 2)
    ctx.count('nnx_literal_split_nfilters', len(fs))
    ca = [_is_catch_all(f) for f in fs]
    order_ok = all(all(ca[i + 1 :]) for i in range(len(fs)) if ca[i])
    ctx.count('nnx_literal_split_shape', 'catchall-misplaced' if not order_ok else ('trailing-catchalls=%d' % sum(ca)))
    want = []
    for p, v in items:
      idx = len(fs)
      for i, f in enumerate(fs):
        if _lit_oracle(f, p, v):
          idx = i
          break
      want.append(idx)
    exhaustive = all(i < len(fs) for i in want)
    pfs = [lit_python(f) for f in fs]
    r = call(lambda: statelib.split_state(state, *pfs))
    r2 = call(lambda: statelib.filter_state(state, *pfs))
    if not order_ok:
      # the `...`-must-be-last rule: both entry points refuse
      if r[0] == 'ok' or r2[0] == 'ok':
        ctx.violation('nnx-literal-ellipsis-rule', f'split/filter accepted {fs} although a ... / True is followed by another filter', case)
        continue
      mwant = ('ok', 'ValueError')
    else:
      if exhaustive:
        if r[0] != 'ok':
          ctx.violation('nnx-literal-split-raises', f'split_state raised {r[1]} on exhaustive literal filters {fs}', case)
          continue
        got = _bucket_index([r[1]] if len(fs) == 1 else list(r[1]), items)
        if got != want:
          ctx.violation('nnx-literal-split-not-first-match', f'split_state{fs}: item buckets {got}, first-match partition {want}', dict(case, got=got, want=want))
          continue
      elif r[0] == 'ok':
        ctx.violation('nnx-literal-split-lossy', f'split_state accepted non-exhaustive literal filters {fs}', case)
        continue
      if r2[0] != 'ok':
        ctx.violation('nnx-literal-filter-raises', f'filter_state raised {r2[1]} on {fs}', case)
        continue
      got2 = _bucket_index([r2[1]] if len(fs) == 1 else list(r2[1]), items, default=len(fs))
      if got2 != want:
        ctx.violation('nnx-literal-filter-not-first-match', f'filter_state{fs}: buckets {got2}, want {want}', dict(case, got=got2, want=want))
        continue
      mwant = ('ok', want)
    if m != mwant:
      ctx.disagreements_checked += 1
      ctx.violation('nnx-literal-split-model-mismatch', f'model {m} vs impl {mwant} on {fs}', case, concrete=False)

# ------------------------------------------------------------------------------------------------
# entry points
# ------------------------------------------------------------------------------------------------


def run(ctx):
  drv = LeanDriver('drv_c14')
  thorough = ctx.tier == 'thorough'
  rng = ctx.rng
  names = ['a', 'b', 'c']
  probes = names + ['zz', 'params_' + str(rng.randrange(10**6))]

  # corpus first
  for fn, obj in load_corpus('C14'):
    ctx.corpus_replayed += 1
    _run_case(ctx, drv, obj)

  # exhaustive small scope
  depth = 3 if not thorough else 4
  fs = all_filters(names, depth)
  ctx.extra['exhaustive_scope'] = f'all {len(fs)} Linen filters of deny-depth<={depth} over {names}; all {len(fs)**2} ordered pairs x 3 ops'
  check_empty_all(ctx, drv, fs, probes)
  pairs = list(itertools.product(fs, fs))
  for i in range(0, len(pairs), 2000):
    check_pair_batch(ctx, drv, pairs[i : i + 2000], probes, 'exh')
  # random: other syntactic forms, deeper nesting, more names
  names2 = names + ['params', 'params_axes', 'batch_stats', 'stats', 'cache', '']
  n_rand = 1500 if not thorough else 20000
  rp = [(random_filter(rng, names2, 6), random_filter(rng, names2, 6)) for _ in range(n_rand)]
  probes2 = names2 + ['zz', 'fresh_' + str(rng.randrange(10**6))]
  for i in range(0, len(rp), 2000):
    check_pair_batch(ctx, drv, rp[i : i + 2000], probes2, 'rand')
  check_empty_all(ctx, drv, [random_filter(rng, names2, 7) for _ in range(n_rand)], probes2)
  # groups
  small = all_filters(['a', 'b'], 2)
  lists = [list(c) for k in range(0, 3) for c in itertools.product(small, repeat=k)]
  if not thorough:
    lists = lists[:1] + rng.sample(lists[1:], 600)
  gcases = [(['a', 'b', 'c', 'zz'], fl) for fl in lists]
  gcases += [
    (rng.sample(names2, rng.randrange(0, len(names2) + 1)), [random_filter(rng, names2, 3) for _ in range(rng.randrange(0, 5))])
    for _ in range(600 if not thorough else 8000)
  ]
  check_groups(ctx, drv, gcases)
  # invalid filters raise (error half of the property's domain)
  for bad in (3, 1.5, None, object()):
    for fn in (scope.in_filter, scope.is_filter_empty):
      r = call(fn, *((bad, 'a') if fn is scope.in_filter else (bad,)))
      ctx.case({'kind': 'linen-invalid', 'bad': repr(type(bad)), 'fn': fn.__name__})
      ctx.count('malformed', 'invalid-filter')
      if r != ('err', 'InvalidFilter'):
        ctx.violation('linen-invalid-filter-accepted', f'{fn.__name__}({bad!r}) returned {r} instead of raising InvalidFilterError', {'bad': repr(bad)})

  # NNX
  objs, paths = make_items()
  atoms = nf_atoms(paths)
  l1 = nf_level(atoms)
  filters = atoms + l1
  if thorough:
    filters += nf_level(l1, rng, cap=6000)
  else:
    filters += nf_level(l1, rng, cap=700)
  check_nnx_denote(ctx, drv, filters, objs, sugar_rng=rng)
  pool = atoms + rng.sample(l1, 60)
  flists = [[f] for f in pool] + [list(c) for c in itertools.product(atoms, repeat=2)]
  flists += [[rng.choice(pool) for _ in range(rng.randrange(2, 5))] for _ in range(500 if not thorough else 6000)]
  flists += [fl + ['everything'] for fl in rng.sample(flists, 200)]
  check_nnx_split(ctx, drv, flists, objs)
  check_ellipsis(ctx, drv, 4 if not thorough else 6)
  # literal forms through to_predicate / filters_to_predicates
  lits = [True, False, None, 'ellipsis', {'seq': [], 'tuple': False}, {'seq': [], 'tuple': True}]
  lits += [random_literal(rng, atoms, 4) for _ in range(1200 if not thorough else 15000)]
  check_lit_denote(ctx, drv, lits, objs)
  lpool = [l for l in lits if not _is_catch_all(l)]
  llists = []
  for _ in range(500 if not thorough else 6000):
    body = [rng.choice(lpool) for _ in range(rng.randrange(0, 4))]
    tail = [rng.choice([True, 'ellipsis']) for _ in range(rng.choice([0, 1, 1, 2, 3]))]
    fl = body + tail
    if fl and rng.random() < 0.2:  # misplace a catch-all
      fl.insert(rng.randrange(len(fl)), rng.choice([True, 'ellipsis']))
    if fl:
      llists.append(fl)
  # systematic: every ordered pair / triple of plain class and tag literals (overlapping classes in both orders:
  # Variable > Param > MyParam), with and without a trailing catch-all
  plain = [{'type': t} for t in ['Param', 'BatchStat', 'MyParam', 'Variable', 'Cache']] + [{'str': t} for t in TAGS]
  for k in (2, 3):
    for c in itertools.product(plain, repeat=k):
      llists.append(list(c))
      llists.append(list(c) + [rng.choice([True, 'ellipsis'])])
  check_lit_split(ctx, drv, llists, objs)
  check_nnx_graph_split(ctx, rng, 40 if not thorough else 400)

  ctx.sample({'kind': 'linen-pair', 'a': lf_json(pairs[len(pairs) // 2][0]), 'b': lf_json(pairs[len(pairs) // 2][1]), 'probes': probes})
  ctx.sample({'kind': 'linen-pair-random', 'a': lf_json(rp[0][0]), 'b': lf_json(rp[0][1])})
  ctx.sample({'kind': 'linen-group', 'cols': gcases[-1][0], 'filters': [lf_json(f) for f in gcases[-1][1]]})
  ctx.sample({'kind': 'nnx-denote', 'filter': filters[-1]})
  ctx.sample({'kind': 'nnx-split', 'filters': flists[-1]})
  ctx.extra['exhaustive'] = False
  ctx.extra['driver_calls'] = drv.calls


def lf_from_json(j):
  if isinstance(j, dict):
    return scope.DenyList(lf_from_json(j['deny']))
  return j


def _run_case(ctx, drv, obj):
  case = obj.get('case', obj)
  kind = case.get('kind')
  if kind in ('linen-pair',):
    check_pair_batch(ctx, drv, [(lf_from_json(case['a']), lf_from_json(case['b']))], case.get('probes', ['a', 'b', 'c', 'zz']), 'replay')
  elif kind == 'linen-empty':
    check_empty_all(ctx, drv, [lf_from_json(case['f'])], case.get('probes', ['a', 'b', 'c', 'zz']))
  elif kind == 'linen-group':
    check_groups(ctx, drv, [(case['cols'], [lf_from_json(f) for f in case['filters']])])
  elif kind == 'nnx-denote':
    objs, _ = make_items()
    check_nnx_denote(ctx, drv, [case['filter']], objs)
  elif kind == 'nnx-split':
    objs, _ = make_items()
    check_nnx_split(ctx, drv, [case['filters']], objs)
  elif kind == 'nnx-ellipsis':
    check_ellipsis(ctx, drv, 6)
  elif kind == 'nnx-literal':
    objs, _ = make_items()
    check_lit_denote(ctx, drv, [case['filter']], objs)
  elif kind == 'nnx-literal-split':
    objs, _ = make_items()
    check_lit_split(ctx, drv, [case['filters']], objs)
  else:
    ctx.notes.append(f'unknown corpus case kind {kind}')


def replay(ctx, obj):
  drv = LeanDriver('drv_c14')
  _run_case(ctx, drv, obj)
  for v in ctx.violations:
    print('  ', v['key'], '-', v['what'][:300])
  return bool(ctx.violations)
