"""C06 — Lifted scan and vmap equal the explicit loop and the per-example stack.

Theorems: lean/Flax/Props/C06.lean over lean/Flax/Model/LiftLoop.lean.
Correspondence (three voices per configuration):
  * implementation: real `nn.scan` / `nn.vmap` / `nn.remat_scan` (Linen, top-level module) or
    `flax.core.lift.scan` / `lift.vmap` / `lift.remat_scan` (scope functions) from /repo;
  * property oracle: a hand-written Python loop over `np.take(a, i, axis)` slices that calls the
    UNTRANSFORMED module once per index and stacks the results (no lifting involved);
  * model: the compiled Lean driver `drv_c06` running the same body program symbolically.
Everything is integer valued (int32, compared modulo 2**32) or PRNG key data (compared to keys recomputed
independently with `jax.random.split`); only values are compared, never internals, messages or key order.
"""
from __future__ import annotations

import copy
import itertools
import json

from harness import compat  # noqa: F401  (must precede flax)
from harness.common import LeanDriver, load_corpus, InfraError

import numpy as np
import jax
import jax.numpy as jnp
import flax.linen as nn
from flax import core as flax_core
from flax.core import lift, axes_scan
from flax.core.scope import DenyList

SPEC = {
  'exes': ['drv_c06'],
  'rule': (
    'one case = (transform in {scan, vmap, remat_scan}) x (Linen module | core scope function) x generated '
    'integer loop-body program (variables in up to 4 collections, counters / running sums / element-wise '
    'Dense-like updates, make_rng returned as key data) x collection->role assignment through overlapping '
    'filters (broadcast / carry / axis with In/Out) x axis in [-rank, rank) x length 1..5 x reverse x unroll in '
    '{1,2,length} x in/out axes prefix trees (uniform / per-argument / broadcast) x split flags x scope '
    'mutability; plus every (rank<=3, in axis, out axis) through axes_scan.scan. A case is non-trivial when the '
    'loop has >=2 iterations or >=1 lifted collection; distinct = distinct canonical JSON of the case.'
  ),
  'trusted_base': [
    'hand-written Lean model lean/Flax/Model/LiftLoop.lean (tied to /repo by this correspondence run)',
    'harness/props/c06.py (generators, DSL->module compiler, Python-loop oracle, canonicalisation), harness/compat.py (JAX shim)',
    'A-SCAN: lax.scan = left fold with stacking, reverse = reversed index order with outputs in index order, unroll irrelevant, carry structure checked',
    'A-VMAP: jax.vmap = one call per index with in_axes slicing / out_axes stacking, out_axes=None requires an unbatched result',
    'A-RNG: random.split is collision free (keys are free terms); A-CONV: jnp.transpose / take / stack meet their index-level meaning (checked exhaustively for rank<=3 on every run)',
    'A-REMAT: lift.remat is semantically the identity',
  ],
  'assumptions': [
    'length >= 1 (an empty loop is outside the modelled domain)',
    'the constancy check of the broadcast pass and jax.vmap unbatchedness are modelled by their verdict only; when they pass, the constants are the body outputs on the first iteration inputs',
    'single scope, collections hold flat name->array dicts (no nested modules inside the loop body), AxisMetadata boxes are outside the Lean model (Partitioned.add_axis / remove_axis are theorems of C19); a small oracle-only family checks that the body sees the names of the slice and the re-stacked collection the original names, data_transform / _split_transpose not modelled; check_constancy_invariants=False (simple_scan_fn) is modelled: broadcast collections are inputs only there',
    'PRNG counters (fold_in of the per-scope draw counter) are C09; here a key is identified with the stream key it was folded from',
    'lifting over several scopes (a body Module holding bound sub-Modules passed in from outside the lift: get_module_scopes / set_module_scopes / _dedup_scopes) is outside the single-scope Lean model; it is checked against the property oracle only (explicit per-step application of the unlifted body on the same variables)',
  ],
  'model_partial': [
    'remat_scan_eq_nested_loops_partial: proved (a) lift.remat_scan = the NEST of explicit loops, one per entry of lengths; (b) nested_loops_eq_flat_loop: a nest of threaded loops = ONE flat loop of prod(lengths) iterations in row-major multi-index order; '
    '(c) remat_scan_eq_flat_loop_carry_only: (a)+(b) glued into ONE flat loop for configurations that lift no axis and no broadcast collection (variable_axes={}, variable_broadcast=False; any carry filter, split_rngs, lengths>0, body), with the scope plumbing between levels proved to be the identity; '
    '(d) the plumbing identities in general form: regroup_after_merge_identity, publish_refilter_identity (structure-preserving groups), nested_stack_slice. '
    'Not proved: the general remat_scan_eq_flat_loop with AXIS collections (needs dict equality up to key order or the hypothesis that the body keeps the variable names of every axis collection; In/Out-restricted axes) and with BROADCAST collections (needs the hypothesis that the per-level broadcast pass is idempotent: the body\'s broadcast outputs on an initialised scope are that scope\'s broadcast collections). Those cases are tied by the correspondence run (flat-loop oracle) only.',
    'scan_eq_loop / vmap_eq_map compare success and result (scan_eq_loop for both values of check_constancy_invariants); the error side is proved, for check_constancy_invariants=True, for the errors flax itself raises (scan_error_classes, scan_length_errors_iff, scan_broadcast_dependency_iff, unmapped_output_never, vmap_axis_size_inference, under the hypothesis that the body raises only its own errors). '
    'Which FOREIGN class is raised (JAX: axis out of range / transposition / lax.scan or jax.vmap size mismatch or nothing to scan / carry structure / unbatched output expected; the body: ModifyScopeVariableError, ScopeCollectionNotFound, InvalidRngError ...) is tied by the correspondence run only.',
  ],
}

M32 = 1 << 32


def wrap(v):
  v = int(v) % M32
  return v - M32 if v >= (1 << 31) else v


# ------------------------------------------------------------------------------------------------
# JSON <-> python values
# ------------------------------------------------------------------------------------------------


def arr_np(j):
  return np.array(j['d'], dtype=np.int64).reshape(j['s']).astype(np.int32)


def arr_json(a):
  a = np.asarray(a)
  return {'s': [int(x) for x in a.shape], 'd': [wrap(v) for v in a.reshape(-1).tolist()]}


def canon_arr(j):
  """canonical form of an array JSON coming from the model: ints wrapped to int32, keys kept symbolic"""
  return {'s': list(j['s']), 'd': [wrap(v) if isinstance(v, int) else v for v in j['d']]}


def py_filter(j):
  """JSON filter -> the Python object handed to flax"""
  if isinstance(j, bool) or isinstance(j, str):
    return j
  if isinstance(j, dict):
    return DenyList(py_filter(j['deny']))
  return tuple(j)


def in_filter(j, name):
  """independent reading of filter membership (the oracle must not lean on flax.core.scope)"""
  if isinstance(j, bool):
    return j
  if isinstance(j, str):
    return name == j
  if isinstance(j, dict):
    return not in_filter(j['deny'], name)
  return name in j


def first_role(filters, name):
  for i, f in enumerate(filters):
    if in_filter(f, name):
      return i
  return None


def vars_py(outer):
  return {col: {n: jnp.asarray(arr_np(a)) for n, a in cc} for col, cc in outer}


def vars_canon(d):
  """{col: {name: array}} -> canonical sorted JSON, empty collections dropped"""
  out = {}
  for col in sorted(d):
    cc = d[col]
    if len(cc) == 0:
      continue
    out[col] = {n: arr_json(cc[n]) for n in sorted(cc)}
  return out


def model_vars_canon(pairs):
  out = {}
  for col, cc in pairs:
    if len(cc) == 0:
      continue
    out[col] = {n: canon_arr(a) for n, a in cc}
  return {c: {n: out[c][n] for n in sorted(out[c])} for c in sorted(out)}


BROADCAST = 'B'  # JSON spelling of axes_scan.broadcast / None in per-argument axes


def axes_py_scan(t):
  if isinstance(t, list):
    return tuple(axes_scan.broadcast if a is None else a for a in t)
  return axes_scan.broadcast if t is None else t


def axes_py_vmap(t):
  if isinstance(t, list):
    return tuple(t)
  return t


def axes_expand(t, k):
  return list(t) if isinstance(t, list) else [t] * k


# ------------------------------------------------------------------------------------------------
# loop-body DSL -> a function of a scope-like adapter (Linen module or core Scope)
# ------------------------------------------------------------------------------------------------


class KeyVal:
  """a PRNG key drawn by the body, with the stream it finally came from (after the 'params' fallback)"""

  def __init__(self, key, stream):
    self.key = key
    self.stream = stream


class Adapter:
  """uniform view of `nn.Module` (self.variable / self.make_rng / self.has_rng) and `flax.core.Scope`"""

  def __init__(self, target, offsets=None):
    self.t = target
    self.offsets = dict(offsets or {})
    self.done = set()

  def variable(self, col, name, init_fn):
    return self.t.variable(col, name, init_fn)

  def has_rng(self, stream):
    return self.t.has_rng(stream)

  def make_rng(self, stream):
    eff = stream if self.has_rng(stream) else 'params'
    if eff not in self.done:
      self.done.add(eff)
      for _ in range(self.offsets.get(eff, 0)):
        self.t.make_rng(eff)
    return KeyVal(self.t.make_rng(stream), eff)


def run_prog(prog, sc, c, xs):
  shape = tuple(prog['shape'])
  regs = {}
  vobjs = {}

  def ev(e):
    t = e[0]
    if t == 'c':
      return c[e[1]]
    if t == 'x':
      return xs[e[1]]
    if t == 'r':
      v = regs[e[1]]
      return v
    if t == 'k':
      return jnp.full(shape, e[1], jnp.int32)
    if t == 'bc':  # a higher-rank leaf: e[..., None, ...] + arange(prod(extra)).reshape(extra)
      a = ev(e[1])
      if isinstance(a, KeyVal):
        raise TypeError('arithmetic on a PRNG key')
      extra = tuple(e[2])
      a = jnp.asarray(a)
      return a.reshape(a.shape + (1,) * len(extra)) + jnp.arange(int(np.prod(extra)), dtype=jnp.int32).reshape(extra)
    a, b = ev(e[1]), ev(e[2])
    if isinstance(a, KeyVal) or isinstance(b, KeyVal):
      raise TypeError('arithmetic on a PRNG key')
    if jnp.shape(a) != jnp.shape(b):
      raise TypeError('shape mismatch in body program')
    if t == '+':
      return a + b
    if t == '*':
      return a * b
    if t == '-':
      return a - b
    raise ValueError(t)

  for st in prog['stmts']:
    if st[0] == 'var':
      def init_value(st=st):
        val = ev(st[4])
        return jax.random.key_data(val.key) if isinstance(val, KeyVal) else val  # a key stored as key data
      v = sc.variable(st[2], st[3], init_value)
      vobjs[(st[2], st[3])] = v
      regs[st[1]] = v.value
    elif st[0] == 'set':
      vobjs[(st[1], st[2])].value = ev(st[3])
    elif st[0] == 'rng':
      regs[st[1]] = sc.make_rng(st[2])
    elif st[0] == 'let':
      regs[st[1]] = ev(st[2])
    else:
      raise ValueError(st)
  cs = tuple(ev(e) for e in prog['carry'])
  ys = []
  for e in prog['ys']:
    v = ev(e)
    ys.append(jax.random.key_data(v.key) if isinstance(v, KeyVal) else v)
  return cs, tuple(ys)


def key_streams(prog, has_rng):
  """for each `ys` entry that is a key: the effective stream; None for integer outputs"""
  regs = {}
  for st in prog['stmts']:
    if st[0] == 'rng':
      regs[st[1]] = st[2] if has_rng(st[2]) else 'params'
  return [regs.get(e[1]) if e[0] == 'r' else None for e in prog['ys']]


_MODULES = {}


def linen_module(prog, style, offsets=None):
  """style: 'scan' -> __call__(self, c, *xs) -> (c, ys); 'vmap' -> (self, *xs) -> ys; 'remat' -> (self, c) -> c"""
  key = (json.dumps(prog, sort_keys=True), style, json.dumps(offsets or {}, sort_keys=True))
  if key in _MODULES:
    return _MODULES[key]

  if style == 'scan':

    class LoopBody(nn.Module):
      @nn.compact
      def __call__(self, c, *xs):
        return run_prog(prog, Adapter(self, offsets), c, xs)

  elif style == 'vmap':

    class LoopBody(nn.Module):  # noqa: F811
      @nn.compact
      def __call__(self, *xs):
        return run_prog(prog, Adapter(self, offsets), (), xs)[1]

  else:

    class LoopBody(nn.Module):  # noqa: F811
      @nn.compact
      def __call__(self, c):
        return run_prog(prog, Adapter(self, offsets), c, ())[0]

  _MODULES[key] = LoopBody
  return LoopBody


def core_fn(prog, style, offsets=None):
  if style == 'scan':
    return lambda scope, c, *xs: run_prog(prog, Adapter(scope, offsets), c, xs)
  if style == 'vmap':
    return lambda scope, *xs: run_prog(prog, Adapter(scope, offsets), (), xs)[1]
  return lambda scope, c: run_prog(prog, Adapter(scope, offsets), c, ())[0]


# ------------------------------------------------------------------------------------------------
# implementation adapters
# ------------------------------------------------------------------------------------------------


def classify(e):
  return ('err', type(e).__name__)


def mk_rngs(case):
  return {s: jax.random.key(seed) for s, seed in case['rngs']}


def axes_dict(axes, to_axis):
  d = {}
  for f, ax, mode in axes:
    a = to_axis(ax)
    if mode == 'in':
      a = lift.In(a)
    elif mode == 'out':
      a = lift.Out(a)
    d[py_filter(f)] = a
  return d


def transform_kwargs(case):
  cfg = case['cfg']
  k = case['kind']
  if k == 'scan':
    return dict(
      variable_axes=axes_dict(cfg['axes'], lambda a: a),
      variable_broadcast=py_filter(cfg['bcast']),
      variable_carry=py_filter(cfg['carry']),
      split_rngs={py_filter(f): b for f, b in cfg['split']},
      in_axes=axes_py_scan(cfg['in_axes']),
      out_axes=axes_py_scan(cfg['out_axes']),
      length=cfg['length'],
      reverse=cfg['reverse'],
      unroll=cfg['unroll'],
      check_constancy_invariants=cfg.get('check_const', True),
    )
  if k == 'vmap':
    return dict(
      variable_axes=axes_dict(cfg['axes'], lambda a: a),
      split_rngs={py_filter(f): b for f, b in cfg['split']},
      in_axes=axes_py_vmap(cfg['in_axes']),
      out_axes=axes_py_vmap(cfg['out_axes']),
      axis_size=cfg['axis_size'],
    )
  return dict(
    lengths=tuple(case['lengths']),
    variable_axes=axes_dict(cfg['axes'], lambda a: a),
    variable_broadcast=py_filter(cfg['bcast']),
    variable_carry=py_filter(cfg['carry']),
    split_rngs={py_filter(f): b for f, b in cfg['split']},
  )


def run_impl(case):
  """-> ('ok', {'vars':…, 'carry':[…], 'ys':[np arrays]}) | ('err', class name)"""
  try:
    kind = case['kind']
    prog = case['prog']
    variables = vars_py(case['outer'])
    rngs = mk_rngs(case)
    mutable = py_filter(case['mutable'])
    init = tuple(jnp.asarray(arr_np(a)) for a in case.get('init', []))
    args = tuple(jnp.asarray(arr_np(a)) for a in case.get('args', []))
    kw = transform_kwargs(case)
    call_args = ((init,) if kind in ('scan', 'remat') else ()) + (args if kind != 'remat' else ())
    if case['api'] == 'linen':
      tr = {'scan': nn.scan, 'vmap': nn.vmap, 'remat': nn.remat_scan}[kind]
      mod = tr(linen_module(prog, kind), **kw)()
      res = mod.apply(variables, *call_args, rngs=rngs, mutable=mutable)
    else:
      tr = {'scan': lift.scan, 'vmap': lift.vmap, 'remat': lift.remat_scan}[kind]
      fn = tr(core_fn(prog, kind), **kw)
      res = flax_core.apply(fn, mutable=mutable)(variables, *call_args, rngs=rngs)
    if mutable is False:
      out, upd = res, {}
    else:
      out, upd = res
    final = dict(variables)
    for col, cc in flax_core.unfreeze(upd).items():
      final[col] = cc
    if kind == 'scan':
      c, ys = out
    elif kind == 'vmap':
      c, ys = (), out
    else:
      c, ys = out, ()
    return ('ok', {'vars': vars_canon(final), 'carry': [np.asarray(a) for a in c], 'ys': [np.asarray(a) for a in ys]})
  except Exception as e:  # every exception raised by flax / jax is an observation
    return classify(e)


# ------------------------------------------------------------------------------------------------
# property oracle: the explicit Python loop over the untransformed module
# ------------------------------------------------------------------------------------------------


def call_plain(case, style, variables, mut_cols, rngs, c, xs, offsets):
  """one call of the UNTRANSFORMED body; returns ((c, ys), updates)"""
  prog = case['prog']
  call_args = ((c,) if style in ('scan', 'remat') else ()) + (tuple(xs) if style != 'remat' else ())
  if case['api'] == 'linen':
    res = linen_module(prog, style, offsets)().apply(variables, *call_args, rngs=rngs, mutable=list(mut_cols))
  else:
    res = flax_core.apply(core_fn(prog, style, offsets), mutable=list(mut_cols))(variables, *call_args, rngs=rngs)
  out, upd = res
  upd = flax_core.unfreeze(upd)
  if style == 'scan':
    return out, upd
  if style == 'vmap':
    return ((), out), upd
  return (out, ()), upd


def norm_ax(ax, rank):
  if not (-rank <= ax < rank):
    raise IndexError('axis out of range')
  return ax + rank if ax < 0 else ax


def take(a, i, ax):
  a = np.asarray(a)
  return np.take(a, i, axis=norm_ax(ax, a.ndim))


def stack(ls, ax):
  ls = [np.asarray(x) for x in ls]
  return np.stack(ls, axis=norm_ax(ax, ls[0].ndim + 1))


def iter_rngs(case, n, i):
  """rngs handed to iteration / index i: the stream's own key, or row i of jax.random.split(key, n)"""
  fs = [f for f, _ in case['cfg']['split']]
  out, sym = {}, {}
  for s, seed in case['rngs']:
    g = first_role(fs, s)
    if g is None:
      continue
    base = jax.random.key(seed)
    if case['cfg']['split'][g][1]:
      out[s] = jax.random.split(base, n)[i]
      sym[s] = {'k': {'split': [{'seed': s}, n, i]}}
    else:
      out[s] = base
      sym[s] = {'k': {'seed': s}}
  return out, sym


def oracle_scan(case, offsets):
  cfg = case['cfg']
  in_ax = [a for a in cfg['axes'] if a[2] != 'out']
  out_ax = [a for a in cfg['axes'] if a[2] != 'in']
  in_fs = [cfg['bcast'], cfg['carry']] + [a[0] for a in in_ax]
  out_fs = [cfg['bcast'], cfg['carry']] + [a[0] for a in out_ax]
  variables = {col: {n: arr_np(a) for n, a in cc} for col, cc in case['outer']}
  args = [arr_np(a) for a in case['args']]
  in_axes = axes_expand(cfg['in_axes'], len(args))
  n = cfg['length']
  if n is None:
    n = next(np.shape(a)[norm_ax(ax, a.ndim)] for a, ax in zip(args, in_axes) if ax is not None)
  scope_mut = lambda col: in_filter(case['mutable'], col)
  mut = lambda col: scope_mut(col) and first_role(out_fs, col) is not None
  bvars = {c: v for c, v in variables.items() if first_role(in_fs, c) == 0}
  cvars = {c: v for c, v in variables.items() if first_role(in_fs, c) == 1}
  c = tuple(arr_np(a) for a in case['init'])
  ys = [None] * n
  slices = [dict() for _ in out_ax]  # group -> col -> name -> list over i
  syms = [None] * n
  order = list(range(n))
  if cfg['reverse']:
    order.reverse()
  first = True
  universe = ['P', 'K', 'S', 'Q', 'R', 'B', 'C', 'A', 'U', 'params', 'cache', 'batch_stats']
  mut_cols = [col for col in sorted(set(universe) | set(variables)) if mut(col)]
  for i in order:
    vars_i = dict(bvars)
    vars_i.update(cvars)
    for g, (f, ax, _) in enumerate(in_ax):
      for col, cc in variables.items():
        if first_role(in_fs, col) == g + 2:
          vars_i[col] = {nm: take(a, i, ax) for nm, a in cc.items()}
    rngs_i, sym_i = iter_rngs(case, n, i)
    xs_i = [a if ax is None else take(a, i, ax) for a, ax in zip(args, in_axes)]
    (c, y), upd = call_plain(case, 'scan', vars_i, mut_cols, rngs_i, c, xs_i, offsets)
    for col, cc in upd.items():
      r = first_role(out_fs, col)
      if r == 0:
        if first and cfg.get('check_const', True):
          bvars[col] = cc  # initialised once, shared afterwards (simple_scan_fn: broadcast collections are inputs only)
      elif r == 1:
        cvars[col] = cc
      elif r is not None:
        d = slices[r - 2].setdefault(col, {})
        for nm, a in cc.items():
          d.setdefault(nm, {})[i] = a
    ys[i] = y
    syms[i] = sym_i
    first = False
  final = dict(variables)
  for col, cc in list(bvars.items()) + list(cvars.items()):
    if scope_mut(col):
      final[col] = cc
  for g, (f, ax, _) in enumerate(out_ax):
    for col, d in slices[g].items():
      if scope_mut(col):
        final[col] = {nm: stack([per[i] for i in range(n)], ax) for nm, per in d.items()}
  out_axes = axes_expand(cfg['out_axes'], len(ys[0]))
  ys_out = []
  for k, ax in enumerate(out_axes):
    if ax is None:
      ys_out.append(np.asarray(ys[order[0]][k]))
    else:
      ys_out.append(stack([ys[i][k] for i in range(n)], ax))
  return {'vars': vars_canon(final), 'carry': [np.asarray(a) for a in c], 'ys': ys_out, 'syms': syms, 'n': n}


def oracle_vmap(case, offsets):
  cfg = case['cfg']
  in_ax = [a for a in cfg['axes'] if a[2] != 'out']
  out_ax = [a for a in cfg['axes'] if a[2] != 'in']
  in_fs = [a[0] for a in in_ax]
  out_fs = [a[0] for a in out_ax]
  variables = {col: {n: arr_np(a) for n, a in cc} for col, cc in case['outer']}
  args = [arr_np(a) for a in case['args']]
  in_axes = axes_expand(cfg['in_axes'], len(args))
  n = cfg['axis_size']
  if n is None:
    cands = [np.shape(a)[norm_ax(ax, a.ndim)] for a, ax in zip(args, in_axes) if ax is not None]
    for col, cc in variables.items():
      g = first_role(in_fs, col)
      if g is not None and in_ax[g][1] is not None:
        cands += [np.shape(a)[norm_ax(in_ax[g][1], a.ndim)] for a in cc.values()]
    n = cands[0]
  scope_mut = lambda col: in_filter(case['mutable'], col)
  mut = lambda col: scope_mut(col) and first_role(out_fs, col) is not None
  universe = ['P', 'K', 'S', 'Q', 'R', 'B', 'C', 'A', 'U', 'params', 'cache', 'batch_stats']
  mut_cols = [col for col in sorted(set(universe) | set(variables)) if mut(col)]
  ys = [None] * n
  syms = [None] * n
  shared = {}
  slices = [dict() for _ in out_ax]
  for i in range(n):
    vars_i = {}
    for col, cc in variables.items():
      g = first_role(in_fs, col)
      if g is None:
        continue
      ax = in_ax[g][1]
      vars_i[col] = cc if ax is None else {nm: take(a, i, ax) for nm, a in cc.items()}
    rngs_i, sym_i = iter_rngs(case, n, i)
    xs_i = [a if ax is None else take(a, i, ax) for a, ax in zip(args, in_axes)]
    (_, y), upd = call_plain(case, 'vmap', vars_i, mut_cols, rngs_i, (), xs_i, offsets)
    for col, cc in upd.items():
      r = first_role(out_fs, col)
      if r is None:
        continue
      if out_ax[r][1] is None:
        if i == 0:
          shared[col] = cc
      else:
        d = slices[r].setdefault(col, {})
        for nm, a in cc.items():
          d.setdefault(nm, {})[i] = a
    ys[i] = y
    syms[i] = sym_i
  final = dict(variables)
  for col, cc in shared.items():
    if scope_mut(col):
      final[col] = cc
  for g, (f, ax, _) in enumerate(out_ax):
    for col, d in slices[g].items():
      if scope_mut(col):
        final[col] = {nm: stack([per[i] for i in range(n)], ax) for nm, per in d.items()}
  out_axes = axes_expand(cfg['out_axes'], len(ys[0]))
  ys_out = [np.asarray(ys[0][k]) if ax is None else stack([ys[i][k] for i in range(n)], ax) for k, ax in enumerate(out_axes)]
  return {'vars': vars_canon(final), 'carry': [], 'ys': ys_out, 'syms': syms, 'n': n}


def oracle_remat(case, offsets):
  """one flat loop of prod(lengths) iterations; iteration (i0, i1, …) sees slice [i0][i1]… of every axis
  collection (axis 0 at every level) and, for split streams, the key split(split(k, l0)[i0], l1)[i1] …"""
  cfg = case['cfg']
  lengths = list(case['lengths'])
  in_ax = [a for a in cfg['axes'] if a[2] != 'out']
  out_ax = [a for a in cfg['axes'] if a[2] != 'in']
  in_fs = [cfg['bcast'], cfg['carry']] + [a[0] for a in in_ax]
  out_fs = [cfg['bcast'], cfg['carry']] + [a[0] for a in out_ax]
  variables = {col: {n: arr_np(a) for n, a in cc} for col, cc in case['outer']}
  scope_mut = lambda col: in_filter(case['mutable'], col)
  mut = lambda col: scope_mut(col) and first_role(out_fs, col) is not None
  universe = ['P', 'K', 'S', 'Q', 'R', 'B', 'C', 'A', 'U', 'params', 'cache', 'batch_stats']
  mut_cols = [col for col in sorted(set(universe) | set(variables)) if mut(col)]
  bvars = {c: v for c, v in variables.items() if first_role(in_fs, c) == 0}
  cvars = {c: v for c, v in variables.items() if first_role(in_fs, c) == 1}
  c = tuple(arr_np(a) for a in case['init'])
  fs = [f for f, _ in cfg['split']]
  outs = {}
  syms = {}
  first = True
  for idx in itertools.product(*[range(l) for l in lengths]):
    vars_i = dict(bvars)
    vars_i.update(cvars)
    for col, cc in variables.items():
      r = first_role(in_fs, col)
      if r is not None and r >= 2:
        def sl(a):
          for lvl, i in enumerate(idx):
            a = take(a, i, in_ax[r - 2][1])
          return a
        vars_i[col] = {nm: sl(a) for nm, a in cc.items()}
    rngs_i = {}
    for s, seed in case['rngs']:
      g = first_role(fs, s)
      if g is None:
        continue
      k = jax.random.key(seed)
      sym = {'seed': s}
      if cfg['split'][g][1]:
        for l, i in zip(lengths, idx):
          k = jax.random.split(k, l)[i]
          sym = {'split': [sym, l, i]}
      rngs_i[s] = k
      syms.setdefault(idx, {})[s] = {'k': sym}
    (c, _), upd = call_plain(case, 'remat', vars_i, mut_cols, rngs_i, c, (), offsets)
    for col, cc in upd.items():
      r = first_role(out_fs, col)
      if r == 0:
        if first:
          bvars[col] = cc
      elif r == 1:
        cvars[col] = cc
      elif r is not None:
        for nm, a in cc.items():
          outs.setdefault((col, r - 2), {}).setdefault(nm, {})[idx] = a
    first = False
  final = dict(variables)
  for col, cc in list(bvars.items()) + list(cvars.items()):
    if scope_mut(col):
      final[col] = cc
  for (col, g), d in outs.items():
    if not scope_mut(col):
      continue
    ax = out_ax[g][1]

    def nest(per, prefix, lvl):
      if lvl == len(lengths):
        return np.asarray(per[prefix])
      return stack([nest(per, prefix + (i,), lvl + 1) for i in range(lengths[lvl])], ax)

    final[col] = {nm: nest(per, (), 0) for nm, per in d.items()}
  return {'vars': vars_canon(final), 'carry': [np.asarray(a) for a in c], 'ys': [], 'syms': syms, 'n': int(np.prod(lengths))}


def run_oracle(case, offsets):
  try:
    fn = {'scan': oracle_scan, 'vmap': oracle_vmap, 'remat': oracle_remat}[case['kind']]
    return ('ok', fn(case, offsets))
  except Exception as e:
    return classify(e)


# ------------------------------------------------------------------------------------------------
# model adapter
# ------------------------------------------------------------------------------------------------


def model_request(case):
  cfg = case['cfg']
  rngs = [[s, {'seed': s}] for s, _ in case['rngs']]
  if case['kind'] == 'scan':
    return ('scan', [cfg, case['prog'], case['mutable'], case['outer'], rngs, case['init'], case['args']])
  if case['kind'] == 'vmap':
    return ('vmap', [cfg, case['prog'], case['mutable'], case['outer'], rngs, case['args']])
  return ('remat_scan', [cfg, case['lengths'], case['prog'], case['mutable'], case['outer'], rngs, case['init']])


# ------------------------------------------------------------------------------------------------
# comparison
# ------------------------------------------------------------------------------------------------


def int_canon(res):
  """implementation / oracle result -> canonical JSON; key outputs stay raw key data here"""
  return {'vars': res['vars'], 'carry': [arr_json(a) for a in res['carry']], 'ys': [arr_json(a) for a in res['ys']]}


def symbolic_ys(case, orc, has_rng):
  """the oracle's ys with key data replaced by the symbolic key the loop handed to that iteration"""
  if case['kind'] == 'remat':
    return []
  streams = key_streams(case['prog'], has_rng)
  out = []
  n = orc['n']
  if case['kind'] == 'scan':
    axes = axes_expand(case['cfg']['out_axes'], len(orc['ys']))
    first = n - 1 if case['cfg']['reverse'] else 0
  else:
    axes = axes_expand(case['cfg']['out_axes'], len(orc['ys']))
    first = 0
  for k, a in enumerate(orc['ys']):
    s = streams[k] if k < len(streams) else None
    if s is None:
      out.append(arr_json(a))
    elif axes[k] is None:
      out.append({'s': [], 'd': [orc['syms'][first][s]]})
    else:
      out.append({'s': [n], 'd': [orc['syms'][i][s] for i in range(n)]})
  return out


def lifted_streams(case):
  fs = [f for f, _ in case['cfg']['split']]
  return {s for s, _ in case['rngs'] if first_role(fs, s) is not None}


def rng_draws(case):
  ls = lifted_streams(case)
  eff = [(st[2] if st[2] in ls else 'params') for st in case['prog']['stmts'] if st[0] == 'rng']
  return {s: eff.count(s) for s in set(eff)}


def offset_candidates(case):
  """PRNG draw counters are per scope and advance once per trace of the body (C09's subject, not C06's):
  the lifted body is traced after `t` earlier traces, so its first draw of a stream has counter t*m+1 where
  m is the number of draws per pass.  The oracle learns t from the implementation (a probe), trying 0..3."""
  draws = rng_draws(case)
  if not draws:
    return [{}]
  ts = list(range(0, 4))
  if case['kind'] == 'remat':
    # every nesting level has its own broadcast pass: the innermost body is traced 2**levels times
    k = len(case['lengths'])
    ts = [2 ** k - 1] + [t for t in range(0, 2 ** (k + 1)) if t != 2 ** k - 1]
  return [{s: t * m for s, m in draws.items()} for t in ts]


def check_case(ctx, drv_reply, case, stream):
  """drv_reply: the model's answer for this case. Runs implementation + oracle, compares, records."""
  kind = case['kind']
  impl = run_impl(case)
  ctx.count('impl_outcome', impl[1] if impl[0] == 'err' else 'ok')
  ctx.count('impl_outcome_' + stream, impl[1] if impl[0] == 'err' else 'ok')
  ctx.count('kind', f"{kind}/{case['api']}")
  model = drv_reply
  if impl[0] == 'err':
    if model[0] == 'err' and model[1] == impl[1]:
      ctx.count('error_agreed', impl[1])
      return
    orc = run_oracle(case, {})
    if model[0] == 'ok' and orc[0] == 'ok' and stream == 'valid':
      ctx.violation(
        f'{kind}-raises-where-loop-works',
        f'{kind} raised {impl[1]} on a configuration where the explicit loop and the model both succeed',
        case,
      )
    else:
      ctx.disagreements_checked += 1
      ctx.violation(f'{kind}-error-model-mismatch', f'implementation raised {impl[1]}, model says {model if model[0] == "err" else "ok"}', case, concrete=False)
    return
  got = int_canon(impl[1])
  if kind == 'remat':
    _rng_clause_remat(ctx, case, got)
  # property oracle (explicit loop), with the draw-counter offset learnt from the implementation:
  # the offset is the one that reproduces the implementation's key outputs (if any does)
  ls = lifted_streams(case)
  kpos = [k for k, st in enumerate(key_streams(case['prog'], lambda s_: s_ in ls)) if st is not None] if kind != 'remat' else []
  out_axes_k = axes_expand(case['cfg']['out_axes'], len(got['ys'])) if kind != 'remat' else []
  kstack = [k for k in kpos if k < len(out_axes_k) and out_axes_k[k] is not None]
  kconst = [k for k in kpos if k < len(out_axes_k) and out_axes_k[k] is None]
  orc = None
  first = None
  for offs in offset_candidates(case):
    o = run_oracle(case, offs)
    if first is None:
      first = o
    if orc is None or o[0] == 'err':
      orc = o
    if o[0] == 'err':
      break
    oc = int_canon(o[1])
    if oc == got or (kstack and all(k < len(oc['ys']) and k < len(got['ys']) and oc['ys'][k] == got['ys'][k] for k in kstack)):
      orc = o
      break
  if orc[0] == 'ok' and first[0] == 'ok' and kconst and kind == 'scan':
    # a key output declared broadcast is drawn during the broadcast pass (an earlier trace: draw counter of t=0)
    ys = list(orc[1]['ys'])
    for k in kconst:
      if k < len(ys) and k < len(first[1]['ys']):
        ys[k] = first[1]['ys'][k]
    orc = ('ok', dict(orc[1], ys=ys))
  if orc[0] == 'err':
    if stream == 'valid':
      ctx.violation(f'{kind}-works-where-loop-raises', f'the explicit loop raised {orc[1]} but {kind} returned a value', case)
    elif not (model[0] == 'ok'):
      ctx.disagreements_checked += 1
      ctx.violation(f'{kind}-error-model-mismatch', f'implementation ok, model says {model}', case, concrete=False)
    else:
      _compare_model(ctx, kind, case, got, None, model)
    return
  want = int_canon(orc[1])
  if want != got:
    what = _diff(want, got)
    # outside the valid stream the naive loop is only binding when the model sides with it
    sides = False
    if stream != 'valid' and model[0] == 'ok' and case.get('mutation') not in ('bcast-dep', 'shared-batched'):
      # (a body that UPDATES a broadcast / shared collection is outside the property's domain: the broadcast pass
      # runs first, so the naive loop is not the reference there — model vs implementation only)
      m = model[1]['res']
      mres = {'vars': model_vars_canon(m['vars']), 'carry': [canon_arr(a) for a in m['carry']]}
      mys = [canon_arr(a) for a in m['ys']]
      ints = [k for k, a in enumerate(mys) if all(isinstance(v, int) for v in a['d'])]
      sides = (mres['vars'] == want['vars'] and mres['carry'] == want['carry'] and len(mys) == len(want['ys'])
               and all(mys[k] == want['ys'][k] for k in ints))
    if stream == 'valid' or sides:
      ctx.violation(f"{kind}-differs-from-loop:{what.split('/')[0]}", f'{kind} result differs from the explicit Python loop in {what}: loop={_short(want, what)} impl={_short(got, what)}', dict(case, want=want, got=got))
      return
    ctx.count('wild_loop_differs', what)
    orc = None
  # RNG clause, stated directly: split streams give pairwise distinct keys, unsplit streams one key
  if orc is not None:
    _rng_clause(ctx, kind, case, impl[1], orc[1])
  _compare_model(ctx, kind, case, got, orc[1] if orc is not None else None, model)


def key_vars(case):
  """(collection, variable) -> effective stream, for variables initialised with a drawn key"""
  ls = lifted_streams(case)
  regs, out = {}, {}
  for st in case['prog']['stmts']:
    if st[0] == 'rng':
      regs[st[1]] = st[2] if st[2] in ls else 'params'
    elif st[0] == 'var' and st[4][0] == 'r' and st[4][1] in regs:
      out[(st[2], st[3])] = regs[st[4][1]]
  return out


def _rng_clause_remat(ctx, case, res):
  """at EVERY nesting level: an unsplit stream gives all prod(lengths) iterations one key, a split stream
  pairwise different keys"""
  fs = [f for f, _ in case['cfg']['split']]
  for (col, nm), s in key_vars(case).items():
    a = res['vars'].get(col, {}).get(nm)
    g = first_role(fs, s)
    if a is None or g is None or a['s'][-1:] != [2]:
      continue
    rows = [tuple(a['d'][2 * k: 2 * k + 2]) for k in range(len(a['d']) // 2)]
    if case['cfg']['split'][g][1]:
      ctx.count('rng_clause', 'remat-split')
      if len(set(rows)) != len(rows):
        ctx.violation('remat-split-rng-repeats', f'stream {s!r} is declared split but two of the {len(rows)} iterations of remat_scan(lengths={case["lengths"]}) received the same key', case)
    else:
      ctx.count('rng_clause', 'remat-unsplit')
      ctx.count('remat_unsplit_levels', len(case['lengths']))
      if len(set(rows)) != 1:
        ctx.violation('remat-unsplit-rng-differs', f'stream {s!r} is declared unsplit but the iterations of remat_scan(lengths={case["lengths"]}) received {len(set(rows))} different keys (shape {a["s"]}): some nesting level split it', case)


def _rng_clause(ctx, kind, case, res, orc):
  if kind == 'remat':
    return
  ls = lifted_streams(case)
  streams = key_streams(case['prog'], lambda s: s in ls)
  axes = axes_expand(case['cfg']['out_axes'], len(res['ys']))
  fs = [f for f, _ in case['cfg']['split']]
  for k, s in enumerate(streams):
    if s is None or axes[k] is None:
      continue
    g = first_role(fs, s)
    if g is None:
      continue
    rows = [tuple(int(v) for v in r) for r in np.asarray(res['ys'][k]).reshape(-1, 2)]
    if case['cfg']['split'][g][1]:
      ctx.count('rng_clause', 'split')
      if len(set(rows)) != len(rows):
        ctx.violation(f'{kind}-split-rng-repeats', f'stream {s!r} is declared split but two indices received the same key: {rows}', case)
    else:
      ctx.count('rng_clause', 'unsplit')
      if len(set(rows)) != 1:
        ctx.violation(f'{kind}-unsplit-rng-differs', f'stream {s!r} is declared unsplit but indices received different keys: {rows}', case)


def _compare_model(ctx, kind, case, got, orc, model):
  if model[0] != 'ok':
    ctx.disagreements_checked += 1
    ctx.violation(f'{kind}-model-mismatch', f'implementation returned a value, model says {model}', case, concrete=False)
    return
  m = model[1]['res']
  mres = {'vars': model_vars_canon(m['vars']), 'carry': [canon_arr(a) for a in m['carry']], 'ys': [canon_arr(a) for a in m['ys']]}
  want = dict(got)
  if kind == 'remat':
    # key-valued variables: the implementation's key data <-> the symbolic key of that multi-index
    kv = key_vars(case)
    wv = {c: dict(cc) for c, cc in got['vars'].items()}
    mv = {c: dict(cc) for c, cc in mres['vars'].items()}
    idxs = list(itertools.product(*[range(l) for l in case['lengths']]))
    for (col, nm), s_ in kv.items():
      if orc is not None and col in wv and nm in wv[col] and all(s_ in orc['syms'].get(i, {}) for i in idxs):
        wv[col][nm] = {'s': list(case['lengths']), 'd': [orc['syms'][i][s_] for i in idxs]}
      else:
        for d_ in (wv, mv):
          if col in d_:
            d_[col].pop(nm, None)
            if not d_[col]:
              d_.pop(col)
    want = dict(got, vars=wv)
    mres['vars'] = mv
  elif orc is not None:
    ls = lifted_streams(case)
    want = dict(got, ys=symbolic_ys(case, orc, lambda s: s in ls))
  else:
    # no oracle labels: compare integer outputs only
    keep = [k for k, a in enumerate(mres['ys']) if all(isinstance(v, int) for v in a['d'])]
    mres['ys'] = [mres['ys'][k] for k in keep]
    want['ys'] = [got['ys'][k] for k in keep if k < len(got['ys'])]
  if mres != want:
    ctx.disagreements_checked += 1
    what = _diff(want, mres)
    ctx.violation(f"{kind}-model-mismatch:{what.split('/')[0]}", f'model and implementation differ in {what}: impl={_short(want, what)} model={_short(mres, what)}', case, concrete=False)


def _diff(a, b):
  for k in ('carry', 'ys', 'vars'):
    if a[k] != b[k]:
      if k == 'vars':
        cols = sorted(set(a[k]) | set(b[k]))
        return 'vars/' + ','.join(c for c in cols if a[k].get(c) != b[k].get(c))
      return k
  return 'nothing'


def _short(d, what):
  k = what.split('/')[0]
  return json.dumps(d.get(k))[:400]


# ------------------------------------------------------------------------------------------------
# generators
# ------------------------------------------------------------------------------------------------

COLS = ['P', 'K', 'S', 'Q']
EXTRAS = [[2], [1, 2], [2, 3], [3, 1]]
STREAMS = ['params', 's', 't']


def rand_filter_for(rng, cols, want):
  """a filter (JSON) that matches exactly the collections in `want` among `cols`, in a random spelling"""
  want = [c for c in cols if c in want]
  others = [c for c in cols if c not in want]
  forms = []
  if len(want) == 1:
    forms.append(want[0])
  forms.append(list(want))
  if not others:
    forms.append(True)
  if not want:
    forms.append(False)
  if others and rng.random() < 0.3:
    forms.append({'deny': list(others)})
  return rng.choice(forms)


def insert_axis(shape, ax_norm, n):
  s = list(shape)
  s.insert(ax_norm, n)
  return s


def rand_arr(rng, shape, lo=-3, hi=4):
  size = int(np.prod(shape)) if shape else 1
  return {'s': list(shape), 'd': [rng.randrange(lo, hi) for _ in range(size)]}


def rand_expr(rng, leaves, depth=2):
  if depth == 0 or rng.random() < 0.3:
    return rng.choice(leaves)
  op = rng.choice(['+', '+', '-', '*'])
  return [op, rand_expr(rng, leaves, depth - 1), rand_expr(rng, leaves, depth - 1)]


def gen_scan_case(rng, stream='valid', api=None, kind='scan'):
  """stream 'valid': a configuration inside the property's domain (no error expected);
  'wild': roles / programs / shapes chosen freely (errors and broadcast-pass rejections welcome)."""
  n = rng.choice([1, 2, 2, 3, 3, 4, 5])
  shape = [rng.choice([1, 2, 3]) for _ in range(rng.choice([0, 1, 1, 2]))]
  rank1 = len(shape) + 1
  api = api or rng.choice(['linen', 'linen', 'core'])
  # --- collections and their roles, through possibly overlapping filters -------------------------
  ncols = rng.choice([1, 2, 3, 3, 4])
  cols = COLS[:ncols]
  roles = {}
  for c in cols:
    roles[c] = rng.choice(['bcast', 'carry', 'axis', 'axis', 'axis2'] if kind == 'scan' else ['axis', 'axis', 'shared', 'shared'])
    if stream == 'wild' and rng.random() < 0.15:
      roles[c] = 'none'
  wild = stream == 'wild'
  check_const = True if kind != 'scan' else rng.random() < 0.65   # check_constancy_invariants (False: simple_scan_fn)
  ax1 = rng.randrange(-rank1, rank1)
  ax2 = rng.randrange(-rank1, rank1)
  mode1 = rng.choice(['both', 'both', 'both', 'out', 'in'])
  cfg = {}
  if kind == 'scan':
    b_cols = [c for c in cols if roles[c] == 'bcast']
    c_cols = [c for c in cols if roles[c] == 'carry']
    a1 = [c for c in cols if roles[c] == 'axis']
    a2 = [c for c in cols if roles[c] == 'axis2']
    # overlapping spellings: a later filter may also match earlier groups' collections (first match wins)
    cfg['bcast'] = rand_filter_for(rng, cols, b_cols)
    cfg['carry'] = rand_filter_for(rng, cols, c_cols + (b_cols if rng.random() < 0.4 else []))
    axes = []
    if a1 or rng.random() < 0.3:
      axes.append([rand_filter_for(rng, cols, a1 + (c_cols if rng.random() < 0.3 else [])), ax1, mode1 if a1 else 'both'])
    if a2 or rng.random() < 0.2:
      f2 = rand_filter_for(rng, cols, a2 + (a1 if rng.random() < 0.3 else []))
      if not any(json.dumps(f2, sort_keys=True) == json.dumps(a[0], sort_keys=True) for a in axes):
        axes.append([f2, ax2, 'both'])
      else:
        for c in a2:
          roles[c] = 'none'
    # the same collections declared twice, once In(axis) and once Out(other axis), under two spellings of
    # the filter (dict keys must differ): sliced along one axis, stacked along another
    if axes and axes[0][2] == 'both' and a1 and rng.random() < 0.25:
      f_in = axes[0][0]
      alts = [f for f in ([list(a1)] + ([a1[0]] if len(a1) == 1 else []) + [list(reversed(a1))])
              if json.dumps(f) != json.dumps(f_in) and not any(json.dumps(f) == json.dumps(a[0]) for a in axes)]
      if alts and first_role([cfg['bcast'], cfg['carry']], a1[0]) is None:
        axes[0] = [f_in, ax1, 'in']
        axes.insert(1, [alts[0], rng.randrange(-rank1, rank1), 'out'])
    cfg['axes'] = axes
  else:
    a1 = [c for c in cols if roles[c] == 'axis']
    sh = [c for c in cols if roles[c] == 'shared']
    axes = []
    order = [('axis', a1), ('shared', sh)]
    rng.shuffle(order)
    for nm, cs in order:
      if cs or rng.random() < 0.3:
        f = rand_filter_for(rng, cols, cs)
        if any(json.dumps(f, sort_keys=True) == json.dumps(a[0], sort_keys=True) for a in axes):
          continue
        axes.append([f, ax1 if nm == 'axis' else None, mode1 if (nm == 'axis' and cs) else 'both'])
    for k, a in enumerate(list(axes)):
      if a[1] is not None and a[2] == 'both' and a1 and rng.random() < 0.25:
        alts = [f for f in ([list(a1)] + ([a1[0]] if len(a1) == 1 else []) + [list(reversed(a1))])
                if json.dumps(f) != json.dumps(a[0]) and not any(json.dumps(f) == json.dumps(b[0]) for b in axes)]
        if alts:
          axes[k] = [a[0], a[1], 'in']
          axes.insert(k + 1, [alts[0], rng.randrange(-rank1, rank1), 'out'])
        break
    cfg['axes'] = axes
  # recompute the effective roles by first match (this is what the implementation will do)
  in_ax = [a for a in cfg['axes'] if a[2] != 'out']
  out_ax = [a for a in cfg['axes'] if a[2] != 'in']
  pre = [cfg['bcast'], cfg['carry']] if kind == 'scan' else []
  in_fs = pre + [a[0] for a in in_ax]
  out_fs = pre + [a[0] for a in out_ax]
  off = len(pre)

  def role_of(fs, axl, c):
    r = first_role(fs, c)
    if r is None:
      return ('none', None)
    if kind == 'scan' and r == 0:
      return ('bcast', None)
    if kind == 'scan' and r == 1:
      return ('carry', None)
    ax = axl[r - off][1]
    return ('shared', None) if ax is None else ('axis', ax)

  in_role = {c: role_of(in_fs, in_ax, c) for c in cols}
  out_role = {c: role_of(out_fs, out_ax, c) for c in cols}
  # --- scope mutability ------------------------------------------------------------------------
  mform = rng.choice(['all', 'all', 'some', 'deny', 'none'])
  if mform == 'all':
    mutable = True
  elif mform == 'some':
    mutable = [c for c in cols if rng.random() < 0.6]
  elif mform == 'deny':
    mutable = {'deny': [c for c in cols if rng.random() < 0.3]}
  else:
    mutable = False if wild else True
  if not wild:
    # a carried collection has to be mutable (otherwise carry-in and carry-out differ in structure)
    need = [c for c in cols if in_role[c][0] == 'carry' or out_role[c][0] == 'carry']
    if isinstance(mutable, list):
      mutable = mutable + [c for c in need if c not in mutable]
    elif isinstance(mutable, dict):
      mutable = {'deny': [c for c in mutable['deny'] if c not in need]}
  is_mut = {c: in_filter(mutable, c) and out_role[c][0] != 'none' for c in cols}
  # --- rng streams -----------------------------------------------------------------------------
  streams = [s for s in STREAMS if rng.random() < 0.6]
  split = []
  for s in rng.sample(streams, len(streams)):
    if rng.random() < 0.75:
      split.append([rng.choice([s, [s]]), rng.random() < 0.5])
  if streams and rng.random() < 0.35:
    split.append([True, rng.random() < 0.5])
  if wild and rng.random() < 0.2 and len(split) >= 2:
    split[0][0] = True
  cfg['split'] = split
  lifted = {s for s in streams if first_role([f for f, _ in split], s) is not None}
  # --- carry / args / outputs ------------------------------------------------------------------
  ncarry = rng.choice([1, 1, 2]) if kind != 'vmap' else 0
  nargs = rng.choice([0, 1, 1, 2]) if kind != 'remat' else 0
  if kind == 'vmap' and nargs == 0 and not any(in_role[c][0] == 'axis' for c in cols):
    nargs = 1
  arg_axes = []
  for _ in range(nargs):
    arg_axes.append(None if rng.random() < 0.2 else rng.randrange(-rank1, rank1))
  if kind == 'vmap' and nargs and all(a is None for a in arg_axes) and not any(in_role[c][0] == 'axis' for c in cols):
    arg_axes[0] = rng.randrange(-rank1, rank1)
  uniform_in = nargs > 0 and len(set(arg_axes)) == 1 and rng.random() < 0.6
  cfg['in_axes'] = arg_axes[0] if uniform_in else (list(arg_axes) if nargs else 0)
  args = [rand_arr(rng, shape if ax is None else insert_axis(shape, norm_ax(ax, rank1), n)) for ax in arg_axes]
  init = [rand_arr(rng, shape) for _ in range(ncarry)]
  # --- program ---------------------------------------------------------------------------------
  stmts = []
  const_leaves = [['k', rng.randrange(-2, 4)] for _ in range(2)]
  data_leaves = [['c', k] for k in range(ncarry)] + [['x', k] for k in range(nargs)]
  known_regs = []  # registers whose value does not depend on carry / scanned data
  all_regs = []
  xregs = []  # (register, extra dims, known) of higher-rank variables
  outer = []
  written = {}
  for c in cols:
    ir, orl = in_role[c], out_role[c]
    nvars = rng.choice([1, 1, 2])
    col_vars = []
    present = rng.random() < 0.75
    if wild and rng.random() < 0.5:
      present = rng.random() < 0.5
    elif not is_mut[c] or ir[0] == 'carry' or (ir[0] == 'bcast' and not check_const):
      present = True  # cannot be created inside the loop
    elif orl[0] in ('axis',) and ir[0] == 'none':
      present = False  # Out-only axis collection: created by the loop
    if ir[0] == 'none' and (orl[0] == 'none' or not is_mut[c]) and not wild:
      continue  # not visible inside the loop and cannot be created there: the body must not touch it
    # leaves of DIFFERENT ranks inside one collection (one axis entry covers them all, so a negative axis has to
    # be resolved per leaf); the flattening order (sorted names) puts the lower-rank leaf first or last
    if nvars == 1 and (rng.random() < 0.35 or (ir[0] == 'bcast' and is_mut[c] and check_const and rng.random() < 0.6)):
      nvars = 2
    extras = [[] for _ in range(nvars)]
    if nvars >= 2 and rng.random() < 0.6:
      extras[rng.choice([0, nvars - 1])] = rng.choice(EXTRAS)
    for vi in range(nvars):
      name = 'v%d' % vi
      reg = f'{c.lower()}{vi}'
      extra = extras[vi]
      shared_known = ir[0] in ('bcast', 'shared')
      init_leaves = const_leaves + (known_regs if shared_known else all_regs + data_leaves)
      if wild and rng.random() < 0.15:
        init_leaves = const_leaves + all_regs + data_leaves
      init_e = rand_expr(rng, init_leaves or const_leaves, 1)
      if extra:
        init_e = ['bc', init_e, extra]
      stmts.append(['var', reg, c, name, init_e])
      col_vars.append((name, extra))
      if extra:
        can_write = is_mut[c] and orl[0] in ('carry', 'axis')
        if can_write and rng.random() < 0.7:
          e = ['+', ['r', reg], ['bc', rand_expr(rng, all_regs + data_leaves + const_leaves, 2), extra]]
          stmts.append(['set', c, name, e])
          written[c] = True
        xregs.append((['r', reg], extra, shared_known))
        continue
      all_regs.append(['r', reg])
      if shared_known:
        known_regs.append(['r', reg])
      can_write = is_mut[c] and orl[0] in ('carry', 'axis') and (ir[0] != 'none' or True)
      if wild and rng.random() < 0.2:
        can_write = True
      if can_write and rng.random() < 0.7:
        e = rand_expr(rng, [['r', reg]] + all_regs + data_leaves + const_leaves, 2)
        stmts.append(['set', c, name, e])
        written[c] = True
      elif orl[0] == 'shared' and is_mut[c] and rng.random() < 0.3:
        stmts.append(['set', c, name, rand_expr(rng, [['r', reg]] + known_regs + const_leaves, 1)])
    if present and ir[0] != 'none':
      def vshape(extra):
        sh = shape + extra
        return insert_axis(sh, norm_ax(ir[1], len(sh) + 1), n) if ir[0] == 'axis' else sh
      given = list(col_vars)
      if ir[0] == 'bcast' and is_mut[c] and check_const and len(col_vars) >= 2 and rng.random() < 0.6:
        # a mutable broadcast collection that is only PARTLY populated on entry: the body lazily creates the rest
        # (loop-independent initialisers), which must be initialised once and published with the others
        given = [v_ for v_ in col_vars if rng.random() < 0.5] or col_vars[:1]
        if len(given) == len(col_vars):
          given = col_vars[:-1]
      outer.append([c, [[nm, rand_arr(rng, vshape(ex))] for nm, ex in given]])
    elif present and wild:
      outer.append([c, [[nm, rand_arr(rng, shape + ex)] for nm, ex in col_vars]])
  rng_regs = []
  for di in range(rng.choice([0, 1, 1, 2])):
    pool = sorted(lifted) if (lifted and not (wild and rng.random() < 0.2)) else (STREAMS if wild else [])
    if not pool:
      break
    s = rng.choice(pool)
    if s not in lifted and 'params' not in lifted and not wild:
      continue
    stmts.append(['rng', f'g{di}', s])
    rng_regs.append(['r', f'g{di}'])
  rng.shuffle(outer)
  leaves = all_regs + data_leaves + const_leaves
  carry_e = [rand_expr(rng, leaves, 2) for _ in range(ncarry)]
  nys = rng.choice([0, 1, 1, 2]) if kind != 'remat' else 0
  ys_e, ys_axes = [], []
  if nys == 1 and rng.random() < 0.4:
    nys = rng.choice([2, 3])
  common_axis = rng.randrange(-rank1, rank1) if rng.random() < 0.5 else None  # one int for the whole output tree
  hi = rng.choice([0, nys - 1]) if nys >= 2 and rng.random() < 0.7 else None  # position of the higher-rank leaf
  for k in range(nys):
    if rng.random() < 0.15 and (known_regs or const_leaves) and common_axis is None and check_const:
      ys_e.append(rand_expr(rng, known_regs + const_leaves, 1))
      ys_axes.append(None)  # a loop-independent output declared broadcast / None
    else:
      e = rand_expr(rng, leaves, 2)
      if k == hi:
        xr = [x for x in xregs if rng.random() < 0.5]
        e = xr[0][0] if xr else ['bc', e, rng.choice(EXTRAS)]
      ys_e.append(e)
      ys_axes.append(common_axis if common_axis is not None else rng.randrange(-rank1, rank1))
  for r in rng_regs:
    ys_e.append(r)
    ys_axes.append(0)
  if wild and ys_e and rng.random() < 0.15:
    ys_axes[rng.randrange(len(ys_axes))] = None
  uniform_out = len(ys_axes) > 0 and len(set(ys_axes)) == 1 and ys_axes[0] is not None and rng.random() < (0.85 if common_axis is not None else 0.6)
  cfg['out_axes'] = ys_axes[0] if uniform_out else (list(ys_axes) if ys_axes else 0)
  prog = {'shape': shape, 'stmts': stmts, 'carry': carry_e, 'ys': ys_e}
  # --- length ----------------------------------------------------------------------------------
  inferable = any(a is not None for a in arg_axes)
  if kind == 'scan':
    cfg['length'] = None if (inferable and rng.random() < 0.6) else n
    if wild and rng.random() < 0.15:
      cfg['length'] = rng.choice([None, n + 1])
    cfg['reverse'] = rng.random() < 0.5
    cfg['unroll'] = rng.choice([1, 2, n])
    cfg['check_const'] = check_const
  else:
    inferable = inferable or any(in_role[c][0] == 'axis' and any(o[0] == c for o in outer) for c in cols)
    cfg['axis_size'] = None if (inferable and rng.random() < 0.6) else n
    if wild and rng.random() < 0.15:
      cfg['axis_size'] = rng.choice([None, n + 1])
  case = {
    'kind': kind, 'api': api, 'cfg': cfg, 'prog': prog, 'mutable': mutable, 'outer': outer,
    'rngs': [[s, rng.randrange(1000)] for s in streams], 'init': init, 'args': args, 'n': n,
  }
  return case


def case_roles(case):
  cfg = case['cfg']
  pre = [cfg['bcast'], cfg['carry']] if case['kind'] != 'vmap' else []
  in_ax = [a for a in cfg['axes'] if a[2] != 'out']
  out_ax = [a for a in cfg['axes'] if a[2] != 'in']
  in_fs = pre + [a[0] for a in in_ax]
  out_fs = pre + [a[0] for a in out_ax]

  def name(fs, axl, c):
    r = first_role(fs, c)
    if r is None:
      return 'none'
    if pre and r < 2:
      return ['bcast', 'carry'][r]
    return 'shared' if axl[r - len(pre)][1] is None else 'axis'

  cols = sorted({st[2] for st in case['prog']['stmts'] if st[0] == 'var'} | {c for c, _ in case['outer']})
  return {c: (name(in_fs, in_ax, c), name(out_fs, out_ax, c)) for c in cols}


MUTATIONS = [
  'bcast-dep', 'carry-init-inside', 'axis-size', 'length', 'immutable-write', 'unlifted', 'rng-unlifted',
  'shared-batched', 'y-broadcast-dep', 'arg-axis-oob', 'out-axis-oob', 'arity', 'none',
]


def mutate_case(rng, case):
  """one targeted step out of the property's domain (or into a rarely used corner of it)"""
  case = copy.deepcopy(case)
  kind = case['kind']
  cfg, prog = case['cfg'], case['prog']
  roles = case_roles(case)
  data = [['c', k] for k in range(len(case.get('init', [])))] + [['x', k] for k in range(len(case['args']))]
  vars_of = lambda c: [st for st in prog['stmts'] if st[0] == 'var' and st[2] == c]
  order = rng.sample(MUTATIONS, len(MUTATIONS))
  for m in order:
    if m == 'bcast-dep' and data:
      cs = [c for c, (i, o) in roles.items() if o in ('bcast', 'shared') and in_filter(case['mutable'], c) and vars_of(c)]
      if cs:
        c = rng.choice(cs)
        st = rng.choice(vars_of(c))
        prog['stmts'].insert(prog['stmts'].index(st) + 1, ['set', c, st[3], ['+', ['r', st[1]], rng.choice(data)]])
        case['mutation'] = m
        return case
    if m == 'carry-init-inside' and kind == 'scan':
      cs = [c for c, (i, o) in roles.items() if i == 'carry' and any(c == oc for oc, _ in case['outer'])]
      if cs:
        c = rng.choice(cs)
        case['outer'] = [o for o in case['outer'] if o[0] != c]
        case['mutation'] = m
        return case
    if m == 'axis-size':
      in_fs_now = ([cfg['bcast'], cfg['carry']] if kind != 'vmap' else []) + [a[0] for a in cfg['axes'] if a[2] != 'out']
      off_now = 2 if kind != 'vmap' else 0
      in_ax_now = [a for a in cfg['axes'] if a[2] != 'out']

      def axis_of(col):
        g_ = first_role(in_fs_now, col)
        return None if g_ is None or g_ < off_now else in_ax_now[g_ - off_now][1]

      cs = [o for o in case['outer'] if o[1] and axis_of(o[0]) is not None]
      if cs:
        o = rng.choice(cs)
        ax = axis_of(o[0])
        nm, a = o[1][0]
        k = norm_ax(ax, len(a['s']))
        sh = list(a['s'])
        sh[k] += 1
        o[1][0] = [nm, rand_arr(rng, sh)]
        case['mutation'] = m
        return case
    if m == 'length' and kind in ('scan', 'vmap'):
      key = 'length' if kind == 'scan' else 'axis_size'
      cfg[key] = rng.choice([None, case['n'] + 1, max(1, case['n'] - 1)])
      case['mutation'] = m
      return case
    if m == 'immutable-write':
      cs = sorted({st[1] for st in prog['stmts'] if st[0] == 'set'})
      if cs:
        c = rng.choice(cs)
        allc = sorted(roles)
        case['mutable'] = rng.choice([[x for x in allc if x != c], {'deny': [c]}])
        case['mutation'] = m
        return case
    if m == 'unlifted' and cfg['axes']:
      i = rng.randrange(len(cfg['axes']))
      saved = cfg['axes'][i][0]
      cfg['axes'][i][0] = rng.choice([False, []])
      if len({json.dumps(a[0]) for a in cfg['axes']}) == len(cfg['axes']):
        case['mutation'] = m
        return case
      cfg['axes'][i][0] = saved  # would clash with another dict key: undo, so that later candidates see the base case
    if m == 'rng-unlifted' and cfg['split'] and any(st[0] == 'rng' for st in prog['stmts']):
      cfg['split'].pop(rng.randrange(len(cfg['split'])))
      case['mutation'] = m
      return case
    if m == 'shared-batched' and kind == 'vmap' and data:
      cs = [c for c, (i, o) in roles.items() if o == 'shared' and in_filter(case['mutable'], c) and vars_of(c)]
      if cs:
        c = rng.choice(cs)
        st = rng.choice(vars_of(c))
        prog['stmts'].insert(prog['stmts'].index(st) + 1, ['set', c, st[3], ['*', ['r', st[1]], rng.choice(data)]])
        case['mutation'] = m
        return case
    if m == 'y-broadcast-dep' and prog['ys'] and kind in ('scan', 'vmap'):
      axes = axes_expand(cfg['out_axes'], len(prog['ys']))
      k = rng.randrange(len(axes))
      axes[k] = None
      cfg['out_axes'] = axes
      case['mutation'] = m
      return case
    if m == 'arg-axis-oob' and case['args'] and kind in ('scan', 'vmap'):
      axes = axes_expand(cfg['in_axes'], len(case['args']))
      k = rng.randrange(len(axes))
      r = len(case['args'][k]['s'])
      axes[k] = rng.choice([r, -r - 1])
      cfg['in_axes'] = axes
      case['mutation'] = m
      return case
    if m == 'out-axis-oob' and prog['ys'] and kind == 'scan':
      axes = axes_expand(cfg['out_axes'], len(prog['ys']))
      k = rng.randrange(len(axes))
      if prog['ys'][k][0] != 'r' or not prog['ys'][k][1].startswith('g'):
        r = len(prog['shape']) + 1
        axes[k] = rng.choice([r, -r - 1])
        cfg['out_axes'] = axes
        case['mutation'] = m
        return case
    if m == 'arity' and kind in ('scan', 'vmap'):
      axes = axes_expand(cfg['in_axes'], len(case['args']))
      cfg['in_axes'] = axes + [0]
      case['mutation'] = m
      return case
    if m == 'none':
      case['mutation'] = m
      return case
  case['mutation'] = 'none'
  return case


def gen_remat_case(rng, stream='valid'):
  lengths = rng.choice([[2], [3], [1, 2], [2, 2], [2, 1], [3, 2], [2, 3], [2, 2], [2, 1, 2], [2, 2, 2], [1, 2, 2]])
  api = rng.choice(['linen', 'core'])
  shape = [rng.choice([1, 2])] if rng.random() < 0.7 else []
  streams = [s for s in STREAMS if rng.random() < 0.6]
  drawn = [s for s in streams if rng.random() < 0.75]   # streams whose key the body stores (param-initialiser style)
  cols = COLS[: rng.choice([1, 2, 3])] + (['R'] if drawn else [])
  roles = {c: rng.choice(['axis', 'axis', 'bcast', 'carry']) for c in cols}
  if drawn:
    roles['R'] = 'axis'
  b_cols = [c for c in cols if roles[c] == 'bcast']
  c_cols = [c for c in cols if roles[c] == 'carry']
  a_cols = [c for c in cols if roles[c] == 'axis']
  default_axes = rng.random() < 0.5
  cfg = {
    'bcast': rand_filter_for(rng, cols, b_cols),
    'carry': rand_filter_for(rng, cols, c_cols),
    'axes': [[True, 0, 'both']] if default_axes else ([[rand_filter_for(rng, cols, a_cols), 0, 'both']] if a_cols else []),
  }
  # split_rngs: the default {True: True}, or a map mixing split and unsplit streams (with an optional catch-all)
  if rng.random() < 0.3:
    cfg['split'] = [[True, True]]
  else:
    cfg['split'] = [[rng.choice([s, [s]]), rng.random() < 0.5] for s in rng.sample(streams, len(streams))]
    if rng.random() < 0.3:
      cfg['split'].append([True, rng.random() < 0.5])
  mutable = True if rng.random() < 0.6 else [c for c in cols if rng.random() < 0.7 or c == 'R']
  in_fs = [cfg['bcast'], cfg['carry']] + [a[0] for a in cfg['axes']]
  ncarry = rng.choice([1, 2])
  data_leaves = [['c', k] for k in range(ncarry)]
  const_leaves = [['k', rng.randrange(-2, 4)] for _ in range(2)]
  stmts, outer, all_regs, known_regs = [], [], [], []
  lifted_now = {s for s in streams if first_role([f for f, _ in cfg['split']], s) is not None}
  for c in cols:
    r = first_role(in_fs, c)
    if c == 'R':
      # make_rng results stored as key data in an axis collection created inside the loop: one key per
      # multi-index, visible after the loop as an array of shape lengths + (2,)
      if r is not None and r >= 2 and in_filter(mutable, c):
        for k, s_ in enumerate(drawn):
          if s_ in lifted_now or 'params' in lifted_now:
            stmts.append(['rng', f'g{k}', s_])
            stmts.append(['var', f'rk{k}', 'R', f'k{k}', ['r', f'g{k}']])
      continue
    if r is None:
      continue
    is_mut = in_filter(mutable, c)
    present = (not is_mut) or r == 1 or rng.random() < 0.7
    names = ['v0'] if rng.random() < 0.7 else ['v0', 'v1']
    for nm in names:
      reg = f'{c.lower()}{nm}'
      init_e = rand_expr(rng, const_leaves + (known_regs if r == 0 else all_regs + data_leaves), 1)
      stmts.append(['var', reg, c, nm, init_e])
      all_regs.append(['r', reg])
      if r == 0:
        known_regs.append(['r', reg])
      if is_mut and r >= 1 and rng.random() < 0.7:
        stmts.append(['set', c, nm, rand_expr(rng, [['r', reg]] + all_regs + data_leaves + const_leaves, 2)])
    if present:
      vsh = (list(lengths) + shape) if r >= 2 else shape
      outer.append([c, [[nm, rand_arr(rng, vsh)] for nm in names]])
  rng.shuffle(stmts) if False else None
  prog = {'shape': shape, 'stmts': stmts, 'carry': [rand_expr(rng, all_regs + data_leaves + const_leaves, 2) for _ in range(ncarry)], 'ys': []}
  return {
    'kind': 'remat', 'api': api, 'cfg': cfg, 'lengths': lengths, 'prog': prog, 'mutable': mutable, 'outer': outer,
    'rngs': [[s, rng.randrange(1000)] for s in streams], 'init': [rand_arr(rng, shape) for _ in range(ncarry)], 'args': [],
    'n': int(np.prod(lengths)),
  }


# ------------------------------------------------------------------------------------------------
# exhaustive small scope: the two transposes of axes_scan.scan, and the array primitives (A-CONV)
# ------------------------------------------------------------------------------------------------


def check_move_axis(ctx, drv, thorough):
  """axes_scan.scan with a pass-through body moves the scanned axis from `in_axes` to `out_axes`:
  every rank <= 3 (4 in the thorough tier), every in axis and out axis in [-rank, rank), both directions."""
  cases = []
  for r in range(1, 5 if thorough else 4):
    shape = [2, 3, 2, 2][:r]
    a = np.arange(int(np.prod(shape)), dtype=np.int32).reshape(shape)
    for ai in range(-r - 1, r + 1):
      for ao in range(-r - 1, r + 1):
        oob = not (-r <= ai < r and -r <= ao < r)
        if oob and not ((ai in (-r - 1, r) and ao == 0) or (ao in (-r - 1, r) and ai == 0)):
          continue
        cases.append((a, ai, ao, (ai + ao + r) % 2 == 0))
  reqs = [('move_axis', [arr_json(a), ai, ao, rev]) for a, ai, ao, rev in cases]
  reqs += [('axes_to_front', [ai, list(a.shape)]) for a, ai, ao, rev in cases]
  outs = drv.run(reqs)
  fn = lambda b, c, x: (b, c, x)
  for k, (a, ai, ao, rev) in enumerate(cases):
    case = {'kind': 'move_axis', 'shape': list(a.shape), 'in_axis': ai, 'out_axis': ao, 'reverse': rev}
    ctx.case(case)
    ctx.count('move_axis_rank', a.ndim)
    try:
      _, _, y = axes_scan.scan(fn, in_axes=ai, out_axes=ao, reverse=rev)((), (), jnp.asarray(a))
      impl = ('ok', arr_json(y))
    except Exception as e:
      impl = classify(e)
    r = a.ndim
    if -r <= ai < r and -r <= ao < r:
      want = ('ok', arr_json(np.moveaxis(a, ai, ao)))
      if impl != want:
        ctx.violation('axes-scan-not-moveaxis', f'axes_scan.scan(identity, in_axes={ai}, out_axes={ao}, reverse={rev}) on shape {list(a.shape)} is not moveaxis: {impl}', case)
        continue
    m = outs[k]
    m = ('ok', canon_arr(m[1])) if m[0] == 'ok' else m
    if m != impl:
      ctx.disagreements_checked += 1
      ctx.violation('axes-scan-model-mismatch', f'model {str(m)[:200]} vs implementation {str(impl)[:200]} on {case}', case, concrete=False)
      continue
    # shape-level reading of transpose_to_front (permutation algebra of the theorems)
    ms = outs[len(cases) + k]
    if -r <= ai < r:
      want_s = [a.shape[ai]] + [d for j, d in enumerate(a.shape) if j != (ai % r)]
      if ms != ('ok', want_s):
        ctx.disagreements_checked += 1
        ctx.violation('axes-to-front-model', f'model axesToFront {ms} vs {want_s}', case, concrete=False)


def check_arr_prims(ctx, drv, rng):
  """the model's take / stack / transposes against numpy (assumption A-CONV made executable)"""
  reqs, wants = [], []
  for r in range(1, 4):
    shape = [2, 3, 2][:r]
    a = np.arange(int(np.prod(shape)), dtype=np.int32).reshape(shape) - 3
    for ax in range(-r, r):
      for i in range(shape[ax]):
        reqs.append(('take', [arr_json(a), ax, i]))
        wants.append(arr_json(np.take(a, i, axis=ax)))
      reqs.append(('arr_to_front', [ax, arr_json(a)]))
      wants.append(arr_json(np.moveaxis(a, ax, 0)))
      reqs.append(('arr_from_front', [ax, arr_json(a)]))
      wants.append(arr_json(np.moveaxis(a, 0, ax)))
    for ax in range(-r - 1, r + 1):
      ls = [a + 10 * k for k in range(3)]
      reqs.append(('stack', [ax, [arr_json(x) for x in ls]]))
      wants.append(arr_json(np.stack(ls, axis=ax)))
  outs = drv.run(reqs)
  for (fn, args), w, o in zip(reqs, wants, outs):
    case = {'kind': 'arr-prim', 'fn': fn, 'args': args}
    ctx.case(case)
    ctx.count('arr_prim', fn)
    got = ('ok', canon_arr(o[1])) if o[0] == 'ok' else o
    if got != ('ok', w):
      ctx.disagreements_checked += 1
      ctx.violation('arr-prim-model', f'model {fn} gives {str(got)[:200]}, numpy gives {str(w)[:200]}', case, concrete=False)


def check_length_inference(ctx, drv, rng, thorough):
  """find_length / find_axis_size with their error branches: real lift.scan / lift.vmap on shape-only bodies"""
  cases = []
  sizes = [2, 3]
  for nargs in (0, 1, 2):
    for dims in itertools.product(sizes, repeat=nargs):
      for axes in itertools.product([0, None], repeat=nargs):
        for length in (None, 2, 3):
          cases.append((list(dims), list(axes), length, False))
      if nargs:
        for length in (None, 2, 3):
          for uni in (0, None):
            cases.append((list(dims), uni, length, True))
  if not thorough:
    cases = cases[:6] + rng.sample(cases[6:], 40)
  reqs = []
  for dims, axes, length, uni in cases:
    cfg = {'bcast': False, 'carry': False, 'axes': [], 'split': [], 'in_axes': axes, 'out_axes': 0, 'length': length, 'reverse': False, 'unroll': 1}
    prog = {'shape': [], 'stmts': [], 'carry': [['c', 0]], 'ys': []}
    args = [{'s': [d], 'd': [0] * d} for d in dims]
    reqs.append(('scan', [cfg, prog, True, [], [], [{'s': [], 'd': [1]}], args]))
  outs = drv.run(reqs)
  for (dims, axes, length, uni), o in zip(cases, outs):
    case = {'kind': 'length-inference', 'dims': dims, 'in_axes': axes, 'length': length}
    ctx.case(case)
    body = lambda scope, c, *xs: (c, ())
    ia = axes_py_scan(axes)
    try:
      args = [jnp.zeros((d,), jnp.int32) for d in dims]
      (c, _), _ = flax_core.apply(lambda s, c, *xs: lift.scan(body, in_axes=ia, length=length)(s, c, *xs), mutable=True)({}, jnp.ones((), jnp.int32), *args)
      impl = ('ok', None)
    except Exception as e:
      impl = classify(e)
    # the rule as the property states it
    per = axes_expand(axes, len(dims))
    seen = {d for d, ax in zip(dims, per) if ax is not None} if not uni else ({dims[0]} if (axes is not None and dims) else set())
    if len(seen) > 1:
      want = 'ValueError'
    elif length is None and not seen:
      want = 'ValueError'
    else:
      n = length if length is not None else next(iter(seen))
      allseen = {d for d, ax in zip(dims, per) if ax is not None}
      want = 'ok' if all(d == n for d in allseen) else 'ValueError'
    ctx.count('length_inference', want)
    got = impl[1] if impl[0] == 'err' else 'ok'
    if got != want:
      ctx.violation('scan-length-inference', f'lift.scan with arg sizes {dims}, in_axes={axes}, length={length}: {got}, expected {want}', case)
      continue
    mo = o[1] if o[0] == 'err' else 'ok'
    if mo != got:
      ctx.disagreements_checked += 1
      ctx.violation('scan-length-inference-model', f'model {mo} vs implementation {got} on {case}', case, concrete=False)


def check_axis_size_inference(ctx, drv, rng, thorough):
  """find_axis_size (lift.vmap): sizes come from the first leaf of every mapped collection group and from the
  mapped arguments; two different sizes / none at all without axis_size are flax's errors (ValueError)"""
  cases = []
  for pdims in ([], [2], [3], [2, 3]):          # a mapped collection P with 0..2 variables (axis 0), sizes pdims
    for adims in ([], [2], [3]):                # one optional mapped argument
      for axis_size in (None, 2, 3):
        for p_axis in (0, None):
          cases.append((pdims, adims, axis_size, p_axis))
  if not thorough:
    cases = rng.sample(cases, 30)
  reqs = []
  for pdims, adims, axis_size, p_axis in cases:
    cfg = {'axes': [['P', p_axis, 'both']], 'split': [], 'in_axes': 0 if adims else 0, 'out_axes': 0, 'axis_size': axis_size}
    prog = {'shape': [], 'stmts': [], 'carry': [], 'ys': []}
    outer = [['P', [['v%d' % k, {'s': [d], 'd': [0] * d}] for k, d in enumerate(pdims)]]] if pdims else []
    args = [{'s': [d], 'd': [0] * d} for d in adims]
    reqs.append(('vmap', [cfg, prog, False, outer, [], args]))
  outs = drv.run(reqs)
  for (pdims, adims, axis_size, p_axis), o in zip(cases, outs):
    case = {'kind': 'axis-size-inference', 'collection_sizes': pdims, 'arg_sizes': adims, 'axis_size': axis_size, 'collection_axis': p_axis}
    ctx.case(case)
    variables = {'P': {'v%d' % k: jnp.zeros((d,), jnp.int32) for k, d in enumerate(pdims)}} if pdims else {}
    args = [jnp.zeros((d,), jnp.int32) for d in adims]
    try:
      fn = lift.vmap(lambda scope, *xs: (), variable_axes={'P': p_axis}, split_rngs={}, in_axes=0, out_axes=0, axis_size=axis_size)
      flax_core.apply(fn, mutable=False)(variables, *args)
      impl = 'ok'
    except Exception as e:
      impl = type(e).__name__
    # the rule: what flax reads (first leaf of the group, the arguments), then jax's check over all mapped leaves
    read = ([pdims[0]] if (pdims and p_axis is not None) else []) + ([adims[0]] if adims else [])
    mapped = (pdims if p_axis is not None else []) + adims
    if len(set(read)) > 1 or (axis_size is None and not read):
      want = 'ValueError'
    else:
      n = axis_size if axis_size is not None else read[0]
      want = 'ok' if all(d == n for d in mapped) else 'ValueError'
    ctx.count('axis_size_inference', want)
    if impl != want:
      ctx.violation('vmap-axis-size-inference', f'lift.vmap with collection sizes {pdims} (axis {p_axis}), argument sizes {adims}, axis_size={axis_size}: {impl}, expected {want}', case)
      continue
    mo = o[1] if o[0] == 'err' else 'ok'
    if mo != impl:
      ctx.disagreements_checked += 1
      ctx.violation('vmap-axis-size-inference-model', f'model {mo} vs implementation {impl} on {case}', case, concrete=False)


# ------------------------------------------------------------------------------------------------
# lifting over several scopes: a body Module that holds bound sub-Modules handed in from OUTSIDE the lift
# (constructor attributes).  nn.scan / nn.vmap collect their scopes (get_module_scopes) and re-bind them inside
# (set_module_scopes); the single-scope Lean model does not cover this, the property oracle does: the lifted
# result must equal the explicit per-step / per-index application of the unlifted body on the same variables.
# ------------------------------------------------------------------------------------------------

SUB_NAMES = ['proj', 'head', 'zeta', 'alpha', 'mid', 'beta', 'out', 'enc']


class _Lin(nn.Module):
  """integer layer: 'ew' y = w*x + b (w: (d,)), 'mm' y = x @ w + b (w: (d, d)); counts its calls in 'cnt'"""
  kind: str = 'ew'
  d: int = 2
  step: int = 1

  @nn.compact
  def __call__(self, x):
    wshape = (self.d,) if self.kind == 'ew' else (self.d, self.d)
    w = self.param('w', lambda k: jnp.zeros(wshape, jnp.int32))
    b = self.param('b', lambda k: jnp.zeros((self.d,), jnp.int32))
    if self.has_variable('cnt', 'n') or self.is_mutable_collection('cnt'):
      n = self.variable('cnt', 'n', lambda: jnp.zeros((), jnp.int32))
      if self.is_mutable_collection('cnt'):
        n.value = n.value * 2 + self.step
      x = x + n.value
    return (w * x if self.kind == 'ew' else x @ w) + b


_SUB_CLASSES = {}


def _sub_body(names, style):
  """a Module class whose dataclass fields, in DECLARATION order `names`, are the sub-Modules it applies in that
  order (composition is not commutative: distinct w, b per layer)"""
  key = (tuple(names), style)
  if key in _SUB_CLASSES:
    return _SUB_CLASSES[key]
  if style == 'scan':
    def call(self, c, x):
      for nm in names[:-1]:
        c = getattr(self, nm)(c) + x
      return c, getattr(self, names[-1])(c) - x
  else:
    def call(self, x):
      y = x
      for k_, nm in enumerate(names):
        y = getattr(self, nm)(y) + (k_ + 1) * x
      return y
  cls = type('SubBody', (nn.Module,), {'__annotations__': {nm: nn.Module for nm in names}, '__call__': call})
  _SUB_CLASSES[key] = cls
  return cls


def _sub_layers(case):
  return [_Lin(kind=k, d=case['d'], step=i + 1, name=nm) for i, (nm, k) in enumerate(zip(case['names'], case['kinds']))]


def _sub_lift_kwargs(case):
  pax = case['params_axis']
  if case['lift'] == 'scan':
    kw = dict(split_rngs={'params': False}, in_axes=case['in_axis'], out_axes=case['out_axis'], reverse=case['reverse'],
              unroll=case['unroll'], check_constancy_invariants=case['check_const'])
    if pax is None:
      kw['variable_broadcast'] = 'params'
    else:
      kw['variable_axes'] = {'params': pax}
    if case['cnt']:
      kw['variable_carry'] = 'cnt'
    return kw
  axes = {'params': pax}
  if case['cnt']:
    axes['cnt'] = None
  return dict(variable_axes=axes, split_rngs={'params': False}, in_axes=case['in_axis'], out_axes=case['out_axis'])


def _sub_variables(case):
  r = np.random.RandomState(case['vseed'])
  T, d = case['T'], case['d']
  params, cnt = {}, {}
  for nm, k in zip(case['names'], case['kinds']):
    wshape = (d,) if k == 'ew' else (d, d)
    def mk(shape):
      a = r.randint(-3, 4, size=shape).astype(np.int32)
      return a
    def lifted(shape):
      pax = case['params_axis']
      if pax is None:
        return mk(shape)
      full = list(shape)
      full.insert(norm_ax(pax, len(shape) + 1), T)
      return mk(tuple(full))
    params[nm] = {'w': lifted(wshape), 'b': lifted((d,))}
    cnt[nm] = {'n': np.asarray(r.randint(0, 3), np.int32)}
  v = {'params': params}
  if case['cnt']:
    v['cnt'] = cnt
  return v


def _sub_inputs(case):
  r = np.random.RandomState(case['vseed'] + 1)
  T, d = case['T'], case['d']
  sh = [d]
  sh.insert(norm_ax(case['in_axis'], 2), T)
  xs = r.randint(-2, 3, size=sh).astype(np.int32)
  c = r.randint(-2, 3, size=(d,)).astype(np.int32)
  return c, xs


def run_submodule_impl(case):
  names, lift_ = case['names'], case['lift']
  Body = _sub_body(names, lift_)
  kw = _sub_lift_kwargs(case)

  class Top(nn.Module):
    @nn.compact
    def __call__(self, *a):
      layers = _sub_layers(case)
      L = (nn.scan if lift_ == 'scan' else nn.vmap)(Body, **kw)
      return L(*layers)(*a)

  variables = jax.tree_util.tree_map(jnp.asarray, _sub_variables(case))
  c, xs = _sub_inputs(case)
  a = (jnp.asarray(c), jnp.asarray(xs)) if lift_ == 'scan' else (jnp.asarray(xs),)
  mutable = ['cnt'] if (case['cnt'] and lift_ == 'scan') else False
  try:
    res = Top().apply(variables, *a, mutable=mutable)
    out, upd = res if mutable else (res, {})
    return ('ok', jax.tree_util.tree_map(np.asarray, (out, flax_core.unfreeze(upd))))
  except Exception as e:
    return classify(e)


def run_submodule_oracle(case):
  """explicit loop / per-index stack: the UNLIFTED body applied once per step to the same variables, every lifted
  collection sliced along its declared axis"""
  names, lift_ = case['names'], case['lift']
  Body = _sub_body(names, lift_)

  class Step(nn.Module):
    @nn.compact
    def __call__(self, *a):
      return Body(*_sub_layers(case))(*a)

  variables = _sub_variables(case)
  c, xs = _sub_inputs(case)
  T, pax = case['T'], case['params_axis']
  try:
    ys = [None] * T
    cnt = variables.get('cnt')
    order = list(range(T))
    if lift_ == 'scan' and case['reverse']:
      order.reverse()
    for t in order:
      v = {'params': variables['params'] if pax is None else jax.tree_util.tree_map(lambda a: take(a, t, pax), variables['params'])}
      if cnt is not None:
        v['cnt'] = cnt
      x_t = take(xs, t, case['in_axis'])
      if lift_ == 'scan':
        mutable = ['cnt'] if case['cnt'] else False
        res = Step().apply(v, c, x_t, mutable=mutable)
        (c, ys[t]), upd = res if mutable else (res, {})
        if mutable:
          cnt = flax_core.unfreeze(upd)['cnt']
      else:
        ys[t] = Step().apply(v, x_t)
    y = stack([np.asarray(a) for a in ys], case['out_axis'])
    if lift_ == 'scan':
      return ('ok', jax.tree_util.tree_map(np.asarray, ((c, y), {'cnt': cnt} if case['cnt'] else {})))
    return ('ok', jax.tree_util.tree_map(np.asarray, (y, {})))
  except Exception as e:
    return classify(e)


def gen_submodule_case(rng):
  k = rng.choice([2, 2, 3])
  names = rng.sample(SUB_NAMES, k)
  if names == sorted(names):
    names.reverse()  # declaration order must differ from alphabetical order
  lift_ = rng.choice(['scan', 'scan', 'vmap'])
  same_shapes = rng.random() < 0.7
  kinds = [rng.choice(['ew', 'mm'])] * k if same_shapes else [rng.choice(['ew', 'mm']) for _ in range(k)]
  if not same_shapes and len(set(kinds)) == 1:
    kinds[0] = 'mm' if kinds[0] == 'ew' else 'ew'
  return {
    'kind': 'submods', 'lift': lift_, 'names': names, 'kinds': kinds, 'd': rng.choice([2, 3]), 'T': rng.choice([2, 3, 4]),
    'params_axis': rng.choice([None, None, 0, -1]), 'cnt': rng.random() < 0.5,
    'in_axis': rng.choice([0, 1, -1, -2]), 'out_axis': rng.choice([0, 1, -1, -2]),
    'reverse': rng.random() < 0.5, 'unroll': rng.choice([1, 2]), 'check_const': rng.random() < 0.7,
    'vseed': rng.randrange(10 ** 6),
  }


def _tree_json(t):
  return jax.tree_util.tree_map(lambda a: arr_json(a), t)


def check_submodule_case(ctx, case):
  case = {k: v for k, v in case.items() if k != 'origin'}
  ctx.case(case)
  ctx.count('submodule_family', f"{case['lift']}/{len(case['names'])} attrs/{'same' if len(set(case['kinds'])) == 1 else 'different'} shapes/params axis {case['params_axis']}")
  impl = run_submodule_impl(case)
  orc = run_submodule_oracle(case)
  _housekeeping()
  if orc[0] == 'err':
    if impl[0] == 'ok':
      ctx.violation(f"{case['lift']}-submodules-works-where-loop-raises", f'the explicit application raised {orc[1]} but nn.{case["lift"]} over sub-Module attributes {case["names"]} returned a value', case)
    else:
      ctx.count('submodule_error_agreed', f'{impl[1]}')
    return
  if impl[0] == 'err':
    ctx.violation(f"{case['lift']}-submodules-raises-where-loop-works", f'nn.{case["lift"]} over a body with sub-Module attributes {case["names"]} (declaration order) raised {impl[1]}; the explicit per-step application on the same variables works', case)
    return
  a, b = _tree_json(impl[1]), _tree_json(orc[1])
  if a != b:
    ctx.violation(f"{case['lift']}-submodules-differ-from-loop", f'nn.{case["lift"]} over a body holding sub-Modules {case["names"]} (kinds {case["kinds"]}) differs from the explicit per-step application on the same variables: lifted={json.dumps(a)[:300]} loop={json.dumps(b)[:300]}', case)


# ------------------------------------------------------------------------------------------------
# a broadcast collection shared with a SIBLING module: function-style nn.scan(body, variable_broadcast='params')
# on the enclosing module after a sibling layer has already put variables into 'params' (init), or apply with
# a partly populated mutable 'params' — the variables the body creates lazily must be initialised once and
# published next to the existing ones
# ------------------------------------------------------------------------------------------------


class _P(nn.Module):
  val: int = 1
  d: int = 2

  @nn.compact
  def __call__(self, x):
    w = self.param('w', lambda k: jnp.full((self.d,), self.val, jnp.int32))
    b = self.param('b', lambda k: jnp.full((self.d,), self.val + 1, jnp.int32))
    return w * x + b


def _sib_modules(case):
  inner_names, vals, d = case['inner'], case['vals'], case['d']

  def step(c, x, layers):
    for k_, lyr in enumerate(layers):
      c = lyr(c) + (k_ + 1) * x
    return c, c - x

  class Lifted(nn.Module):
    @nn.compact
    def __call__(self, c, xs):
      c = _P(val=case['sib_val'], d=d, name=case['sib'])(c)

      def body(mdl, c, x):
        return step(c, x, [_P(val=v, d=d, name=nm) for nm, v in zip(inner_names, vals)])

      return nn.scan(body, variable_broadcast='params', split_rngs={'params': False}, in_axes=case['in_axis'],
                     out_axes=case['out_axis'], reverse=case['reverse'], unroll=case['unroll'])(self, c, xs)

  class Loop(nn.Module):
    @nn.compact
    def __call__(self, c, xs):
      c = _P(val=case['sib_val'], d=d, name=case['sib'])(c)
      layers = [_P(val=v, d=d, name=nm) for nm, v in zip(inner_names, vals)]
      T = xs.shape[norm_ax(case['in_axis'], xs.ndim)]
      ys = [None] * T
      for t in (reversed(range(T)) if case['reverse'] else range(T)):
        c, ys[t] = step(c, jnp.take(xs, t, axis=case['in_axis']), layers)
      return c, jnp.stack(ys, axis=case['out_axis'])

  return Lifted, Loop


def gen_sibling_case(rng):
  names = rng.sample(['dense', 'alpha', 'zz', 'cell', 'mid'], 3)
  n_inner = rng.choice([1, 2])
  return {'kind': 'sibling', 'sib': names[0], 'inner': names[1:1 + n_inner], 'sib_val': rng.randrange(1, 4),
          'vals': [rng.randrange(-2, 4) for _ in range(n_inner)], 'd': rng.choice([2, 3]), 'T': rng.choice([2, 3]),
          'in_axis': rng.choice([0, 1, -1]), 'out_axis': rng.choice([0, 1, -1]), 'reverse': rng.random() < 0.5,
          'unroll': rng.choice([1, 2]), 'mode': rng.choice(['init', 'init', 'apply-partial']), 'vseed': rng.randrange(10 ** 6)}


def check_sibling_case(ctx, case):
  case = {k: v for k, v in case.items() if k != 'origin'}
  ctx.case(case)
  ctx.count('sibling_family', f"{case['mode']}/{len(case['inner'])} lazily created")
  Lifted, Loop = _sib_modules(case)
  r = np.random.RandomState(case['vseed'])
  d, T = case['d'], case['T']
  sh = [d]
  sh.insert(norm_ax(case['in_axis'], 2), T)
  c = jnp.asarray(r.randint(-2, 3, size=(d,)).astype(np.int32))
  xs = jnp.asarray(r.randint(-2, 3, size=sh).astype(np.int32))

  def run(M):
    try:
      if case['mode'] == 'init':
        out, v = M().init_with_output(jax.random.key(0), c, xs)
      else:
        # the sibling's variables and the first lazily-created module's `w` are supplied; the rest is created
        given = {case['sib']: {'w': jnp.full((d,), 5, jnp.int32), 'b': jnp.full((d,), -1, jnp.int32)}}
        out, v = M().apply({'params': given}, c, xs, mutable=['params'])
        v = {'params': {**given, **flax_core.unfreeze(v)['params']}}
      return ('ok', _tree_json(jax.tree_util.tree_map(np.asarray, (out, flax_core.unfreeze(v)))))
    except Exception as e:
      return classify(e)

  impl, orc = run(Lifted), run(Loop)
  _housekeeping()
  if orc[0] == 'err':
    if impl[0] == 'ok':
      ctx.violation('scan-sibling-works-where-loop-raises', f'the explicit loop raised {orc[1]} but the lifted scan returned a value', case)
    return
  if impl[0] == 'err':
    ctx.violation('scan-sibling-raises-where-loop-works', f'nn.scan(body, variable_broadcast="params") next to sibling module {case["sib"]!r} raised {impl[1]}; the explicit loop works', case)
  elif impl[1] != orc[1]:
    ctx.violation('scan-sibling-broadcast-differs-from-loop', f'nn.scan(body, variable_broadcast="params") sharing "params" with sibling {case["sib"]!r} ({case["mode"]}): result / returned variable tree differ from the explicit loop: lifted={json.dumps(impl[1])[:300]} loop={json.dumps(orc[1])[:300]}', case)


# ------------------------------------------------------------------------------------------------
# axis collections of nn.Partitioned boxes: the slice the body sees is the box with the entry AT THE AXIS taken
# out of its names, the re-stacked collection carries the original names (add_axis / remove_axis are C19's
# theorems; here only the C06 clause "one slice per iteration along the declared axis", for values and names)
# ------------------------------------------------------------------------------------------------

_BOX_SEEN = []


def _boxed_cell(names, d):
  names = tuple(names)

  class BoxCell(nn.Module):
    @nn.compact
    def __call__(self, c, x):
      w = self.param('w', nn.with_partitioning(lambda k: jnp.zeros((d, d), jnp.int32), names))
      acc = self.variable('state', 'acc', nn.with_partitioning(lambda: jnp.zeros((d, d), jnp.int32), names))
      _BOX_SEEN.append(('w', tuple(self.variables['params']['w'].names)))
      _BOX_SEEN.append(('acc', tuple(self.variables['state']['acc'].names)))
      y = x @ w + c
      acc.value = acc.value * 2 + w
      return c + 1, y

  return BoxCell


def gen_boxed_case(rng):
  return {'kind': 'boxed', 'lift': rng.choice(['scan', 'vmap']), 'axis': rng.choice([0, 1, 2, -1, 2, -1]),
          'pname': rng.choice(['layers', None, None]), 'names': rng.choice([[None, 'model'], ['data', None], [None, None], ['data', 'model']]),
          'd': 2, 'T': rng.choice([2, 3]), 'vseed': rng.randrange(10 ** 6)}


def check_boxed_case(ctx, case):
  case = {k: v for k, v in case.items() if k != 'origin'}
  ctx.case(case)
  ctx.count('boxed_family', f"{case['lift']}/axis {case['axis']}/partition name {case['pname']}")
  d, T, ax, pname = case['d'], case['T'], case['axis'], case['pname']
  names = tuple(case['names'])
  k = norm_ax(ax, 3)
  st_names = list(names)
  st_names.insert(k, pname)
  r = np.random.RandomState(case['vseed'])
  sh = [d, d]
  sh.insert(k, T)
  w = r.randint(-2, 3, size=sh).astype(np.int32)
  acc = r.randint(-2, 3, size=sh).astype(np.int32)
  xs = r.randint(-2, 3, size=(T, d)).astype(np.int32)
  c0 = r.randint(-2, 3, size=(d,)).astype(np.int32)
  Cell = _boxed_cell(names, d)
  box = lambda a, nm: nn.Partitioned(jnp.asarray(a), tuple(nm))
  stacked = {'params': {'w': box(w, st_names)}, 'state': {'acc': box(acc, st_names)}}
  kw = dict(variable_axes={'params': ax, 'state': ax}, split_rngs={'params': False}, metadata_params={nn.PARTITION_NAME: pname})
  del _BOX_SEEN[:]
  try:
    if case['lift'] == 'scan':
      (c, ys), upd = nn.scan(Cell, in_axes=0, out_axes=0, **kw)().apply(stacked, jnp.asarray(c0), jnp.asarray(xs), mutable=['state'])
    else:
      (c, ys), upd = nn.vmap(Cell, in_axes=(None, 0), out_axes=(None, 0), **kw)().apply(stacked, jnp.asarray(c0), jnp.asarray(xs), mutable=['state'])
    a_out = flax_core.unfreeze(upd)['state']['acc']
    impl = ('ok', {'c': arr_json(c), 'ys': arr_json(ys), 'acc': arr_json(a_out.value), 'acc_names': list(a_out.names),
                   'seen': sorted(set(_BOX_SEEN), key=str)})
  except Exception as e:
    impl = classify(e)
  _housekeeping()
  # explicit loop on the slices: value slice i along the axis, names with the entry AT the axis removed
  c = jnp.asarray(c0)
  ys, accs = [], []
  for i in range(T):
    sl = {'params': {'w': box(np.take(w, i, axis=k), names)}, 'state': {'acc': box(np.take(acc, i, axis=k), names)}}
    (c_i, y), upd = Cell().apply(sl, c if case['lift'] == 'scan' else jnp.asarray(c0), jnp.asarray(xs[i]), mutable=['state'])
    if case['lift'] == 'scan':
      c = c_i
    ys.append(np.asarray(y))
    accs.append(np.asarray(flax_core.unfreeze(upd)['state']['acc'].value))
  c_want = c if case['lift'] == 'scan' else jnp.asarray(c0) + 1
  want = {'c': arr_json(c_want), 'ys': arr_json(np.stack(ys)), 'acc': arr_json(np.stack(accs, axis=k)), 'acc_names': list(st_names),
          'seen': sorted({('w', names), ('acc', names)}, key=str)}
  if impl[0] == 'err':
    ctx.violation(f"{case['lift']}-boxed-raises-where-loop-works", f'nn.{case["lift"]} over nn.Partitioned boxes (axis {ax}, names {st_names}, partition name {pname!r}) raised {impl[1]}; the per-index loop on the slices works', case)
    return
  got = impl[1]
  if got != want:
    diff = [f for f in want if got[f] != want[f]]
    ctx.violation(f"{case['lift']}-boxed-differs-from-loop", f'nn.{case["lift"]} over nn.Partitioned boxes (axis {ax}, stacked names {st_names}, partition name {pname!r}) differs from the per-index loop in {diff}: lifted={ {f: got[f] for f in diff} } loop={ {f: want[f] for f in diff} }'[:600], case)


# ------------------------------------------------------------------------------------------------
# a lifted scope together with a DESCENDANT of it at depth >= 2 (intermediate scopes not lifted themselves):
# function-form nn.scan / nn.vmap over `self` with a sub-sub-module passed into the body, and core lift.scan /
# lift.vmap over the scope tree (root, root/a/b[/c]).  Oracle: the explicit loop (init paths and values, then
# apply of the lifted program on the variables the loop made); a raise on the lifted side only is a violation.
# ------------------------------------------------------------------------------------------------

NEST_NAMES = ['enc', 'emb', 'mid', 'leaf', 'outer', 'blk', 'a', 'b', 'c']


def _nested_linen(names, d, val, form):
  import functools

  def mk(level):
    if level == len(names) - 1:
      return lambda: _P(val=val, d=d)
    child, nm = mk(level + 1), names[level + 1]

    def setup(self):
      setattr(self, nm, child())

    cls = type(f'Lvl{level}', (nn.Module,), {'setup': setup})
    return lambda: cls()

  first = mk(0)

  def setup(self):
    setattr(self, names[0], first())

  leaf_of = lambda self: functools.reduce(getattr, names, self)

  def call_scan(self, c, xs):
    def body(mdl, c, x, emb):
      h = emb(x)
      return c * 2 + h, h - c

    return nn.scan(body, variable_broadcast='params', split_rngs={'params': False}, in_axes=(0, nn.broadcast))(self, c, xs, leaf_of(self))

  def call_vmap(self, c, xs):
    f = lambda mdl, x, emb: emb(x) + x
    return c, nn.vmap(f, variable_axes={'params': None}, split_rngs={'params': False}, in_axes=(0, None))(self, xs, leaf_of(self))

  def call_loop(self, c, xs):
    emb, ys = leaf_of(self), []
    for t in range(xs.shape[0]):
      h = emb(xs[t])
      if form == 'scan':
        c, y = c * 2 + h, h - c
      else:
        y = h + xs[t]
      ys.append(y)
    return c, jnp.stack(ys)

  Lifted = type('NestLifted', (nn.Module,), {'setup': setup, '__call__': call_scan if form == 'scan' else call_vmap})
  Loop = type('NestLoop', (nn.Module,), {'setup': setup, '__call__': call_loop})
  return Lifted, Loop


def _nested_core(names, form):
  def leaf_scope(scope):
    lf = scope
    for nm in names:
      lf = lf.push(nm)
    return lf

  def lifted(scope, xs):
    leaf = leaf_scope(scope)
    if form == 'scan':
      leaf.variable('state', 'count', lambda: jnp.zeros((), jnp.int32))

      def body(scopes, c, x):
        cnt = scopes[1].variable('state', 'count', lambda: jnp.zeros((), jnp.int32))
        cnt.value = cnt.value * 2 + x
        return c + cnt.value, cnt.value

      return lift.scan(body, variable_carry='state')((scope, leaf), jnp.zeros((), jnp.int32), xs)

    def f(scopes, x):
      w = scopes[1].variable('state', 'w', lambda: jnp.full((), 3, jnp.int32))
      return w.value * x

    return jnp.zeros((), jnp.int32), lift.vmap(f, variable_axes={'state': None}, split_rngs={})((scope, leaf), xs)

  def loop(scope, xs):
    leaf = leaf_scope(scope)
    c, ys = jnp.zeros((), jnp.int32), []
    if form == 'scan':
      cnt = leaf.variable('state', 'count', lambda: jnp.zeros((), jnp.int32))
      for t in range(xs.shape[0]):
        cnt.value = cnt.value * 2 + xs[t]
        c, ys = c + cnt.value, ys + [cnt.value]
    else:
      w = leaf.variable('state', 'w', lambda: jnp.full((), 3, jnp.int32))
      ys = [w.value * xs[t] for t in range(xs.shape[0])]
    return c, jnp.stack(ys)

  return lifted, loop


def gen_nested_case(rng):
  depth = rng.choice([2, 2, 3])
  names = rng.sample(NEST_NAMES, depth)
  if names == names[::-1]:
    names = ['enc', 'emb'][:depth] + ['leaf'] * (depth - 2)
  return {'kind': 'nested', 'api': rng.choice(['linen', 'core']), 'form': rng.choice(['scan', 'vmap']), 'names': names,
          'd': 2, 'T': rng.choice([2, 3]), 'val': rng.randrange(1, 4), 'vseed': rng.randrange(10 ** 6)}


def check_nested_case(ctx, case):
  case = {k: v for k, v in case.items() if k != 'origin'}
  ctx.case(case)
  ctx.count('nested_descendant_family', f"{case['api']}/{case['form']}/depth {len(case['names'])}")
  r = np.random.RandomState(case['vseed'])
  T, d = case['T'], case['d']
  tj = lambda t: _tree_json(jax.tree_util.tree_map(np.asarray, flax_core.unfreeze(t) if hasattr(t, 'items') else t))

  def attempt(fn):
    try:
      return ('ok', fn())
    except Exception as e:
      return classify(e)

  if case['api'] == 'linen':
    Lifted, Loop = _nested_linen(case['names'], d, case['val'], case['form'])
    xs = jnp.asarray(r.randint(-2, 3, size=(T, d)).astype(np.int32))
    c0 = jnp.asarray(r.randint(-2, 3, size=(d,)).astype(np.int32))
    key = jax.random.key(0)
    ref_init = attempt(lambda: Loop().init_with_output(key, c0, xs))
    got_init = attempt(lambda: Lifted().init_with_output(key, c0, xs))
    ref_apply = attempt(lambda: Loop().apply(ref_init[1][1], c0, xs)) if ref_init[0] == 'ok' else ('err', 'skip')
    got_apply = attempt(lambda: Lifted().apply(ref_init[1][1], c0, xs)) if ref_init[0] == 'ok' else ('err', 'skip')
  else:
    lifted, loop = _nested_core(case['names'], case['form'])
    xs = jnp.asarray(r.randint(-2, 3, size=(T,)).astype(np.int32))
    key = jax.random.key(0)
    ref_init = attempt(lambda: flax_core.init(loop)(key, xs))
    got_init = attempt(lambda: flax_core.init(lifted)(key, xs))
    ref_apply = attempt(lambda: flax_core.apply(loop, mutable='state')(ref_init[1][1], xs)) if ref_init[0] == 'ok' else ('err', 'skip')
    got_apply = attempt(lambda: flax_core.apply(lifted, mutable='state')(ref_init[1][1], xs)) if ref_init[0] == 'ok' else ('err', 'skip')
  _housekeeping()
  where = f"{'nn' if case['api'] == 'linen' else 'lift'}.{case['form']} with the descendant {'/'.join(case['names'])} of the lifted scope"
  for phase, ref, got in (('init', ref_init, got_init), ('apply', ref_apply, got_apply)):
    if ref[0] != 'ok':
      continue
    if got[0] != 'ok':
      ctx.violation(f"{case['form']}-nested-raises-where-loop-works", f'{where}: {phase} raised {got[1]}; the explicit loop works', case)
      return
    a, b = tj(got[1]), tj(ref[1])
    if a != b:
      ctx.violation(f"{case['form']}-nested-differs-from-loop", f'{where}: {phase} differs from the explicit loop (outputs / variable paths / values): lifted={json.dumps(a)[:300]} loop={json.dumps(b)[:300]}', case)
      return


# ------------------------------------------------------------------------------------------------
# entry points
# ------------------------------------------------------------------------------------------------


_SINCE_CLEAR = [0]
_CLEAR_EVERY = [120]


def _housekeeping(every=None):
  """every configuration compiles its own XLA executables (scan bodies, eager ops per shape); in a long run they
  accumulate until LLVM cannot map memory.  Drop the compiled-function caches and the generated module classes
  every `every` configurations."""
  every = every or _CLEAR_EVERY[0]
  _SINCE_CLEAR[0] += 1
  if _SINCE_CLEAR[0] >= every:
    _SINCE_CLEAR[0] = 0
    _MODULES.clear()
    jax.clear_caches()
    import gc

    gc.collect()


def run_cases(ctx, drv, cases):
  for c, st in cases:
    c['stream'] = st  # kept inside the case so that a replay judges it by the same rules
  outs = drv.run([model_request(c) for c, _ in cases])
  for (case, stream), o in zip(cases, outs):
    nontrivial = case.get('n', 2) >= 2 or len(case['outer']) >= 1
    canon = {k: v for k, v in case.items() if k != 'n'}
    ctx.case(canon, nontrivial=nontrivial)
    ctx.count('stream', stream)
    if stream == 'wild':
      ctx.count('mutation', case.get('mutation'))
    ctx.count('length', case.get('n'))
    if case['kind'] == 'scan':
      ctx.count('reverse', case['cfg']['reverse'])
      ctx.count('check_constancy_invariants/reverse', f"{case['cfg'].get('check_const', True)}/{case['cfg']['reverse']}")
      ctx.count('unroll', 'n' if case['cfg']['unroll'] == case.get('n') and case.get('n') not in (1, 2) else case['cfg']['unroll'])
      for a in case['cfg']['axes']:
        ctx.count('scan_axis', a[1])
        ctx.count('axis_mode', a[2])
      ctx.count('in_axes_form', 'per-arg' if isinstance(case['cfg']['in_axes'], list) else 'uniform')
    if case['kind'] == 'vmap':
      for a in case['cfg']['axes']:
        ctx.count('vmap_axis', a[1])
    for f, b in case['cfg']['split']:
      ctx.count('split_flag', b)
    ctx.count('n_collections', len(case['outer']))
    _role_stats(ctx, case)
    _rank_stats(ctx, case)
    if o[0] == 'ok':
      ctx.count('verdict', o[1]['verdict'])
    check_case(ctx, o, case, stream)
    _housekeeping()


def _has_bc(e):
  return isinstance(e, list) and (e[0] == 'bc' or any(_has_bc(x) for x in e[1:] if isinstance(x, list)))


def _rank_stats(ctx, case):
  """how often one axis entry covers leaves of different ranks, and with what sign"""
  prog = case['prog']
  if case['kind'] == 'remat':
    return
  hi_regs = {st[1] for st in prog['stmts'] if st[0] == 'var' and _has_bc(st[4])}
  ys_hi = [_has_bc(e) or (e[0] == 'r' and e[1] in hi_regs) for e in prog['ys']]
  keys = [e[0] == 'r' and e[1].startswith('g') for e in prog['ys']]
  oa = case['cfg']['out_axes']
  if any(ys_hi) and not all(h or k for h, k in zip(ys_hi, keys)):
    form = 'per-output' if isinstance(oa, list) else 'single-int'
    axes = [a for a, k in zip(axes_expand(oa, len(ys_hi)), keys) if not k and a is not None]
    sign = 'negative' if any(a < 0 for a in axes) else 'non-negative'
    first = 'low-rank-first' if not ys_hi[0] else 'high-rank-first'
    ctx.count('mixed_rank_outputs', f'{form}/{sign}/{first}')
  cols = {}
  for st in prog['stmts']:
    if st[0] == 'var':
      cols.setdefault(st[2], []).append(_has_bc(st[4]))
  for a in case['cfg']['axes']:
    if a[1] is None:
      continue
    for c, hs in cols.items():
      if in_filter(a[0], c) and any(hs) and not all(hs):
        ctx.count('mixed_rank_axis_collection', ('negative' if a[1] < 0 else 'non-negative') + '/' + ('low-rank-first' if not hs[0] else 'high-rank-first'))


def _role_stats(ctx, case):
  cfg = case['cfg']
  pre = [cfg['bcast'], cfg['carry']] if 'bcast' in cfg else []
  in_fs = pre + [a[0] for a in cfg['axes'] if a[2] != 'out']
  out_fs = pre + [a[0] for a in cfg['axes'] if a[2] != 'in']
  present = {c for c, _ in case['outer']}
  touched = {st[2] for st in case['prog']['stmts'] if st[0] == 'var'}
  written = {st[1] for st in case['prog']['stmts'] if st[0] == 'set'}
  for c in sorted(touched):
    ri, ro = first_role(in_fs, c), first_role(out_fs, c)
    if pre:
      name = {None: 'none', 0: 'bcast', 1: 'carry'}.get(ro if ri is None else ri, 'axis')
    else:
      g = ro if ri is None else ri
      axl = [a for a in cfg['axes'] if a[2] != ('in' if ri is None else 'out')]
      name = 'none' if g is None else ('shared' if axl[g][1] is None else 'axis')
    ctx.count('collection_role', name)
    if c not in present:
      ctx.count('created_inside_loop', name)
    else:
      have = {nm for cc, vs in case['outer'] if cc == c for nm, _ in vs}
      want_ = {st[3] for st in case['prog']['stmts'] if st[0] == 'var' and st[2] == c}
      if want_ - have:
        ctx.count('partly_populated_collection', name)
    if c in written:
      ctx.count('written_in_loop', name)
    if ri != ro:
      ctx.count('in_out_role_differs', f'{ri}->{ro}')


def run(ctx):
  drv = LeanDriver('drv_c06')
  thorough = ctx.tier == 'thorough'
  _CLEAR_EVERY[0] = 120 if thorough else 400  # the quick tier (≈160 configurations) never needs it
  rng = ctx.rng
  for fn, obj in load_corpus('C06'):
    ctx.corpus_replayed += 1
    _run_case(ctx, drv, obj)
  check_arr_prims(ctx, drv, rng)
  check_move_axis(ctx, drv, thorough)
  check_length_inference(ctx, drv, rng, thorough)
  check_axis_size_inference(ctx, drv, rng, thorough)
  for _ in range(16 if not thorough else 300):
    check_submodule_case(ctx, gen_submodule_case(rng))
  for _ in range(8 if not thorough else 120):
    check_sibling_case(ctx, gen_sibling_case(rng))
  for _ in range(10 if not thorough else 120):
    check_boxed_case(ctx, gen_boxed_case(rng))
  for _ in range(8 if not thorough else 100):
    check_nested_case(ctx, gen_nested_case(rng))
  n_scan, n_vmap, n_remat, n_wild = (62, 32, 14, 32) if not thorough else (1200, 600, 200, 600)
  cases = []
  for _ in range(n_scan):
    cases.append((gen_scan_case(rng, 'valid', kind='scan'), 'valid'))
  for _ in range(n_vmap):
    cases.append((gen_scan_case(rng, 'valid', kind='vmap'), 'valid'))
  for _ in range(n_remat):
    cases.append((gen_remat_case(rng), 'valid'))
  for _ in range(n_wild):
    base = gen_scan_case(rng, 'valid', kind=rng.choice(['scan', 'scan', 'vmap']))
    try:
      mutated = mutate_case(rng, base)
    except Exception as e:  # a generator slip must not abort the run: keep the base case, and make it visible
      ctx.count('mutation_generator_fallback', type(e).__name__)
      mutated = dict(copy.deepcopy(base), mutation='none')
    cases.append((mutated, 'wild'))
  for i in range(0, len(cases), 200):
    run_cases(ctx, drv, cases[i : i + 200])
  for c, s in cases[:3] + cases[n_scan : n_scan + 1] + cases[n_scan + n_vmap : n_scan + n_vmap + 1]:
    ctx.sample({k: v for k, v in c.items()})
  ok = ctx.dist.get('impl_outcome', {}).get('ok', 0)
  total = sum(ctx.dist.get('impl_outcome', {}).values())
  if total and ok < 0.5 * total:
    raise InfraError(f'generator degenerated: only {ok}/{total} configurations ran without an exception')
  ctx.extra['exhaustive'] = False
  ctx.extra['driver_calls'] = drv.calls


def _run_case(ctx, drv, obj):
  case = obj.get('case', obj)
  kind = case.get('kind')
  if kind in ('scan', 'vmap', 'remat'):
    case = {k: v for k, v in case.items() if k not in ('want', 'got', 'origin')}
    run_cases(ctx, drv, [(case, case.get('stream', 'valid'))])
  elif kind == 'move_axis':
    check_move_axis(ctx, drv, False)
  elif kind == 'arr-prim':
    check_arr_prims(ctx, drv, ctx.rng)
  elif kind == 'length-inference':
    check_length_inference(ctx, drv, ctx.rng, True)
  elif kind == 'axis-size-inference':
    check_axis_size_inference(ctx, drv, ctx.rng, True)
  elif kind == 'submods':
    check_submodule_case(ctx, case)
  elif kind == 'sibling':
    check_sibling_case(ctx, case)
  elif kind == 'boxed':
    check_boxed_case(ctx, case)
  elif kind == 'nested':
    check_nested_case(ctx, case)
  else:
    ctx.notes.append(f'unknown corpus case kind {kind}')


def replay(ctx, obj):
  drv = LeanDriver('drv_c06')
  _run_case(ctx, drv, obj)
  for v in ctx.violations:
    print('  ', v['key'], '-', v['what'][:300])
  return bool(ctx.violations)
