"""C20 — Host-side data helpers preserve values and order for any batch size and schedule.

Theorems: lean/Flax/Props/C20.lean over lean/Flax/Model/{Prefetch,HostData}.lean.

Correspondence (real flax from /repo vs the compiled Lean driver `drv_c20`) and property oracles
(the property statement evaluated directly on the implementation, independent of the model):

* PrefetchIterator — `flax.training.prefetch_iterator.threading` is replaced, in this process only, by
  a cooperative scheduler (`Coop`): real threads, exactly one runs at a time, control returns to
  the harness at the code's own synchronisation points (`Thread.start`, `next(source)`,
  `Condition.wait_for` blocking), so the harness *chooses* the interleaving.  (A) every maximal
  schedule of the Lean transition system for small sources is replayed step by step on the real
  code (enabled sets and consumer observations compared), (B) implementation-driven random walks
  (incl. `close()` at random points) are judged by the oracle alone, (C) a short soak with the real
  `threading` module.
* prefetch_to_device, pad_shard_unpad, scan_in_dim, replicate/unreplicate, shard, stack_forest,
  get_metrics, onehot — exhaustive small scopes + seeded random, NumPy reference loops as oracle.
"""
from __future__ import annotations

import itertools
import sys
import threading as real_threading
import time
import warnings

from harness import compat  # noqa: F401  (must precede flax)
from harness.common import InfraError, LeanDriver, load_corpus, load_findings

import numpy as np
import jax
import jax.numpy as jnp

import flax.jax_utils as ju
import flax.training.common_utils as cu
import flax.training.prefetch_iterator as pi

warnings.filterwarnings('ignore', category=DeprecationWarning, module=r'flax\.training\.prefetch_iterator')
warnings.filterwarnings('ignore', message='PrefetchIterator is deprecated.*')

SPEC = {
  'exes': ['drv_c20'],
  'rule': (
    'PrefetchIterator: every maximal close-free schedule of the Lean LTS for source lengths n<=3 (quick) / n<=4 '
    '(thorough), buffer_size<=2 (3), both endings (StopIteration / exception at position n, truthy and falsy '
    'exception objects), replayed step by step on the real code under the cooperative scheduler with enabled-set '
    'comparison and blocking probes; model schedules with close() inserted at a random point; implementation-driven '
    'random interleavings with n<=9, buffer_size<=4, close() at random points; line-granular context-bounded '
    'preemption (every line of prefetch_iterator.py is a preemption point; <=1 preemption for n<=2 x buffer_size<=2 x '
    'ending, <=2 for n=0, random many); real-thread soak. '
    'prefetch_to_device: all n<=6 x size<=4 x ending x device count<=2; item alphabet None / {} / () / [] / 0-size / '
    'all-zero / all-False arrays / nested empties / repeated items at every position for n<=6 x size<=4, '
    'list(prefetch_to_device(src)) compared with list(src) by tree structure and values; the same kind of items '
    '(None, 0, 0.0, False, empty str/tuple/dict/list/array, repeated) for PrefetchIterator in a third of the random '
    'interleavings and of the real-thread runs. pad_shard_unpad: all b in [1,40] x d in '
    '{1,2,3,4,8} x min_device_batch in {None,0,1,2,3,5,7,12} with a pytree of inputs, static arg and static kwarg. '
    'scan_in_dim: ranks<=4, every axis tuple in every order and with every sign pattern (non-negative, negative, '
    'mixed entries) for ranks 2-3 (sampled for rank 4), _invert_perm on all permutations of length<=5 plus all sign '
    'patterns for length<=4, keepdims, four '
    'bodies (order-sensitive carry; output of equal / lower / higher rank; layout-sensitive output). '
    'onehot: 23 on/off pairs (0/-inf, inf/-inf, 0.9/0.1, +-finfo.max, -0.0/0.0, ints, bool, float16/bfloat16/float32/'
    'float64/int8/int32 scalars) x label dtypes, every element compared bit-exactly with on_value/off_value. '
    'A case is non-trivial when it has at least one item/row/scanned element; distinct = distinct canonical JSON.'
  ),
  'trusted_base': [
    'hand-written Lean models lean/Flax/Model/Prefetch.lean and lean/Flax/Model/HostData.lean (tied to /repo by this run)',
    'harness/props/c20.py: generators, canonicalisation, NumPy reference loops, and the cooperative scheduler Coop '
    '(monitor contract of threading.Condition/Thread incl. notify bookkeeping and lock ownership: A-THREAD), '
    'cross-checked by a soak with the real threading module',
    'granularity: the Lean LTS and its replay interleave at the code\'s synchronisation points (Thread.start, '
    'next(source), lock acquisition, wait_for) - sound because _buffer/_active/_error are only accessed under the lock '
    'or before the thread exists; that premise is itself checked on the implementation by a line-granular exploration '
    '(sys.settrace preemption point before every line of prefetch_iterator.py, lock ownership respected, judged by the '
    'oracle alone): all single preemptions for n<=2, buffer_size<=2, all pairs for the smallest scope, random '
    'multi-preemption runs; theorem prefetch_iterator_unlocked_active_counterexample shows what an unlocked write costs',
    'harness-side stand-ins for jax.device_put_sharded / jax.device_put_replicated (removed from the installed jax) '
    'and a mocked jax.local_device_count / local_devices, bound on flax.jax_utils.jax and '
    'flax.training.common_utils.jax in the checking process only',
    'lax.scan = left fold over the leading axis with stacked outputs (A-SCAN, rendered by scan1 in the model); '
    'numpy transpose/reshape/concatenate, jax.tree_util.tree_map (A-NP, A-PY)',
    'harness/compat.py (JAX shim)',
  ],
  'assumptions': [
    'buffer_size >= 1 and size >= 1 (buffer_size=0 blocks after the first item, size=0 yields nothing: excluded '
    'points, exhibited by theorems prefetch_iterator_buffer0_deadlocks / prefetch_to_device_size0 and run on the real code)',
    'the source signals failure with an Exception subclass (the producer catches Exception; a BaseException such as '
    'KeyboardInterrupt kills the producer thread and is outside the model)',
    'the all-schedules delivery theorems are about schedules without close(); with close() at arbitrary points only '
    'safety is claimed (prefetch_iterator_close_safety: prefix of the source, exception only after all items)',
    'the exception clause is read as a statement about PrefetchIterator (the only helper with a producer/consumer '
    'interleaving); prefetch_to_device is a generator: a source exception surfaces at the next() that pulled it and '
    'the min(size-1, n) items already buffered are dropped - characterised exactly by theorem '
    'prefetch_to_device_exception (nothing is dropped for size=1) and checked against the implementation',
    'pad_shard_unpad: the wrapped function is per-example (row i of every output depends only on row i of the inputs)',
    'scan_in_dim: axis is a non-empty tuple of axes, negative entries allowed (NumPy semantics -k = rank-k), distinct '
    'after normalisation and fitting the rank of the result; a negative entry is relative to the array a transpose is '
    'applied to, so negative axes are claimed (theorems scan_in_dim_negative_axes[_keepdims]) and generated for bodies '
    'whose output has the rank of the input; one array in, one array out (pytrees are mapped leaf-wise by '
    'jax.tree_util); unroll only affects performance',
  ],
  'model_partial': [],
}


# ================================================================================================
# cooperative scheduler
# ================================================================================================


class _Abort(BaseException):
  """raised inside parked managed threads when a run is torn down"""


class Hang(Exception):
  pass


class _Signal:
  """binary semaphore on a raw lock (threading.Semaphore is pure Python and ~5x slower per hand-off)"""

  def __init__(self):
    self._l = real_threading.Lock()
    self._l.acquire()

  def release(self):
    try:
      self._l.release()
    except RuntimeError:  # already signalled (only at teardown)
      pass

  def acquire(self, timeout=None):
    return self._l.acquire() if timeout is None else self._l.acquire(timeout=timeout)


class MT:
  def __init__(self, name, fn):
    self.name = name
    self.fn = fn
    self.go = _Signal()
    self.status = 'new'  # new | running | ready | blocked | lockwait | done
    self.tag = None
    self.info = {}
    self.notified = False
    self.cond = None
    self.pred = None
    self.crash = None
    self.real = None
    self.cmd = None


class Coop:
  """Real threads, one running at a time; the controller (harness thread) hands the baton out."""

  def __init__(self, timeout=30.0, trace_file=None):
    self.trace_file = trace_file  # when set: every LINE executed in that source file is a preemption point
    self.ctrl = _Signal()
    self.threads = []
    self.by_ident = {}
    self.aborting = False
    self.timeout = timeout

  # --- called by the controller ---------------------------------------------------------------
  def spawn(self, name, fn):
    mt = MT(name, fn)
    mt.real = real_threading.Thread(target=self._boot, args=(mt,), daemon=True)
    self.threads.append(mt)
    mt.real.start()
    return mt

  def resume(self, mt, cmd=None):
    assert mt.status in ('new', 'ready', 'blocked', 'lockwait'), mt.status
    mt.cmd = cmd
    mt.status = 'running'
    mt.go.release()
    if not self.ctrl.acquire(timeout=self.timeout):
      raise Hang(f'managed thread {mt.name} did not reach a synchronisation point')

  def shutdown(self):
    self.aborting = True
    for mt in self.threads:
      if mt.status != 'done':
        mt.go.release()
    for mt in self.threads:
      mt.real.join(timeout=2.0)

  # --- called inside managed threads ------------------------------------------------------------
  def current(self):
    return self.by_ident.get(real_threading.get_ident())

  def _boot(self, mt):
    self.by_ident[real_threading.get_ident()] = mt
    mt.go.acquire()
    try:
      if not self.aborting:
        if self.trace_file is not None:
          sys.settrace(self._tracer)
        mt.fn()
    except _Abort:
      pass
    except BaseException as e:  # noqa: BLE001 - recorded, reported by the controller
      mt.crash = e
    finally:
      mt.status = 'done'
      self.by_ident.pop(real_threading.get_ident(), None)
      self.ctrl.release()

  def _tracer(self, frame, event, arg):
    if event == 'call' and frame.f_code.co_filename == self.trace_file:
      return self._line_tracer
    return None

  def _line_tracer(self, frame, event, arg):
    if event == 'line':
      self.park('ready', 'line', line=frame.f_lineno, fn=frame.f_code.co_name)
    return self._line_tracer

  def park(self, status, tag=None, **info):
    mt = self.current()
    if mt is None:  # unmanaged (controller) thread never parks
      return None
    mt.status, mt.tag, mt.info = status, tag, info
    self.ctrl.release()
    mt.go.acquire()
    if self.aborting:
      raise _Abort()
    return mt.cmd


class ShimCondition:
  """threading.Condition with CPython's monitor contract, on top of Coop."""

  def __init__(self, coop):
    self.coop = coop
    self.owner = None
    self.depth = 0
    self.waiters = []

  def _me(self):
    return self.coop.current() or 'controller'

  def acquire(self, *a, **k):
    me = self._me()
    if self.owner is me:
      self.depth += 1
      return True
    while self.owner is not None:
      if me == 'controller':
        raise InfraError('controller would block on a lock held by a parked thread')
      self.coop.park('lockwait', cond=self)
    self.owner, self.depth = me, 1
    return True

  def release(self):
    self.depth -= 1
    if self.depth == 0:
      self.owner = None

  def __enter__(self):
    self.acquire()
    return self

  def __exit__(self, *a):
    self.release()

  def _wait(self, pred=None):
    me = self._me()
    if self.owner is not me:
      raise RuntimeError('cannot wait on un-acquired lock')
    saved = self.depth
    self.owner, self.depth = None, 0
    me.notified, me.cond, me.pred = False, self, pred
    self.waiters.append(me)
    self.coop.park('blocked', cond=self)
    # the controller resumes a blocked thread only when it was notified and the lock is free
    self.owner, self.depth = me, saved
    me.cond = me.pred = None

  def wait(self, timeout=None):
    self._wait()
    return True

  def wait_for(self, predicate, timeout=None):
    result = predicate()
    while not result:
      self._wait(predicate)
      result = predicate()
    return result

  def notify(self, n=1):
    if self.owner is not self._me():
      raise RuntimeError('cannot notify on un-acquired lock')
    for mt in self.waiters[:n]:
      mt.notified = True
    del self.waiters[:n]

  def notify_all(self):
    self.notify(len(self.waiters))

  notifyAll = notify_all


class ShimThread:
  def __init__(self, coop, group=None, target=None, name=None, args=(), kwargs=None, *, daemon=None):
    self.coop, self.target, self.args, self.kwargs = coop, target, args, kwargs or {}
    self.daemon = daemon
    self.name = name or 'producer'
    self.mt = None

  def start(self):
    self.coop.park('ready', 'start_pre')
    self.mt = self.coop.spawn('producer', lambda: self.target(*self.args, **self.kwargs))
    self.coop.park('ready', 'start_post')

  def is_alive(self):
    return self.mt is not None and self.mt.status != 'done'

  def join(self, timeout=None):
    while self.is_alive():
      self.coop.park('lockwait', cond=None)


class ShimThreading:
  """stands in for the `threading` module inside flax.training.prefetch_iterator"""

  def __init__(self, coop):
    self._coop = coop

  def Condition(self, lock=None):
    return ShimCondition(self._coop)

  def Thread(self, *a, **k):
    return ShimThread(self._coop, *a, **k)

  def __getattr__(self, name):
    return getattr(real_threading, name)


class Boom(Exception):
  def __init__(self, code):
    super().__init__(f'source failure {code}')
    self.code = code


class FalsyBoom(Boom):
  """a source failure whose instance is falsy (delivery must not depend on the exception's truth value)"""

  def __len__(self):
    return 0


def make_boom(code):
  return FalsyBoom(code) if code % 2 == 0 else Boom(code)


class Item:
  """an opaque source item; falsy on purpose (delivery must not depend on truthiness)"""

  def __init__(self, ident):
    self.ident = ident

  def __bool__(self):
    return False

  def __repr__(self):
    return f'Item({self.ident})'


class CoopSource:
  def __init__(self, coop, n, ending, values=None):
    self.coop, self.items, self.ending = coop, (list(values) if values is not None else [Item(i + 1) for i in range(n)]), ending
    self.i = 0
    self.raised = False
    self.pulls = 0

  def __iter__(self):
    return self

  def __next__(self):
    self.coop.park('ready', 'src_pre')
    self.pulls += 1
    if self.i < len(self.items):
      v = self.items[self.i]
      self.i += 1
      self.coop.park('ready', 'src_post', outcome='item')
      return v
    if self.ending == 'stop' or self.raised:
      self.coop.park('ready', 'src_post', outcome='exc')
      raise StopIteration
    self.raised = True
    self.coop.park('ready', 'src_post', outcome='exc')
    raise make_boom(self.ending['raises'])


SPECIAL_ITEMS = [None, 0, 0.0, False, '', (), {}, [], np.zeros((0,)), np.zeros((2,)), b'', 'dup', 'dup']


def same_value(a, b):
  if type(a) is not type(b):
    return False
  if isinstance(a, np.ndarray):
    return a.shape == b.shape and a.dtype == b.dtype and bool(np.array_equal(a, b))
  return a is b or a == b


def make_values(rng, n):
  """a source whose items include None, falsy values, empty containers, 0-size arrays and repeated (equal / identical)
  items - none of which may be taken for end-of-stream, merged or dropped; position k holds Item(k+1) otherwise"""
  vals = []
  for k in range(n):
    u = rng.random()
    if u < 0.55:
      vals.append(rng.choice(SPECIAL_ITEMS))
    elif u < 0.7 and vals:
      vals.append(vals[-1] if not isinstance(vals[-1], Item) else None)
    else:
      vals.append(Item(k + 1))
  return vals


def _obs_of(call, values=None, seen=None):
  try:
    v = call()
  except StopIteration:
    return 'stop'
  except Boom as e:
    return {'exc': e.code}
  except Exception as e:  # noqa: BLE001 - an observation
    return {'err': type(e).__name__}
  if values is not None:  # items identified by position in the source's own sequence
    k = seen[0]
    seen[0] += 1
    if k < len(values) and same_value(v, values[k]):
      return {'item': k + 1}
    return {'alien': repr(v)[:40], 'position': k, 'source_has': repr(values[k])[:40] if k < len(values) else None}
  if isinstance(v, Item):
    return {'item': v.ident}
  return {'alien': repr(v)[:40]}


class PiRun:
  """One PrefetchIterator under the cooperative scheduler; the harness drives it label by label."""

  def __init__(self, n, ending, bs, values=None):
    self.coop = Coop()
    self.n, self.ending, self.bs = n, ending, bs
    self.values, self.seen = values, [0]
    self.src = CoopSource(self.coop, n, ending, values)
    self.out = []
    self.it = None
    self.ctor_err = None
    self.saved = pi.threading
    pi.threading = ShimThreading(self.coop)
    self.cons = self.coop.spawn('consumer', self._consumer)
    self.closed = False

  def _consumer(self):
    try:
      self.it = pi.PrefetchIterator(self.src, buffer_size=self.bs)
    except _Abort:
      raise
    except Exception as e:  # noqa: BLE001
      self.ctor_err = type(e).__name__
      return
    while True:
      cmd = self.coop.park('ready', 'cmd')
      if cmd == 'next':
        it = self.it
        self.out.append(_obs_of(lambda: next(it), self.values, self.seen))
      else:
        return

  def finish(self):
    pi.threading = self.saved
    self.coop.shutdown()

  # --- state as seen from outside ---------------------------------------------------------------
  def producer(self):
    for mt in self.coop.threads:
      if mt.name == 'producer':
        return mt
    return None

  def settle(self):
    """a notified waiter whose predicate is false wakes up and goes back to sleep"""
    for mt in self.coop.threads:
      if mt.status == 'blocked' and mt.notified and mt.cond is not None and mt.cond.owner is None and mt.pred is not None:
        if not mt.pred():
          mt.notified = False
          mt.cond.waiters.append(mt)

  def wakeable(self, mt):
    return (
      mt.status == 'blocked' and mt.notified and mt.cond is not None and mt.cond.owner is None and (mt.pred is None or bool(mt.pred()))
    )

  def ctor_done(self):
    return self.cons.status in ('ready', 'blocked', 'lockwait') and self.cons.tag != 'start_pre' and self.cons.tag != 'start_post' and self.it is not None

  def enabled(self):
    """labels enabled in the implementation; 'next?' = consumer idle (blocking only known by trying)"""
    self.settle()
    en = set()
    c = self.cons
    if c.status == 'new' or (c.status == 'ready' and c.tag in ('start_pre', 'start_post')):
      en.add('ctor')
    elif c.status == 'ready' and c.tag == 'cmd':
      en.add('next?')
    elif c.status == 'blocked' and self.wakeable(c):
      en.add('next')
    elif c.status == 'lockwait' and c.info.get('cond') is not None and c.info['cond'].owner is None:
      en.add('consumer-lock')
    if self.ctor_done():
      en.add('close')
    p = self.producer()
    if p is not None:
      if p.status == 'new' or (p.status == 'ready' and p.tag == 'src_pre'):
        en.add('fetch')
      elif p.status == 'ready' and p.tag == 'src_post':
        en.add('put' if p.info.get('outcome') == 'item' else 'fail')
      elif p.status == 'blocked' and self.wakeable(p):
        en.add('wake')
      elif p.status == 'lockwait' and p.info.get('cond') is not None and p.info['cond'].owner is None:
        en.add('producer-lock')
      elif p.status == 'ready':
        en.add('producer-other')
    return en

  def do(self, label):
    """returns 'ok' | 'blocked' (a `next` call that went to sleep) | 'not-enabled'"""
    en = self.enabled()
    c, p = self.cons, self.producer()
    if label == 'ctor':
      if 'ctor' not in en:
        return 'not-enabled'
      self.coop.resume(c)
      return 'ok'
    if label == 'next':
      if 'next?' in en:
        before = len(self.out)
        self.coop.resume(c, 'next')
        return 'ok' if len(self.out) > before else 'blocked'
      if 'next' in en:
        before = len(self.out)
        self.coop.resume(c)
        return 'ok' if len(self.out) > before else 'blocked'
      return 'not-enabled'
    if label == 'close':
      if 'close' not in en:
        return 'not-enabled'
      self.it.close()
      self.closed = True
      return 'ok'
    if label not in en:
      return 'not-enabled'
    if label == 'fetch':
      if p.status == 'new':
        self.coop.resume(p)  # thread prologue up to its first `next(source)`
        if not (p.status == 'ready' and p.tag == 'src_pre'):
          return 'ok'
      self.coop.resume(p)
      return 'ok'
    # put / fail / wake / *-lock / producer-other
    self.coop.resume(c if label.startswith('consumer') else p)
    return 'ok'

  def crashes(self):
    return [f'{mt.name}:{type(mt.crash).__name__}' for mt in self.coop.threads if mt.crash is not None]


# ------------------------------------------------------------------------------------------------
# PrefetchIterator: oracle (property statement on observations only)
# ------------------------------------------------------------------------------------------------


def term_of(ending):
  return 'stop' if ending == 'stop' else {'exc': ending['raises']}


def oracle_prefix(out, n, ending):
  """no close(): out must be a prefix of item1..itemn, terminator, terminator, ...  Returns None or a reason."""
  t = term_of(ending)
  for k, o in enumerate(out):
    want = {'item': k + 1} if k < n else t
    if o != want:
      return f'observation #{k} is {o}, the source says {want}'
  return None


def oracle_wellformed(out, n, ending):
  """with close(): items in source order without gaps; an exception only the source's own and only after all items"""
  nxt = 1
  for k, o in enumerate(out):
    if o == 'stop':
      continue
    if isinstance(o, dict) and 'item' in o:
      if o['item'] != nxt or nxt > n:
        return f'observation #{k} is {o}, the next source item is {nxt if nxt <= n else None}'
      nxt += 1
    elif isinstance(o, dict) and 'exc' in o:
      if ending == 'stop' or o['exc'] != ending['raises'] or nxt != n + 1:
        return f'observation #{k} is {o} after {nxt - 1} of {n} items (source ending {ending})'
    else:
      return f'observation #{k} is {o}'
  return None


def pi_key(n, ending, bs, what):
  return f'prefetch_iterator-{what}' + ('-exception' if ending != 'stop' else '') + ('-first-item' if n == 0 else '')


# ------------------------------------------------------------------------------------------------
# (A) model-driven replay of one schedule
# ------------------------------------------------------------------------------------------------


def replay_schedule(ctx, n, ending, bs, sched, trace, probe_rng=None, origin='exhaustive'):
  """Runs `sched` (labels of the Lean LTS) on the real code; `trace` is the driver's pi_trace result."""
  case = {'kind': 'pi-sched', 'n': n, 'ending': ending, 'bs': bs, 'sched': list(sched)}
  has_close = 'close' in sched
  ctx.case(case, nontrivial=n > 0 or ending != 'stop')
  if trace[0] != 'ok' or trace[1]['stuck'] is not None:
    ctx.disagreements_checked += 1
    ctx.violation('prefetch_iterator-model-schedule', f'the model cannot run its own schedule {case}: {trace}', case, concrete=False)
    return
  m_en = trace[1]['enabled']
  m_out = trace[1]['out']
  run = PiRun(n, ending, bs)
  mismatch = None
  try:
    for i, label in enumerate(sched):
      en = run.enabled()
      want = set(m_en[i])
      got = set(en)
      if 'next?' in got:  # idle consumer: enabledness of next only known by trying
        got.discard('next?')
        got_cmp, want_cmp = got - {'next'}, want - {'next'}
      else:
        got_cmp, want_cmp = got, want
      if got_cmp != want_cmp and mismatch is None:
        mismatch = f'step {i}: enabled in the implementation {sorted(en)}, in the model {sorted(want)}'
      # optional probe: where the model says `next` would block, call it and see that it does
      if probe_rng is not None and 'next?' in en and 'next' not in want and label != 'next' and probe_rng.random() < 0.5:
        r = run.do('next')
        ctx.count('pi_probe_blocked_next', r)
        if r != 'blocked' and mismatch is None:
          mismatch = f'step {i}: the model says next() blocks, the implementation returned {run.out[-1:]}'
      r = run.do(label)
      if r != 'ok' and mismatch is None:
        mismatch = f'step {i}: label {label} is {r} in the implementation (enabled {sorted(en)})'
        break
    if mismatch is None:
      en = run.enabled()
      want = set(m_en[len(sched)])
      got = set(en)
      if 'next?' in got:
        got, want = got - {'next?', 'next'}, want - {'next'}
      if got != want:
        mismatch = f'end: enabled in the implementation {sorted(en)}, in the model {sorted(want)}'
    out = list(run.out)
    crashes = run.crashes()
    if run.ctor_err:
      crashes.append('ctor:' + run.ctor_err)
  except Hang as e:
    out, crashes = list(run.out), ['hang:' + str(e)]
  finally:
    run.finish()
  # property oracle on the implementation's observations
  bad = (oracle_wellformed if has_close else oracle_prefix)(out, n, ending)
  if bad is None and crashes:
    bad = f'thread crashed: {crashes}'
  if bad is not None:
    ctx.violation(pi_key(n, ending, bs, 'wrong-delivery'), f'PrefetchIterator(n={n}, ending={ending}, buffer_size={bs}) on schedule {sched}: {bad}; observed {out}', dict(case, observed=out))
    return
  if mismatch is None and out != m_out:
    mismatch = f'observations differ: implementation {out}, model {m_out}'
  if mismatch is not None:
    # model and code differ: is the property itself broken on this schedule? (maximal schedules end with a terminal observation)
    complete = (not has_close) and m_out and m_out[-1] == term_of(ending)
    if complete and (len(out) < n + 1 or out[: n + 1] != [{'item': k + 1} for k in range(n)] + [term_of(ending)]):
      ctx.violation(
        pi_key(n, ending, bs, 'not-delivered'),
        f'PrefetchIterator(n={n}, ending={ending}, buffer_size={bs}) on schedule {sched}: the consumer should have received all items and the ending, observed {out} ({mismatch})',
        dict(case, observed=out),
      )
      return
    ctx.disagreements_checked += 1
    ctx.violation('prefetch_iterator-model-mismatch', f'{mismatch} on {case}', case, concrete=False)


def model_traces(drv, cases, variant='fixed'):
  """cases: list of (n, ending, bs, sched) -> driver results"""
  reqs = [('pi_trace', [variant, bs, ending, list(range(1, n + 1)), sched]) for (n, ending, bs, sched) in cases]
  return drv.run(reqs)


def check_pi_exhaustive(ctx, drv, scope, limit, probe_rng):
  reqs = [('pi_schedules', ['fixed', bs, ending, list(range(1, n + 1)), limit]) for (n, ending, bs) in scope]
  outs = drv.run(reqs)
  cases = []
  for (n, ending, bs), r in zip(scope, outs):
    if r[0] != 'ok':
      raise InfraError(f'pi_schedules failed: {r}')
    ctx.count('pi_schedules_per_scope', f'n={n},bs={bs},{"stop" if ending == "stop" else "exc"}', len(r[1]))
    for sched in r[1]:
      cases.append((n, ending, bs, sched))
  traces = model_traces(drv, cases)
  for (n, ending, bs, sched), tr in zip(cases, traces):
    ctx.count('pi_sched_len', len(sched) // 4 * 4)
    replay_schedule(ctx, n, ending, bs, sched, tr, probe_rng)
  return len(cases)


# ------------------------------------------------------------------------------------------------
# (B) implementation-driven random walks, judged by the oracle alone
# ------------------------------------------------------------------------------------------------


def random_walk(ctx, rng, n, ending, bs, allow_close, max_steps=400, values=None):
  case = {'kind': 'pi-walk', 'n': n, 'ending': ending, 'bs': bs, 'allow_close': allow_close}
  if values is not None:
    case['values'] = [repr(v)[:30] for v in values]
    ctx.count('pi_item_alphabet', 'special items (None, falsy, empty, repeated)')
  run = PiRun(n, ending, bs, values)
  taken = []
  deadlock = False
  crashes = []
  try:
    terms = 0
    tried_blocked = False
    for _ in range(max_steps):
      en = run.enabled()
      acts = [a for a in en if a not in ('close', 'next?')]
      if 'next?' in en and not tried_blocked:
        acts.append('next')
      if allow_close and 'close' in en and not run.closed and rng.random() < 0.06:
        acts = ['close']
      if not acts:
        deadlock = terms == 0 and not run.closed or (run.closed and 'next?' not in en and terms == 0)
        break
      # bias: let one side run ahead for a while (adversarial schedules are runs, not uniform noise)
      a = rng.choice(acts)
      r = run.do(a)
      taken.append(a if r == 'ok' else f'{a}:{r}')
      if a == 'next':
        if r == 'blocked':
          tried_blocked = True
        elif r == 'ok':
          tried_blocked = False
          if not (isinstance(run.out[-1], dict) and 'item' in run.out[-1]):
            terms += 1
            if terms >= 2 and not allow_close:
              break
            if terms >= 3:
              break
      else:
        tried_blocked = False
    out = list(run.out)
    crashes = run.crashes()
    if run.ctor_err:
      crashes.append('ctor:' + run.ctor_err)
  except Hang as e:
    out, crashes = list(run.out), ['hang:' + str(e)]
  finally:
    closed = run.closed
    run.finish()
  case['taken'] = taken
  ctx.case({k: v for k, v in case.items()}, nontrivial=n > 0 or ending != 'stop')
  ctx.count('pi_walk_steps', len(taken) // 10 * 10)
  bad = (oracle_wellformed if closed else oracle_prefix)(out, n, ending)
  if bad is None and crashes:
    bad = f'thread crashed: {crashes}'
  if bad is None and deadlock:
    bad = 'deadlock: no thread can move and the consumer has not seen the end'
  if bad is None and not closed:
    if len(out) < n + 1:
      bad = f'walk ended after {len(taken)} steps with only {len(out)} observations'
  if bad is not None:
    what = 'deadlock' if 'deadlock' in bad else 'wrong-delivery'
    ctx.violation(pi_key(n, ending, bs, what), f'PrefetchIterator(n={n}, ending={ending}, buffer_size={bs}) random interleaving {taken}: {bad}; observed {out}', dict(case, observed=out))


# ------------------------------------------------------------------------------------------------
# (B') implementation-driven exploration at LINE granularity: does not presuppose where the locks are
# ------------------------------------------------------------------------------------------------

PI_FILE = pi.__file__[:-1] if pi.__file__.endswith('.pyc') else pi.__file__


class FineRun:
  """PrefetchIterator with a preemption point before every source line of prefetch_iterator.py (sys.settrace in
  the managed threads) in addition to the synchronisation points; a thread that waits for the Condition's lock
  or sleeps in wait()/wait_for() cannot run.  Two threads: the consumer (constructor, then next() calls until it
  has seen two endings) and the producer."""

  def __init__(self, n, ending, bs):
    self.coop = Coop(trace_file=PI_FILE)
    self.n, self.ending, self.bs = n, ending, bs
    self.src = CoopSource(self.coop, n, ending)
    self.out = []
    self.ctor_err = None
    self.saved = pi.threading
    pi.threading = ShimThreading(self.coop)
    self.cons = self.coop.spawn('consumer', self._consumer)
    self.trail = []

  def _consumer(self):
    try:
      it = pi.PrefetchIterator(self.src, buffer_size=self.bs)
    except _Abort:
      raise
    except Exception as e:  # noqa: BLE001
      self.ctor_err = type(e).__name__
      return
    terms = 0
    while terms < 2 and len(self.out) < self.n + 4:
      o = _obs_of(lambda: next(it))
      self.out.append(o)
      if not (isinstance(o, dict) and 'item' in o):
        terms += 1

  def finish(self):
    pi.threading = self.saved
    self.coop.shutdown()

  def runnable(self, mt):
    if mt.status in ('new', 'ready'):
      return True
    if mt.status == 'lockwait':
      c = mt.info.get('cond')
      return c is not None and c.owner is None
    if mt.status == 'blocked':
      return mt.notified and mt.cond is not None and mt.cond.owner is None
    return False

  def run(self, preempt=(), rng=None, p_switch=0.0, max_steps=3000):
    """Non-preemptive by default (a thread runs until it blocks or ends, then the other one runs); `preempt` is a
    set of step numbers at which the running thread is preempted; with `rng`, additionally switches at random.
    Returns (steps, deadlock)."""
    cur = self.cons
    step = 0
    while step < max_steps:
      threads = self.coop.threads
      if self.cons.status == 'done':
        return step, False
      others = [t for t in threads if t is not cur and self.runnable(t)]
      want_switch = (step in preempt) or (rng is not None and rng.random() < p_switch)
      if (not self.runnable(cur)) or (want_switch and others):
        if not others:
          return step, True  # nobody can move and the consumer has not finished
        cur = others[0] if rng is None else rng.choice(others)
        if want_switch:
          self.trail.append(step)
      self.coop.resume(cur)
      step += 1
    return step, False


def fine_case(ctx, n, ending, bs, preempt=(), rng=None, p_switch=0.0):
  """one line-granular run, judged by the property oracle alone; returns the number of steps"""
  run = FineRun(n, ending, bs)
  crashes, deadlock, steps = [], False, 0
  try:
    steps, deadlock = run.run(preempt, rng, p_switch)
    out = list(run.out)
    crashes = run.crashes() if hasattr(run, 'crashes') else [f'{mt.name}:{type(mt.crash).__name__}' for mt in run.coop.threads if mt.crash is not None]
    if run.ctor_err:
      crashes.append('ctor:' + run.ctor_err)
  except Hang as e:
    out, crashes = list(run.out), ['hang:' + str(e)]
  finally:
    trail = list(run.trail)
    run.finish()
  case = {'kind': 'pi-fine', 'n': n, 'ending': ending, 'bs': bs, 'preempt': sorted(trail)}
  ctx.case(case, nontrivial=n > 0 or ending != 'stop')
  bad = oracle_prefix(out, n, ending)
  if bad is None and crashes:
    bad = f'thread crashed: {crashes}'
  if bad is None and deadlock:
    bad = 'deadlock: no thread can move and the consumer has not finished'
  if bad is None and len(out) < n + 2:
    bad = f'only {len(out)} observations'
  if bad is not None:
    ctx.violation(
      pi_key(n, ending, bs, 'wrong-delivery-line-preemption'),
      f'PrefetchIterator(n={n}, ending={ending}, buffer_size={bs}) with the running thread preempted before its steps {sorted(trail)} '
      f'(line granularity, otherwise run-to-block): {bad}; observed {out}',
      dict(case, observed=out),
    )
    return steps, True
  return steps, False


def check_pi_fine(ctx, rng, thorough):
  """context-bounded exploration: every single preemption point for all small scopes, every pair of preemption
  points for the smallest scopes, and random multi-preemption runs"""
  scopes = [(n, e, bs) for n in (0, 1, 2) for bs in (1, 2) for e in (('stop', {'raises': 20 + n + bs}, {'raises': 31 + n}) if thorough else ('stop', {'raises': 20 + n + bs}))]
  found = set()
  for n, e, bs in scopes:
    L0, bad = fine_case(ctx, n, e, bs)
    ctx.count('pi_fine_steps_per_run', L0 // 20 * 20)
    for i in range(L0 + 8):
      if (n, bs) in found:
        break
      _, bad = fine_case(ctx, n, e, bs, preempt={i})
      ctx.count('pi_fine_runs', 'one preemption')
      if bad:
        found.add((n, bs))
  pairs = [(0, {'raises': 21}, 1)] + ([(1, {'raises': 22}, 1), (0, 'stop', 1), (1, {'raises': 23}, 2), (2, {'raises': 24}, 1)] if thorough else [])
  for n, e, bs in pairs:
    L0, _ = fine_case(ctx, n, e, bs)
    stop = False
    for i in range(L0 + 4):
      Li, bad = fine_case(ctx, n, e, bs, preempt={i})
      for j in range(i + 1, Li + 4, 1 if thorough else 3):
        _, bad = fine_case(ctx, n, e, bs, preempt={i, j})
        ctx.count('pi_fine_runs', 'two preemptions')
        if bad:
          stop = True
          break
      if stop:
        break
  for k in range(1200 if thorough else 100):
    n, bs = rng.choice([0, 1, 2, 3]), rng.choice([1, 2, 3])
    e = 'stop' if rng.random() < 0.3 else {'raises': rng.randrange(1, 60)}
    _, bad = fine_case(ctx, n, e, bs, rng=rng, p_switch=rng.choice([0.03, 0.1, 0.3]))
    ctx.count('pi_fine_runs', 'random preemptions')
    if bad and k > 20:
      break


# ------------------------------------------------------------------------------------------------
# (C) real threads
# ------------------------------------------------------------------------------------------------


def real_soak(ctx, rng, runs):
  assert pi.threading is real_threading or not isinstance(pi.threading, ShimThreading)
  for _ in range(runs):
    n = rng.choice([0, 0, 1, 2, 3, 5, 8, 20])
    bs = rng.choice([1, 1, 2, 3, 4])
    ending = 'stop' if rng.random() < 0.4 else {'raises': rng.randrange(1, 100)}
    slow_src, slow_cons = rng.random() < 0.5, rng.random() < 0.5
    values = make_values(rng, n) if rng.random() < 0.35 else None
    items = values if values is not None else [Item(i + 1) for i in range(n)]
    seen = [0]

    def gen():
      for v in items:
        if slow_src:
          time.sleep(0)
        yield v
      if ending != 'stop':
        raise make_boom(ending['raises'])

    out = []

    def consume():
      it = pi.PrefetchIterator(gen(), bs)
      terms = 0
      while terms < 2 and len(out) < n + 5:
        if slow_cons:
          time.sleep(0)
        o = _obs_of(lambda: next(it), values, seen)
        out.append(o)
        if not (isinstance(o, dict) and 'item' in o):
          terms += 1

    t = real_threading.Thread(target=consume, daemon=True)
    t.start()
    t.join(timeout=5.0)
    if t.is_alive():  # be patient on a loaded machine before calling it a deadlock
      t.join(timeout=55.0)
    case = {'kind': 'pi-real', 'n': n, 'ending': ending, 'bs': bs}
    if values is not None:
      case['values'] = [repr(v)[:30] for v in values]
      ctx.count('pi_item_alphabet', 'special items, real threads')
    ctx.case(case, nontrivial=n > 0 or ending != 'stop')
    ctx.count('pi_real_threads', f'bs={bs}')
    bad = 'consumer still blocked after 60 s (deadlock)' if t.is_alive() else oracle_prefix(out, n, ending)
    if bad is None and len(out) < n + 2:
      bad = f'only {len(out)} observations'
    if bad is not None:
      ctx.violation(pi_key(n, ending, bs, 'wrong-delivery-real-threads'), f'PrefetchIterator with real threads (n={n}, ending={ending}, buffer_size={bs}): {bad}; observed {out}', dict(case, observed=out))
      return  # one is enough; a deadlocking implementation would cost 60 s per further run


# ================================================================================================
# device mocking (checking process only)
# ================================================================================================


class FakeDevice:
  def __init__(self, i):
    self.id = i

  def __repr__(self):
    return f'FakeDevice({self.id})'


def _device_put_sharded(shards, devices):
  """stand-in for the removed jax.device_put_sharded: one shard per device, stacked on a new leading axis"""
  shards = list(shards)
  if len(shards) != len(devices):
    raise ValueError(f'len(shards) = {len(shards)} must equal len(devices) = {len(devices)}.')
  return np.stack([np.asarray(s) for s in shards])


def _device_put_replicated(x, devices):
  """stand-in for the removed jax.device_put_replicated"""
  if not devices:
    raise ValueError('`devices` argument to `device_put_replicated must be a non-empty list.')
  return jax.tree_util.tree_map(lambda a: np.stack([np.asarray(a)] * len(devices)), x)


class _Proxy:
  def __init__(self, real, overrides):
    object.__setattr__(self, '_real', real)
    object.__setattr__(self, '_ov', overrides)

  def __getattr__(self, name):
    ov = object.__getattribute__(self, '_ov')
    if name in ov:
      return ov[name]
    return getattr(object.__getattribute__(self, '_real'), name)


_DEV = {'d': 1}
_OVERRIDES = {
  'local_device_count': lambda *a, **k: _DEV['d'],
  'device_count': lambda *a, **k: _DEV['d'],
  'local_devices': lambda *a, **k: [FakeDevice(i) for i in range(_DEV['d'])],
  'devices': lambda *a, **k: [FakeDevice(i) for i in range(_DEV['d'])],
  'device_put_sharded': _device_put_sharded,
  'device_put_replicated': _device_put_replicated,
}
_installed = False


def install_device_mock():
  global _installed
  if not _installed:
    ju.jax = _Proxy(ju.jax, _OVERRIDES)
    cu.jax = _Proxy(cu.jax, _OVERRIDES)
    _installed = True


def set_devices(d):
  _DEV['d'] = d


def call(fn, *a, **k):
  try:
    return ('ok', fn(*a, **k))
  except AssertionError:
    return ('err', 'AssertionError')
  except Exception as e:  # noqa: BLE001 - every exception from flax is an observation
    return ('err', type(e).__name__)


def tolist(x):
  return np.asarray(x).tolist()


# ================================================================================================
# prefetch_to_device
# ================================================================================================


def check_prefetch_to_device(ctx, drv, scope):
  """scope: list of (n, size, ending, d)."""
  reqs, impl = [], []
  for n, size, ending, d in scope:
    set_devices(d)
    k = n + 3
    pulls = [0]

    def gen(n=n, ending=ending, d=d):
      for i in range(n):
        pulls[0] += 1
        yield {'x': np.full((d, 2), i + 1, np.int64), 'y': (np.arange(d) * 100 + i + 1,)}
      pulls[0] += 1
      if ending != 'stop':
        raise make_boom(ending['raises'])

    g = call(ju.prefetch_to_device, gen(), size)
    out = []
    if g[0] == 'ok':
      it = g[1]
      for _ in range(k):
        try:
          v = next(it)
        except StopIteration:
          out.append('stop')
          continue
        except Boom as e:
          out.append({'exc': e.code})
          continue
        except Exception as e:  # noqa: BLE001
          out.append({'err': type(e).__name__})
          continue
        # an item: identify it and check it is the sharded original (values and structure)
        try:
          ident = int(np.asarray(v['x'])[0, 0])
          ok = (
            np.array_equal(np.asarray(v['x']), np.full((d, 2), ident, np.int64))
            and isinstance(v['y'], tuple)
            and np.array_equal(np.asarray(v['y'][0]), np.arange(d) * 100 + ident)
          )
          out.append({'item': ident} if ok else {'alien': 'values changed'})
        except Exception as e:  # noqa: BLE001
          out.append({'alien': type(e).__name__})
    else:
      out = [{'err': g[1]}]
    impl.append(out)
    reqs.append(('ptd_run', [size, ending, list(range(1, n + 1)), k]))
  set_devices(1)
  outs = drv.run(reqs)
  findings = {e.get('key') for e in load_findings('C20') if e.get('status') == 'finding'}
  for (n, size, ending, d), out, m in zip(scope, impl, outs):
    case = {'kind': 'ptd', 'n': n, 'size': size, 'ending': ending, 'd': d}
    ctx.case(case, nontrivial=n > 0)
    ctx.count('ptd_size', size)
    ctx.count('ptd_ending', 'stop' if ending == 'stop' else 'exc')
    # oracle: for size >= 1, the items in order, each once, then stop (StopIteration ending);
    # with a raising source: a prefix of the items, then the source's exception, then stop
    bad = None
    if size >= 1:
      if ending == 'stop':
        want = [{'item': i + 1} for i in range(n)] + ['stop'] * 3
        if out != want:
          bad = f'expected {want}'
      else:
        items = [o for o in out if isinstance(o, dict) and 'item' in o]
        k_items = len(items)
        want_tail = [{'exc': ending['raises']}] + ['stop'] * (len(out) - k_items - 1)
        if items != [{'item': i + 1} for i in range(k_items)] or out[:k_items] != items or out[k_items:] != want_tail or k_items > n:
          bad = 'expected a prefix of the items, then the source exception, then StopIteration'
    if bad is not None:
      ctx.violation('prefetch_to_device-wrong-delivery' + ('-exception' if ending != 'stop' else ''), f'prefetch_to_device(n={n}, size={size}, ending={ending}, devices={d}) produced {out}: {bad}', dict(case, observed=out))
      continue
    if m != ('ok', out):
      ctx.disagreements_checked += 1
      ctx.violation('prefetch_to_device-model-mismatch', f'model {m} vs implementation {out} on {case}', case, concrete=False)
      continue
    if ending != 'stop' and size >= 2 and n >= 1:
      dropped = n - len([o for o in out if isinstance(o, dict) and 'item' in o])
      ctx.count('ptd_items_dropped_before_exception', dropped)
      if 'prefetch_to_device-exception-drops-buffered' in findings and dropped > 0:
        ctx.violation('prefetch_to_device-exception-drops-buffered', f'prefetch_to_device(n={n}, size={size}) raises the source exception before {dropped} already fetched item(s)', dict(case, observed=out))


def ptd_special_items(d):
  """pytrees that are easy to mistake for "nothing": the empty pytrees, 0-size and all-falsy arrays"""
  return [
    ('None', lambda: None),
    ('{}', lambda: {}),
    ('()', lambda: ()),
    ('[]', lambda: []),
    ('size0', lambda: np.zeros((d, 0), np.float32)),
    ('zeros', lambda: np.zeros((d,), np.int64)),
    ('false', lambda: np.zeros((d,), np.bool_)),
    ('zero.0', lambda: {'a': np.zeros((d, 1), np.float32), 'b': None}),
    ('nested-empty', lambda: {'a': {}, 'b': (), 'c': [None]}),
  ]


def tree_same(a, b):
  if jax.tree_util.tree_structure(a) != jax.tree_util.tree_structure(b):
    return False
  for x, y in zip(jax.tree_util.tree_leaves(a), jax.tree_util.tree_leaves(b)):
    x, y = np.asarray(x), np.asarray(y)
    if x.shape != y.shape or x.dtype != y.dtype or not np.array_equal(x, y):
      return False
  return True


def check_prefetch_to_device_items(ctx, drv, rng, n_random):
  """`list(prefetch_to_device(src, size))` has the length, and per position the tree structure and values, of
  `list(src)` - whatever the items are: None / empty containers / 0-size / all-zero arrays / repeated items, at
  every position for n <= 6 x size <= 4."""
  cases = []
  for d in (1, 2):
    specials = ptd_special_items(d)
    normal = lambda i, d=d: {'x': np.full((d, 2), i + 1, np.int64)}
    for n in range(1, 7):
      for size in range(1, 5):
        for p in range(n):
          for si, (name, mk) in enumerate(specials):
            if d == 2 and (n + size + p + si) % 4:  # the full product for one device, a quarter of it for two
              continue
            src = [mk() if i == p else normal(i) for i in range(n)]
            cases.append((d, size, src, [(-(si + 1) if i == p else i + 1) for i in range(n)], f'{name}@{p}'))
    for _ in range(n_random):
      n, size = rng.randrange(0, 7), rng.randrange(1, 5)
      src, codes = [], []
      for i in range(n):
        u = rng.random()
        if u < 0.5:
          si = rng.randrange(len(specials))
          src.append(specials[si][1]())
          codes.append(-(si + 1))
        elif u < 0.7 and src:
          src.append(src[-1])  # the very same object again
          codes.append(codes[-1])
        else:
          src.append(normal(i))
          codes.append(i + 1)
      cases.append((d, size, src, codes, 'random'))
  reqs, recs = [], []
  for d, size, src, codes, what in cases:
    set_devices(d)
    r = call(lambda: list(ju.prefetch_to_device(iter(src), size)))
    recs.append(r)
    reqs.append(('ptd_run', [size, 'stop', codes, len(codes) + 1]))
  set_devices(1)
  outs = drv.run(reqs)
  for (d, size, src, codes, what), r, m in zip(cases, recs, outs):
    case = {'kind': 'ptd-items', 'd': d, 'size': size, 'codes': codes, 'what': what}
    ctx.case(case, nontrivial=len(src) > 0)
    ctx.count('ptd_item_alphabet', what.split('@')[0])
    if r[0] != 'ok':
      ctx.violation('prefetch_to_device-raises-special-item', f'prefetch_to_device raised {r[1]} on a source with items {what} ({case})', case)
      continue
    got = r[1]
    bad = None
    if len(got) != len(src):
      bad = f'{len(got)} items delivered, the source has {len(src)}'
    else:
      for k, (a, b) in enumerate(zip(got, src)):
        if not tree_same(a, b):
          bad = f'item #{k} is {repr(a)[:60]}, the source has {repr(b)[:60]}'
          break
    if bad is not None:
      ctx.violation(
        'prefetch_to_device-wrong-delivery-special-item',
        f'list(prefetch_to_device(src, size={size})) differs from list(src) for a source with item codes {codes} ({what}; negative = None/empty/0-size/all-zero item): {bad}',
        case,
      )
      continue
    want = ('ok', [{'item': c} for c in codes] + ['stop'])
    if m != want:
      ctx.disagreements_checked += 1
      ctx.violation('prefetch_to_device-model-mismatch', f'model {m} vs {want} on {case}', case, concrete=False)


# ================================================================================================
# pad_shard_unpad
# ================================================================================================


def f_row(params, x, p, q, mode):
  """the per-example function: everything is computed from one example's rows"""
  return {'a': x * params + mode, 'b': (p * 2 + q).astype(np.int64), 'c': np.asarray(x.sum() + p)}


def make_wrapped(seen):
  def wrapped(params, x, aux=None, mode=0):
    seen['x_shape'] = tuple(x.shape)
    seen['p_shape'] = tuple(aux['p'].shape)
    seen['ids'] = np.asarray(aux['p']).tolist()
    seen['params'] = params
    seen['mode'] = mode
    d, db = x.shape[:2]
    rows = [[f_row(params, x[i, j], aux['p'][i, j], aux['q'][i, j], mode) for j in range(db)] for i in range(d)]
    out = {k: np.stack([np.stack([r[k] for r in dev]) for dev in rows]) for k in ('a', 'b', 'c')}
    seen['out'] = out
    return out

  return wrapped


def check_pad_shard_unpad(ctx, drv, scope, rng):
  """scope: list of (b, d, mdb)."""
  reqs, recs = [], []
  for b, d, mdb in scope:
    set_devices(d)
    tshape = rng.choice([(), (3,), (2, 2)])
    x = (np.arange(1, b + 1).reshape((b,) + (1,) * len(tshape)) * 10 + np.arange(int(np.prod(tshape, dtype=int))).reshape(tshape)).astype(np.int64)
    aux = {'p': np.arange(1, b + 1, dtype=np.int64), 'q': np.arange(2 * b, dtype=np.int64).reshape(b, 2)}
    params, mode = rng.randrange(1, 5), rng.randrange(0, 3)
    seen = {}
    f = ju.pad_shard_unpad(make_wrapped(seen), static_argnums=(0,), static_argnames=('mode',))
    kw = {} if mdb is None else {'min_device_batch': mdb}
    r = call(f, params, x, aux=aux, mode=mode, **kw)
    ref = [f_row(params, x[i], aux['p'][i], aux['q'][i], mode) for i in range(b)]
    want = {k: np.stack([r_[k] for r_ in ref]) for k in ('a', 'b', 'c')}
    recs.append((b, d, mdb, tshape, r, want, dict(seen)))
    reqs.append(('pad_layout', [b, d, mdb or 0]))
    reqs.append(('psu', [list(range(1, b + 1)), d, mdb or 0, params, mode]))
  set_devices(1)
  outs = drv.run(reqs)
  for i, (b, d, mdb, tshape, r, want, seen) in enumerate(recs):
    case = {'kind': 'psu', 'b': b, 'd': d, 'mdb': mdb, 'tshape': list(tshape)}
    ctx.case(case, nontrivial=True)
    ctx.count('psu_divisible', 'divisible' if b % d == 0 else 'remainder')
    ctx.count('psu_mdb_active', 'min_device_batch pads' if mdb and -(-b // d) < mdb else 'no')
    layout, psu = outs[2 * i], outs[2 * i + 1]
    if r[0] != 'ok':
      ctx.violation('pad_shard_unpad-raises', f'pad_shard_unpad raised {r[1]} for b={b}, devices={d}, min_device_batch={mdb}', case)
      continue
    got = r[1]
    same = isinstance(got, dict) and set(got) == set(want) and all(np.asarray(got[k]).shape == want[k].shape and np.array_equal(np.asarray(got[k]), want[k]) for k in want)
    if not same:
      ctx.violation(
        'pad_shard_unpad-wrong-result' + ('-remainder' if b % d else '') + ('-min_device_batch' if mdb else ''),
        f'pad_shard_unpad(b={b}, devices={d}, min_device_batch={mdb}) differs from the wrapped function on the unpadded batch: shapes {({k: np.asarray(v).shape for k, v in got.items()} if isinstance(got, dict) else type(got))} vs {({k: v.shape for k, v in want.items()})}',
        case,
      )
      continue
    # correspondence: what `wrapped` saw (device-major layout of example ids, padding rows = 0) and the result on ids
    ids_ok = layout == ('ok', seen['ids'])
    shape_ok = layout[0] == 'ok' and seen['x_shape'] == (d, len(layout[1][0])) + tuple(tshape)
    psu_want = [int(v) for v in (np.arange(1, b + 1) * seen['params'] + seen['mode'])]
    if not ids_ok or not shape_ok or psu != ('ok', psu_want):
      ctx.disagreements_checked += 1
      ctx.violation('pad_shard_unpad-model-mismatch', f'model layout {layout} / result {psu} vs implementation ids {seen["ids"]} shape {seen["x_shape"]} on {case}', case, concrete=False)


def check_pad_shard_unpad_misc(ctx, drv, rng):
  """static_return, several positional leaves, inconsistent batch sizes, jnp inputs."""
  cases = []
  for b, d, mdb in [(5, 2, None), (7, 3, 4), (4, 4, None), (1, 8, 2), (9, 4, 0)]:
    set_devices(d)
    x = np.arange(1, b + 1, dtype=np.int64)
    y = np.arange(1, b + 1, dtype=np.int64) * 7
    a = rng.randrange(2, 6)
    # two positional leaves, no static args
    f2 = ju.pad_shard_unpad(lambda u, v: u * a + v, static_argnums=())
    kw = {} if mdb is None else {'min_device_batch': mdb}
    r = call(f2, x, y, **kw)
    case = {'kind': 'psu2', 'b': b, 'd': d, 'mdb': mdb, 'a': a}
    ctx.case(case)
    m = drv.run([('psu2', [x.tolist(), y.tolist(), d, mdb or 0, a])])[0]
    if r[0] != 'ok' or not np.array_equal(np.asarray(r[1]), x * a + y):
      ctx.violation('pad_shard_unpad-wrong-result-two-leaves', f'pad_shard_unpad with two array arguments (b={b}, d={d}, mdb={mdb}) gave {r}', case)
    elif m != ('ok', (x * a + y).tolist()):
      ctx.disagreements_checked += 1
      ctx.violation('pad_shard_unpad-model-mismatch', f'model {m} on {case}', case, concrete=False)
    # inconsistent batch sizes are rejected
    r = call(f2, x, np.arange(b + 1), **kw)
    m = drv.run([('psu2', [x.tolist(), list(range(b + 1)), d, mdb or 0, a])])[0]
    ctx.case(dict(case, kind='psu2-inconsistent'))
    ctx.count('malformed', 'inconsistent batch sizes')
    if r[0] == 'ok':
      ctx.violation('pad_shard_unpad-accepts-inconsistent-batch', f'pad_shard_unpad accepted arguments with batch sizes {b} and {b + 1}', case)
    elif m[0] != 'err':
      ctx.disagreements_checked += 1
      ctx.violation('pad_shard_unpad-model-mismatch', f'model accepts inconsistent batch sizes: {m}', case, concrete=False)
    # static_return: the wrapped function's own return value, untouched
    marker = object()
    fs = ju.pad_shard_unpad(lambda u: marker, static_argnums=(), static_return=True)
    r = call(fs, x, **kw)
    ctx.case(dict(case, kind='psu-static-return'))
    if r != ('ok', marker):
      ctx.violation('pad_shard_unpad-static-return', f'static_return=True did not return the wrapped value as is: {r}', case)
  set_devices(1)


# ================================================================================================
# scan_in_dim
# ================================================================================================


def body_np(kind):
  def body(c, x):
    c2 = (c * 3 + int(x.sum()) + 1) % 1009
    if kind == 0:
      return c2, x + c
    if kind == 1:
      return c2, np.asarray(x.sum() + c)
    if kind == 3:  # layout sensitive: every element is offset by its own index (weighted by axis number)
      return c2, x + c + sum((a + 1) * np.indices(x.shape)[a] for a in range(x.ndim))
    return c2, np.stack([x, x + c])

  return body


def body_jnp(kind):
  def body(c, x):
    c2 = (c * 3 + x.sum() + 1) % 1009
    if kind == 0:
      return c2, x + c
    if kind == 1:
      return c2, x.sum() + c
    if kind == 3:
      return c2, x + c + sum((a + 1) * jax.lax.broadcasted_iota(jnp.int32, x.shape, a) for a in range(x.ndim))
    return c2, jnp.stack([x, x + c])

  return body


def nested_loop_reference(kind, init, xs, axis, keepdims):
  """the property's right-hand side: plain nested Python loops over the chosen axes, in the given order"""
  body = body_np(kind)
  c = init
  out = None
  for m in itertools.product(*[range(xs.shape[a]) for a in axis]):
    idx = [slice(None)] * xs.ndim
    for a, i in zip(axis, m):
      idx[a] = slice(i, i + 1) if keepdims else i
    c, y = body(c, xs[tuple(idx)])
    y = np.asarray(y)
    if out is None:
      if keepdims:
        shape = list(y.shape)
        for a in axis:
          shape[a] = xs.shape[a]
      else:
        rank = len(axis) + y.ndim
        rest = iter(y.shape)
        shape = [None] * rank
        for a in axis:
          shape[a] = xs.shape[a]
        shape = [s if s is not None else next(rest) for s in shape]
      out = np.zeros(shape, np.int64)
    oidx = [slice(None)] * out.ndim
    for a, i in zip(axis, m):
      oidx[a] = slice(i, i + 1) if keepdims else i
    out[tuple(oidx)] = y
  return c, out


def check_scan_in_dim(ctx, drv, cases):
  """cases: list of (shape, axis, keepdims, kind, init)."""
  reqs, recs = [], []
  for shape, axis, keepdims, kind, init in cases:
    size = int(np.prod(shape))
    data = ((np.arange(size) * 7 + 3) % 23).astype(np.int64)
    xs = data.reshape(shape)
    # most cases run lax.scan eagerly (jax.disable_jit: same flax code, no XLA compile per axis tuple); every 12th case
    # goes through the traced/compiled path
    jitted = len(recs) % 12 == 0
    ctx.count('scan_execution', 'compiled lax.scan' if jitted else 'eager lax.scan (disable_jit)')
    if jitted:
      r = call(lambda: ju.scan_in_dim(body_jnp(kind), jnp.asarray(init, jnp.int32), jnp.asarray(xs, jnp.int32), axis=tuple(axis), keepdims=keepdims))
    else:
      with jax.disable_jit():
        r = call(lambda: jax.tree_util.tree_map(np.asarray, ju.scan_in_dim(body_jnp(kind), jnp.asarray(init, jnp.int32), jnp.asarray(xs, jnp.int32), axis=tuple(axis), keepdims=keepdims)))
    want = nested_loop_reference(kind, init, xs, [a % len(shape) for a in axis], keepdims)  # NumPy semantics: -k = rank-k
    recs.append((r, want))
    reqs.append(('scan_in_dim', [[list(shape), data.tolist()], list(axis), keepdims, kind, init]))
    if len(axis) == 1 and kind in (0, 3):  # an int axis (also a negative one) is accepted as well
      with jax.disable_jit():
        r1 = call(lambda: jax.tree_util.tree_map(np.asarray, ju.scan_in_dim(body_jnp(kind), jnp.asarray(init, jnp.int32), jnp.asarray(xs, jnp.int32), axis=axis[0], keepdims=keepdims)))
      if r1[0] != 'ok' or int(r1[1][0]) != want[0] or not np.array_equal(np.asarray(r1[1][1]), want[1]):
        ctx.violation('scan_in_dim-int-axis', f'scan_in_dim with axis={axis[0]} (int) differs from the loop on shape {shape}', {'kind': 'scan', 'shape': list(shape), 'axis': list(axis), 'keepdims': keepdims, 'body': kind, 'init': init})
  outs = drv.run(reqs)
  for (shape, axis, keepdims, kind, init), (r, want), m in zip(cases, recs, outs):
    case = {'kind': 'scan', 'shape': list(shape), 'axis': list(axis), 'keepdims': keepdims, 'body': kind, 'init': init}
    ctx.case(case, nontrivial=int(np.prod(shape)) > 1)
    ctx.count('scan_rank_naxes', f'rank{len(shape)}-axes{len(axis)}')
    ctx.count('scan_keepdims', keepdims)
    ctx.count('scan_axis_sorted', 'sorted' if list(axis) == sorted(axis) else 'permuted')
    ctx.count('scan_axis_sign', 'non-negative' if all(a >= 0 for a in axis) else ('all negative' if all(a < 0 for a in axis) else 'mixed'))
    if r[0] != 'ok':
      ctx.violation('scan_in_dim-raises' + ('-negative-axes' if any(a < 0 for a in axis) else ''), f'scan_in_dim raised {r[1]} on {case}', case)
      continue
    c, ys = int(r[1][0]), np.asarray(r[1][1])
    if c != want[0] or ys.shape != want[1].shape or not np.array_equal(ys, want[1]):
      ctx.violation(
        'scan_in_dim-differs-from-loop' + ('-keepdims' if keepdims else '') + ('-permuted-axes' if list(axis) != sorted(axis) else '') + ('-negative-axes' if any(a < 0 for a in axis) else ''),
        f'scan_in_dim on {case}: carry {c} / ys shape {ys.shape}, nested loop gives carry {want[0]} / shape {want[1].shape}; ys equal: {ys.shape == want[1].shape and bool(np.array_equal(ys, want[1]))}',
        case,
      )
      continue
    mw = ('ok', {'carry': c, 'ys': [list(ys.shape), ys.reshape(-1).tolist()]})
    if m != mw:
      ctx.disagreements_checked += 1
      ctx.violation('scan_in_dim-model-mismatch', f'model {str(m)[:200]} vs implementation {str(mw)[:200]} on {case}', case, concrete=False)


def check_invert_perm(ctx, drv, max_n):
  perms = [list(p) for n in range(0, max_n + 1) for p in itertools.permutations(range(n))]
  # entries written the negative way (-k = n-k), as scan_in_dim passes them on for negative axes
  for n in range(1, min(max_n, 4) + 1):
    for p in itertools.permutations(range(n)):
      for signs in itertools.product([0, 1], repeat=n):
        if any(signs):
          perms.append([j - n if sg else j for j, sg in zip(p, signs)])
  outs = drv.run([('invert_perm', [p]) for p in perms])
  for p, m in zip(perms, outs):
    case = {'kind': 'invert_perm', 'perm': p}
    ctx.case(case, nontrivial=len(p) >= 2)
    ctx.count('invert_perm_entries', 'non-negative' if all(j >= 0 for j in p) else 'with negative entries')
    r = call(ju._invert_perm, tuple(p))
    if r[0] != 'ok' or any(r[1][p[i] % len(p)] != i for i in range(len(p))) or len(r[1]) != len(p):
      ctx.violation('invert_perm-not-inverse', f'_invert_perm({p}) = {r}', case)
    elif m != ('ok', list(r[1])):
      ctx.disagreements_checked += 1
      ctx.violation('invert_perm-model-mismatch', f'model {m} vs {r} on {p}', case, concrete=False)


# ================================================================================================
# replicate / unreplicate / shard / stack_forest / get_metrics / onehot
# ================================================================================================


def check_reshape_helpers(ctx, drv, rng, n_random):
  # replicate / unreplicate
  for d in (1, 2, 3, 4):
    set_devices(d)
    tree = {'w': np.arange(6).reshape(2, 3) + d, 'b': (np.float32(1.5), np.arange(4))}
    r = call(ju.replicate, tree)
    case = {'kind': 'replicate', 'd': d}
    ctx.case(case)
    if r[0] != 'ok':
      ctx.violation('replicate-raises', f'replicate raised {r[1]} with {d} devices', case)
      continue
    rep = r[1]
    leaves_ok = all(np.asarray(x).shape == (d,) + np.asarray(y).shape and all(np.array_equal(np.asarray(x)[i], y) for i in range(d)) for x, y in zip(jax.tree_util.tree_leaves(rep), jax.tree_util.tree_leaves(tree)))
    u = call(ju.unreplicate, rep)
    back_ok = u[0] == 'ok' and jax.tree_util.tree_structure(u[1]) == jax.tree_util.tree_structure(tree) and all(np.array_equal(np.asarray(x), np.asarray(y)) for x, y in zip(jax.tree_util.tree_leaves(u[1]), jax.tree_util.tree_leaves(tree)))
    m = drv.run([('replicate_unreplicate', [d, 42])])[0]
    if not leaves_ok or not back_ok:
      ctx.violation('replicate-unreplicate', f'unreplicate(replicate(tree)) != tree with {d} devices (leaves_ok={leaves_ok})', case)
    elif m != ('ok', 42):
      ctx.disagreements_checked += 1
      ctx.violation('replicate-model-mismatch', f'model {m}', case, concrete=False)
  # shard
  reqs, recs = [], []
  for d in (1, 2, 3, 4, 8):
    for b in range(1, 25):
      set_devices(d)
      x = np.arange(b * 2).reshape(b, 2)
      r = call(cu.shard, {'x': x, 'y': np.arange(b)})
      recs.append((d, b, x, r))
      reqs.append(('shard', [list(range(b)), d]))
  outs = drv.run(reqs)
  for (d, b, x, r), m in zip(recs, outs):
    case = {'kind': 'shard', 'b': b, 'd': d}
    ctx.case(case)
    ctx.count('shard_divisible', b % d == 0)
    if b % d == 0:
      ok = r[0] == 'ok' and np.asarray(r[1]['x']).shape == (d, b // d, 2) and np.array_equal(np.asarray(r[1]['x']).reshape(b, 2), x) and np.array_equal(np.asarray(r[1]['y']), np.arange(b).reshape(d, b // d))
      if not ok:
        ctx.violation('shard-wrong', f'shard with b={b}, devices={d}: {r[0]}', case)
      elif m != ('ok', np.arange(b).reshape(d, b // d).tolist()):
        ctx.disagreements_checked += 1
        ctx.violation('shard-model-mismatch', f'model {m} on {case}', case, concrete=False)
    else:
      if r[0] == 'ok':
        ctx.violation('shard-accepts-indivisible', f'shard accepted b={b} with {d} devices', case)
      elif m[0] != 'err':
        ctx.disagreements_checked += 1
        ctx.violation('shard-model-mismatch', f'model {m} on {case}', case, concrete=False)
  set_devices(1)
  # stack_forest / get_metrics
  reqs, recs = [], []
  for _ in range(n_random):
    t = rng.randrange(1, 5)
    nleaves = rng.randrange(1, 4)
    shapes = [rng.choice([(), (2,), (1, 3)]) for _ in range(nleaves)]
    ids = [[rng.randrange(100) for _ in range(nleaves)] for _ in range(t)]
    forest = [{'k%d' % p: np.full(shapes[p], ids[i][p]) for p in range(nleaves)} for i in range(t)]
    r = call(cu.stack_forest, forest)
    recs.append(('stack_forest', t, nleaves, shapes, ids, r))
    reqs.append(('stack_forest', [ids]))
    d = rng.randrange(1, 4)
    dm = [{'k%d' % p: np.stack([np.full(shapes[p], ids[i][p])] * d) for p in range(nleaves)} for i in range(t)]
    r = call(cu.get_metrics, dm)
    recs.append(('get_metrics', t, nleaves, shapes, ids, r))
    reqs.append(('get_metrics', [[[[ids[i][p]] * d for p in range(nleaves)] for i in range(t)]]))
    # which device copy is read is only documented ("the first"): compared with the model, not judged by the oracle
    dm2 = [{'k%d' % p: np.stack([np.full(shapes[p], ids[i][p] + 1000 * j) for j in range(d)]) for p in range(nleaves)} for i in range(t)]
    r2 = call(cu.get_metrics, dm2)
    recs.append(('get_metrics-copy', t, nleaves, shapes, ids, r2))
    reqs.append(('get_metrics', [[[[ids[i][p] + 1000 * j for j in range(d)] for p in range(nleaves)] for i in range(t)]]))
  outs = drv.run(reqs)
  for (fn, t, nleaves, shapes, ids, r), m in zip(recs, outs):
    case = {'kind': fn, 'trees': t, 'leaves': nleaves, 'ids': ids}
    ctx.case(case)
    ctx.count(fn + '_trees', t)
    want = [[ids[i][p] for i in range(t)] for p in range(nleaves)]
    ok = r[0] == 'ok' and all(
      np.asarray(r[1]['k%d' % p]).shape == (t,) + shapes[p] and all(np.array_equal(np.asarray(r[1]['k%d' % p])[i], np.full(shapes[p], ids[i][p])) for i in range(t)) for p in range(nleaves)
    )
    if not ok and fn == 'get_metrics-copy':
      ctx.disagreements_checked += 1
      ctx.violation('get_metrics-model-mismatch', f'get_metrics on per-device-distinct data differs from the model (first copy) on {case}', case, concrete=False)
    elif not ok:
      ctx.violation(fn + '-wrong', f'{fn} does not stack leaf-wise on {case}: {r[0]}', case)
    elif m != ('ok', want):
      ctx.disagreements_checked += 1
      ctx.violation(fn + '-model-mismatch', f'model {m} vs {want}', case, concrete=False)
  r = call(cu.stack_forest, [{'a': np.zeros(2)}, {'b': np.zeros(2)}])
  ctx.case({'kind': 'stack_forest-mismatch'})
  ctx.count('malformed', 'stack_forest structure mismatch')
  if r[0] == 'ok':
    ctx.violation('stack_forest-accepts-mismatch', 'stack_forest accepted trees of different structure', {'kind': 'stack_forest-mismatch'})
  # onehot: every output element must be *bit-identical* to on_value or off_value (cast to float32), chosen by
  # index equality - no arithmetic on the two values (0/-inf additive masks, label smoothing, extreme magnitudes)
  fmax = float(np.finfo(np.float32).max)
  pairs = [
    (1.0, 0.0), (0.0, float('-inf')), (float('inf'), float('-inf')), (0.9, 0.1), (fmax, -fmax), (0.5, -2.0),
    (-0.0, 0.0), (1e-30, -1e30), (float('-inf'), 0.0), (0.1, 0.7), (1.0 / 3.0, 2.0 / 3.0), (3.0e38, 1.0e-38),
    (1, 0), (5, -3), (2**24 + 1, -(2**24) - 1), (True, False),
    (np.float32(0.9), np.float32(0.1)), (np.float16(0.1), np.float16(-0.3)), (np.float64(0.9), np.float64(float('-inf'))),
    (np.int32(7), np.int32(-7)), (np.int8(1), np.int8(0)), (jnp.float32(0.9), jnp.float32(-1e38)), (jnp.bfloat16(0.3), jnp.bfloat16(2.5)),
  ]
  label_dtypes = [np.int32, np.int8, np.uint8, np.int16, np.int64]

  def f32(v):
    return np.asarray(v).astype(np.float32) if not isinstance(v, jax.Array) else np.asarray(v.astype(jnp.float32))

  reqs, recs = [], []
  sweep = [(i, True) for i in range(len(pairs))] + [(rng.randrange(len(pairs)), False) for _ in range(max(40, n_random // 3))]
  for pi_, fixed in sweep:
    n = rng.randrange(1, 7) if not fixed else 4
    shape = rng.choice([(), (3,), (2, 2), (1, 2, 3)]) if not fixed else (5,)
    ldt = rng.choice(label_dtypes)
    lo = 0 if ldt is np.uint8 else -2
    vals = [rng.randrange(lo, n + 2) for _ in range(int(np.prod(shape, dtype=int)))] if not fixed else [0, 3, lo, 4, 1]
    labels = np.array(vals, ldt).reshape(shape)
    default = (not fixed) and rng.random() < 0.25
    on, off = (1.0, 0.0) if default else pairs[pi_]
    how = rng.randrange(3)
    if default:
      r = call(cu.onehot, labels, n)
    elif how == 0:
      r = call(cu.onehot, labels, n, on, off)
    elif how == 1:
      r = call(cu.onehot, labels, n, on_value=on, off_value=off)
    else:
      r = call(cu.onehot, jnp.asarray(labels), n, on, off)
    recs.append((n, shape, labels, on, off, r))
    reqs.append(('onehot', [labels.reshape(-1).astype(np.int64).tolist(), n]))
  outs = drv.run(reqs)
  for (n, shape, labels, on, off, r), m in zip(recs, outs):
    on32, off32 = f32(on), f32(off)
    case = {'kind': 'onehot', 'n': n, 'labels': labels.tolist(), 'label_dtype': labels.dtype.name, 'on': repr(on), 'off': repr(off), 'on_type': type(on).__name__}
    ctx.case(case)
    ctx.count('onehot_rank', len(shape))
    ctx.count('onehot_on_off', f'{float(on32)!r}/{float(off32)!r}')
    eq = labels.astype(np.int64)[..., None] == np.arange(n).reshape((1,) * labels.ndim + (n,))
    want = np.where(eq, on32, off32).astype(np.float32)
    ind = [[1 if int(l) == c else 0 for c in range(n)] for l in labels.reshape(-1)]
    if r[0] != 'ok':
      ctx.violation('onehot-raises', f'onehot raised {r[1]} on {case}', case)
      continue
    got = np.asarray(r[1])
    if got.shape != shape + (n,) or got.dtype != np.float32:
      ctx.violation('onehot-not-indicator', f'onehot returns shape {got.shape} dtype {got.dtype} on {case}', case)
      continue
    gb, wb = got.view(np.uint32), want.view(np.uint32)
    if not np.array_equal(gb, wb):
      k = int(np.flatnonzero(gb.reshape(-1) != wb.reshape(-1))[0])
      default_vals = float(on32) == 1.0 and float(off32) == 0.0
      ctx.violation(
        'onehot-not-indicator' + ('' if default_vals else '-custom-on-off'),
        f'onehot element #{k} is {got.reshape(-1)[k]!r} (bits {int(gb.reshape(-1)[k]):#010x}), must be exactly '
        f'{"on" if eq.reshape(-1)[k] else "off"}_value = {want.reshape(-1)[k]!r} (bits {int(wb.reshape(-1)[k]):#010x}) on {case}',
        case,
      )
      continue
    # model tie: which of the two values sits where
    sym = np.where(gb == on32.view(np.uint32), 1, np.where(gb == off32.view(np.uint32), 0, 2)).reshape(-1, n).tolist() if n else []
    if on32.view(np.uint32) != off32.view(np.uint32) and m != ('ok', sym):
      ctx.disagreements_checked += 1
      ctx.violation('onehot-model-mismatch', f'model {m} vs implementation {sym} on {case}', case, concrete=False)
    elif m != ('ok', ind):
      ctx.disagreements_checked += 1
      ctx.violation('onehot-model-mismatch', f'model {m} vs {ind}', case, concrete=False)


# ================================================================================================
# entry points
# ================================================================================================


def scan_cases(rng, thorough):
  cases = []
  # all axis tuples (every order) of a rank-3 and a rank-2 array, keepdims on/off
  for shape in [(2, 3, 2), (3, 2)]:
    rank = len(shape)
    for k in range(1, rank + 1):
      for axis in itertools.permutations(range(rank), k):
        for keepdims in (False, True):
          cases.append((shape, axis, keepdims, 3 if keepdims or len(cases) % 3 == 0 else 0, rng.randrange(0, 5)))
  cases.append(((4,), (0,), False, 0, 1))
  cases.append(((4,), (0,), True, 0, 1))
  cases.append(((1, 3), (1, 0), False, 0, 2))
  # negative and mixed axis entries (NumPy semantics -k = rank-k): every tuple of ranks 2 and 3 in every order with
  # every sign pattern; bodies whose output has the rank of the input (a negative axis is relative to the array it is
  # applied to, and transpose_out is applied to the result)
  for shape in [(2, 3, 2) if thorough else (1, 3, 2), (3, 2)]:  # pairwise distinct extents: a misplaced axis shows in the shape
    rank = len(shape)
    for k in range(1, rank + 1):
      for pos in itertools.permutations(range(rank), k):
        for signs in itertools.product([0, 1], repeat=k):
          if any(signs):
            axis = tuple(a - rank if sg else a for a, sg in zip(pos, signs))
            keepdims = len(cases) % 2 == 0
            cases.append((shape, axis, keepdims, 3 if keepdims else rng.choice([0, 3]), rng.randrange(0, 5)))
            if thorough or len(cases) % 3 == 0:
              cases.append((shape, axis, not keepdims, 3, rng.randrange(0, 5)))
  # rank 4, sampled axis tuples
  all4 = [axis for k in range(1, 5) for axis in itertools.permutations(range(4), k)]
  for axis in rng.sample(all4, 40 if thorough else 14):
    shape = tuple(rng.choice([1, 2, 3]) for _ in range(4))
    cases.append((shape, axis, rng.random() < 0.5, rng.choice([0, 3, 3]), rng.randrange(0, 5)))
    neg = tuple(a - 4 if rng.random() < 0.5 else a for a in axis)
    if any(a < 0 for a in neg):
      cases.append((shape, neg, rng.random() < 0.5, 3, rng.randrange(0, 5)))
  # bodies whose output rank differs from the slice rank (transpose_out uses the output's rank)
  for shape, axis in [((2, 3), (0,)), ((2, 3), (1, 0)), ((3, 2), (0, 1)), ((2, 2, 3), (1, 0))]:
    if all(a < len(axis) for a in axis):
      cases.append((shape, axis, False, 1, 1))
  for shape, axis in [((2, 3), (0,)), ((2, 3), (1,)), ((2, 3, 2), (2, 0)), ((2, 3, 2), (1, 2)), ((2, 2, 2), (2, 1, 0)), ((3, 2), (1, 0))]:
    cases.append((shape, axis, False, 2, 2))
  if thorough:
    for shape in [(2, 1, 3, 2), (2, 2, 2, 2)]:
      for axis in all4:
        cases.append((shape, axis, len(cases) % 2 == 0, 0, 1))
  return cases


def run(ctx):
  drv = LeanDriver('drv_c20')
  thorough = ctx.tier == 'thorough'
  rng = ctx.rng
  install_device_mock()

  for fn, obj in load_corpus('C20'):
    ctx.corpus_replayed += 1
    _run_case(ctx, drv, obj)

  # ---- PrefetchIterator --------------------------------------------------------------------------
  nmax, bsmax = (4, 3) if thorough else (3, 2)
  scope = [(n, e, bs) for n in range(0, nmax + 1) for bs in range(1, bsmax + 1) for e in ('stop', {'raises': 7 + n})]
  if not thorough:
    scope += [(n, e, 3) for n in (1, 2) for e in ('stop', {'raises': 3})]
  nsched = check_pi_exhaustive(ctx, drv, scope, 200000, rng)
  ctx.extra['exhaustive_scope'] = (
    f'PrefetchIterator: all {nsched} maximal close-free schedules of the LTS for n<={nmax}, buffer_size<={bsmax} (+ n<=2 at 3), both endings; '
    'prefetch_to_device: all n<=6 x size<=4 x ending x d<=2; pad_shard_unpad: all b<=40 x d in {1,2,3,4,8} x 8 min_device_batch values; '
    '_invert_perm: all permutations of length <= 5; scan_in_dim: all axis tuples of ranks 2 and 3'
  )
  # model-generated schedules with close(): a close-free maximal schedule with close() inserted at a random point,
  # truncated where the model gets stuck
  closers = []
  for _ in range(400 if thorough else 120):
    n, bs = rng.randrange(0, 4), rng.randrange(1, 3)
    ending = 'stop' if rng.random() < 0.4 else {'raises': rng.randrange(1, 50)}
    closers.append((n, ending, bs))
  base = drv.run([('pi_schedules', ['fixed', bs, e, list(range(1, n + 1)), 60]) for (n, e, bs) in closers])
  cand = []
  for (n, e, bs), r in zip(closers, base):
    sched = list(rng.choice(r[1]))
    at = rng.randrange(3, len(sched) + 1)
    sched = sched[:at] + ['close'] + sched[at:] + ['next', 'next']
    cand.append((n, e, bs, sched))
  tr = model_traces(drv, cand)
  cut = []
  for (n, e, bs, sched), t in zip(cand, tr):
    if t[0] == 'ok' and t[1]['stuck'] is not None:
      sched = sched[: t[1]['stuck']]
    cut.append((n, e, bs, sched))
  tr = model_traces(drv, cut)
  for (n, e, bs, sched), t in zip(cut, tr):
    ctx.count('pi_close_schedules', 'with close')
    replay_schedule(ctx, n, e, bs, sched, t, rng, origin='close')
  # implementation-driven random interleavings
  for i in range(1500 if thorough else 260):
    n = rng.choice([0, 0, 1, 1, 2, 3, 4, 5, 7, 9])
    ending = 'stop' if rng.random() < 0.35 else {'raises': rng.randrange(1, 50)}
    random_walk(ctx, rng, n, ending, rng.choice([1, 1, 2, 2, 3, 4]), allow_close=(i % 4 == 0), values=make_values(rng, n) if i % 3 == 1 else None)
  # excluded point buffer_size=0 (not a finding): after the first item nothing but close() can move
  t = drv.run([('pi_trace', ['fixed', 0, 'stop', [1, 2], ['ctor', 'ctor', 'ctor', 'fetch', 'put', 'next']])])[0]
  replay_schedule(ctx, 2, 'stop', 0, ['ctor', 'ctor', 'ctor', 'fetch', 'put', 'next'], t, None, origin='excluded-point')
  ctx.count('excluded_points_run', 'buffer_size=0')
  check_pi_fine(ctx, rng, thorough)
  real_soak(ctx, rng, 1500 if thorough else 150)

  # ---- prefetch_to_device ------------------------------------------------------------------------
  scope = [(n, size, e, d) for n in range(0, 7) for size in range(0, 5) for e in ('stop', {'raises': 11 + n}) for d in (1, 2)]
  check_prefetch_to_device(ctx, drv, scope)
  ctx.count('excluded_points_run', 'size=0', 28)
  check_prefetch_to_device_items(ctx, drv, rng, 600 if thorough else 100)

  # ---- pad_shard_unpad ---------------------------------------------------------------------------
  scope = [(b, d, mdb) for b in range(1, 41) for d in (1, 2, 3, 4, 8) for mdb in (None, 0, 1, 2, 3, 5, 7, 12)]
  check_pad_shard_unpad(ctx, drv, scope, rng)
  check_pad_shard_unpad_misc(ctx, drv, rng)
  if thorough:
    check_pad_shard_unpad(ctx, drv, [(rng.randrange(41, 300), rng.randrange(1, 17), rng.choice([None, 1, 4, 9, 33])) for _ in range(1500)], rng)

  # ---- scan_in_dim -------------------------------------------------------------------------------
  check_invert_perm(ctx, drv, 6 if thorough else 5)
  sc = scan_cases(rng, thorough)
  check_scan_in_dim(ctx, drv, sc)

  # ---- reshape helpers ---------------------------------------------------------------------------
  check_reshape_helpers(ctx, drv, rng, 400 if thorough else 120)

  ctx.sample({'kind': 'pi-sched', 'n': 2, 'ending': {'raises': 9}, 'bs': 2, 'sched': ['ctor', 'ctor', 'fetch', 'put', 'fetch', 'ctor', 'put', 'next', 'wake', 'fetch', 'fail', 'next', 'next']})
  ctx.sample({'kind': 'pi-walk', 'n': 5, 'ending': 'stop', 'bs': 3, 'allow_close': True})
  ctx.sample({'kind': 'ptd', 'n': 4, 'size': 2, 'ending': {'raises': 11}, 'd': 2})
  ctx.sample({'kind': 'psu', 'b': 13, 'd': 4, 'mdb': 5, 'tshape': [2, 2]})
  ctx.sample({'kind': 'scan', 'shape': list(sc[5][0]), 'axis': list(sc[5][1]), 'keepdims': sc[5][2], 'body': sc[5][3], 'init': sc[5][4]})
  ctx.sample({'kind': 'onehot', 'n': 3, 'labels': [[0, 2], [-1, 3]]})
  ctx.extra['exhaustive'] = False
  ctx.extra['driver_calls'] = drv.calls


def _run_case(ctx, drv, obj):
  case = obj.get('case', obj)
  kind = case.get('kind')
  install_device_mock()
  if kind == 'pi-sched':
    n, e, bs, sched = case['n'], case['ending'], case['bs'], case['sched']
    t = model_traces(drv, [(n, e, bs, sched)])[0]
    replay_schedule(ctx, n, e, bs, sched, t, None, origin='replay')
  elif kind == 'pi-walk':
    # replays the recorded interleaving if there is one, otherwise fresh random walks of that shape
    taken = [a for a in case.get('taken', []) if ':' not in a]
    if taken:
      n, e, bs = case['n'], case['ending'], case['bs']
      t = model_traces(drv, [(n, e, bs, taken)])[0]
      replay_schedule(ctx, n, e, bs, taken, t, None, origin='replay')
    for _ in range(30):
      random_walk(ctx, ctx.rng, case['n'], case['ending'], case['bs'], case.get('allow_close', False))
  elif kind == 'pi-fine':
    fine_case(ctx, case['n'], case['ending'], case['bs'], preempt=set(case.get('preempt', [])))
  elif kind == 'pi-real':
    real_soak(ctx, ctx.rng, 60)
  elif kind == 'ptd-items':
    check_prefetch_to_device_items(ctx, drv, ctx.rng, 50)
  elif kind == 'ptd':
    check_prefetch_to_device(ctx, drv, [(case['n'], case['size'], case['ending'], case.get('d', 1))])
  elif kind in ('psu',):
    check_pad_shard_unpad(ctx, drv, [(case['b'], case['d'], case['mdb'])] * 3, ctx.rng)
  elif kind in ('psu2', 'psu2-inconsistent', 'psu-static-return'):
    check_pad_shard_unpad_misc(ctx, drv, ctx.rng)
  elif kind == 'scan':
    check_scan_in_dim(ctx, drv, [(tuple(case['shape']), tuple(case['axis']), case['keepdims'], case['body'], case['init'])])
  elif kind == 'invert_perm':
    check_invert_perm(ctx, drv, max(5, len(case['perm'])))
  elif kind in ('replicate', 'shard', 'stack_forest', 'get_metrics', 'get_metrics-copy', 'onehot', 'stack_forest-mismatch'):
    check_reshape_helpers(ctx, drv, ctx.rng, 60)
  else:
    ctx.notes.append(f'unknown corpus case kind {kind}')


def replay(ctx, obj):
  drv = LeanDriver('drv_c20')
  _run_case(ctx, drv, obj)
  for v in ctx.violations:
    print('  ', v['key'], '-', v['what'][:300])
  return bool(ctx.violations)
