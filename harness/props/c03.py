"""C03 — NNX split/merge round-trips any object graph, preserving sharing and cycles.

Theorems: lean/Flax/Props/C03.lean over lean/Flax/Model/{Heap,Graph}.lean.

What this harness does on every run
  * generates abstract object graphs (heap of graph nodes and Variables with arbitrary aliasing, cycles,
    nested list/tuple/dict/None attributes, static and array attributes) from the seeded PRNG, plus a
    bounded-exhaustive stream of every aliasing pattern of <= 2 nodes / 2 attributes / 2 Variables;
  * builds them as real `nnx.Module` / `nnx.Object` / `nnx.Variable` objects and runs the real
    split / merge / state / update / clone / pop / iter_graph / graphdef from /repo on them;
  * observes the real objects with an INDEPENDENT walker (ids -> addresses, `vars(obj)`), never through nnx,
    and canonicalises with an independent DFS labelling (`canon`) and a bounded path table (`path_table`);
  * pipes the same abstract graph through the compiled Lean model (drv_c03) and compares the observable
    results (canonical form of the rebuilt graph, flat states, mutated heap, popped states, iteration);
  * evaluates the property's clauses directly on the implementation (oracles) so that a failure is reported
    with a concrete input.  Model != implementation while every oracle passes is reported as
    `no-failing-input-found`.

Interpretations (DESIGN.md §7): identity = graph nodes and Variables; a list/dict object shared by two nodes
is duplicated by split/merge (known finding `shared-pytree-container`, separate stream); array leaves are
values (clone shares NumPy buffers: observation, not compared).
"""
from __future__ import annotations

import itertools
import json
from collections.abc import Mapping

from harness import compat  # noqa: F401  (must precede flax)
from harness.common import LeanDriver, load_corpus

import numpy as np
import jax
import jax.numpy as jnp
from flax import nnx

SPEC = {
  'exes': ['drv_c03'],
  'rule': (
    'One case = one rooted object graph + one plan (filters, merge order, state filters, update state, pop filters). '
    'Random stream: 1-12 graph nodes (4 classes), 0-6 Variables (7 classes incl. a subclass with an on_get_value hook; metadata incl. tag and on_get_value / on_set_value hooks), attributes drawn from '
    '{node ref (back edges and self loops allowed), Variable ref (shared), static, array, None, nested list/tuple/dict}; '
    'roots are nodes, containers or bare Variables. Exhaustive stream: every assignment of 2 attribute slots of <=2 nodes '
    'to {absent, node0, node1, var0, var1, static}. A case is non-trivial when the graph has a shared object, a cycle, '
    'a container attribute or >=2 filters; distinct = distinct canonical JSON of (graph, plan).'
  ),
  'trusted_base': [
    'hand-written Lean models lean/Flax/Model/Heap.lean, Graph.lean, Filter.lean (tied to /repo by this correspondence run)',
    'harness/props/c03.py: generator, builder of real nnx objects, independent observer/canonicaliser, oracles; harness/compat.py (JAX shim)',
    'Python data model: id() identity, vars(obj) as an insertion-ordered dict with distinct keys, sorted() on homogeneous keys (A-PY)',
  ],
  'assumptions': [
    'nested State <-> flat path map conversions are the identity on prefix-free path maps (property C16)',
    'generic pytree containers (NamedTuple, OrderedDict, struct.dataclass) are not value forms of the heap model: their flatten/unflatten permutation is modelled and proved separately (pytree_unflatten_flatten_id, any declared order) and graphs holding them are checked on the implementation only (stream generic-pytree: isomorphism incl. field positions, aliasing, freshness, source unchanged, state, update(state))',
    'a State is a mapping: the model takes each state as an ORDERED list of (path, leaf) pairs in any order and sorts the concatenation, so merge_any_order covers unsorted insertion order inside one state (merge_state / | / from_flat_path / hand-written dicts); the harness feeds such re-joined and shuffled mappings to nnx.merge',
    'pytree containers are values: a list/dict object shared by two graph nodes is duplicated by split/merge (finding F8, known, key shared-pytree-container)',
    'array leaves and Variable values are opaque immutable payloads (interned to integers); nnx.clone shares NumPy buffers by reference (observation)',
    'sibling keys are homogeneous (all int or all str), as sorted() requires',
    'Variable hooks (on_get_value / on_set_value, via metadata kwarg or a Variable subclass) are opaque metadata entries for the model: flatten / unflatten / update_from_state copy raw payloads and never run a hook; the harness observes raw_value, .value (after hooks) and metadata (hooks by qualified name). on_create_value runs only in Variable.__init__ and is not generated',
    'update with a key the node does not have, or a nested State written into an array/Variable slot, is outside the model (never generated)',
    'excluded point: nnx.update(g, nnx.state(g)) raises ValueError("Cannot set key … on immutable node") when state lists an array that sits inside a list/tuple/dict (pytree containers are immutable values for flax, same interpretation as F8); the model agrees (updImmutable)',
    'iter_graph is compared on graph nodes, Variables, arrays and statics; Python also de-duplicates None/() singletons and containers by id()',
  ],
  'model_partial': [
    'first path: CLOSED (flatten_first_path, state_first_path, split_first_path, pop_first_path) — the DFS order of flatten is made explicit (`trace`: encounters and registrations alongside ref_index) and every Variable is listed / returned under the path of its first encounter.',
    'update values: CLOSED (update_values) — for arbitrary states every Variable ends as the fold, in state order, of exactly the leaves whose path reaches it (last write wins); plus update_identity / update_frame / update_sets_path.',
    'pop with path-dependent filters: CLOSED (pop_first_match / PopOrdered, pop_any_filters) — for arbitrary filters a Variable is returned at its FIRST matching encounter in DFS order, every Variable with a matching encounter is returned, and every reference met at or after that encounter is removed; the stronger clause "unreachable afterwards" is false for path-dependent filters (closed counter-example pop_path_filter_keeps_earlier_alias, tied to the implementation by corpus/C03/pop_path_filter_aliases.json and the oracle ref_pop) and is proved for path-independent filters (pop_exact).',
    'array attributes under update: CLOSED for one raw leaf (update_sets_array: exactly that slot of exactly that node changes) together with update_frame / update_identity for everything else. NOT proved in Lean: the fold statement for SEVERAL raw leaves aliasing the same array slot (last write wins), which update_values proves for Variables only; model correspondence and update_oracle cover it.',
  ],
}

# ------------------------------------------------------------------------------------------------
# real classes
# ------------------------------------------------------------------------------------------------

NODE_CLASSES = {
  'A': type('A', (nnx.Module,), {}),
  'B': type('B', (nnx.Module,), {}),
  'C': type('C', (nnx.Module,), {}),
  'O': type('O', (nnx.Object,), {}),
}


class MyParam(nnx.Param):
  pass


def hook_double(var, x):
  return x * 2


def hook_plus1(var, x):
  return x + 1


def hook_set_neg(var, x):
  return -x


class HookedParam(nnx.Param):
  """a Variable subclass that defines a get-hook: Variable.__init__ records it in the metadata"""

  def on_get_value(self, value):
    return value * 3


HOOKS = {f.__qualname__: f for f in (hook_double, hook_plus1, hook_set_neg, HookedParam.on_get_value)}
HOOKED_MD = ['on_get_value', 'h:' + HookedParam.on_get_value.__qualname__]

VTYPES = {
  'HookedParam': HookedParam,
  'Param': nnx.Param,
  'BatchStat': nnx.BatchStat,
  'Cache': nnx.Cache,
  'Intermediate': nnx.Intermediate,
  'MyParam': MyParam,
  'Variable': nnx.Variable,
}


import collections as _collections
from flax import struct as _struct

Affine = _collections.namedtuple('Affine', ['weight', 'bias', 'child'])  # sorted: bias, child, weight (a 3-cycle)
Quad = _collections.namedtuple('Quad', ['z', 'm', 'a', 'k'])  # sorted: a, k, m, z (a 4-cycle)


@_struct.dataclass
class Blk:
  w: object
  b: object
  c: object


GENERIC = {'Affine': Affine, 'Quad': Quad, 'Blk': Blk, 'OrderedDict': _collections.OrderedDict}


def mro_names(cls):
  return [c.__name__ for c in cls.__mro__]


VT_MRO = {k: mro_names(v) for k, v in VTYPES.items()}

# ------------------------------------------------------------------------------------------------
# opaque payloads and statics
# ------------------------------------------------------------------------------------------------

_DATA_CACHE: dict[int, object] = {}
_DATA_IDS: dict[tuple, int] = {}
_NEXT_UNKNOWN = [1_000_000]


def _data_key(v):
  if isinstance(v, np.ndarray):
    return ('np', v.dtype.str, v.shape, v.tobytes())
  if isinstance(v, jax.Array):
    a = np.asarray(v)
    return ('jax', a.dtype.str, a.shape, a.tobytes())
  return ('py', type(v).__name__, repr(v))


def mk_data(d: int):
  """The concrete payload with id `d` (deterministic)."""
  if d not in _DATA_CACHE:
    m = d % 4
    if m == 0:
      v = np.array([d, d + 1], dtype=np.int32)
    elif m == 1:
      v = np.full((1, 2), d * 0.5, dtype=np.float32)
    elif m == 2:
      v = jnp.asarray([d], dtype=jnp.int32)
    else:
      v = int(d)
    _DATA_CACHE[d] = v
    _DATA_IDS[_data_key(v)] = d
  return _DATA_CACHE[d]


def data_id(v) -> int:
  k = _data_key(v)
  if k not in _DATA_IDS:
    _DATA_IDS[k] = _NEXT_UNKNOWN[0]
    _NEXT_UNKNOWN[0] += 1
  return _DATA_IDS[k]


def static_repr(v) -> str:
  if isinstance(v, bool):
    return 'b:' + repr(v)
  if isinstance(v, int):
    return 'i:' + repr(v)
  if isinstance(v, str):
    return 's:' + v
  if isinstance(v, float):
    return 'f:' + repr(v)
  if callable(v) and getattr(v, '__qualname__', None) in HOOKS:
    return 'h:' + v.__qualname__  # hooks are compared by name, never by id
  return 'o:' + type(v).__name__


def static_value(s: str):
  t, body = s[:2], s[2:]
  if t == 'b:':
    return body == 'True'
  if t == 'i:':
    return int(body)
  if t == 's:':
    return body
  if t == 'f:':
    return float(body)
  if t == 'h:':
    return HOOKS[body]
  raise ValueError(s)


# ------------------------------------------------------------------------------------------------
# abstract graphs:  G = {'heap': [Obj], 'root': PVal}   (the JSON forms of lean/Flax/Driver/C03.lean)
# ------------------------------------------------------------------------------------------------


def build(G, shared=None):
  """Real nnx objects for an abstract graph. Returns (objects by address, root value).
  `shared = [[addr_a, key_a], [addr_b, key_b]]` makes attribute b the *same Python object* as attribute a
  (used only by the shared-container stream)."""
  objs = []
  for o in G['heap']:
    if 'cls' in o:
      objs.append(NODE_CLASSES[o['cls']]())
    else:
      objs.append(VTYPES[o['vt'][0]](mk_data(o['val']), **{k: static_value(v) for k, v in o['md']}))

  def val(p):
    if p is None:
      return None
    if 's' in p:
      return static_value(p['s'])
    if 'a' in p:
      return mk_data(p['a'])
    if 'r' in p:
      return objs[p['r']]
    if 'l' in p:
      return [val(x) for x in p['l']]
    if 't' in p:
      return tuple(val(x) for x in p['t'])
    if 'd' in p:
      return {k: val(x) for k, x in p['d']}
    if 'g' in p:  # generic pytree (NamedTuple / OrderedDict / struct.dataclass), children in DECLARED order
      name, items = p['g']
      if name == 'OrderedDict':
        return _collections.OrderedDict((k, val(x)) for k, x in items)
      return GENERIC[name](**{k: val(x) for k, x in items})
    raise ValueError(p)

  for o, spec in zip(objs, G['heap']):
    if 'cls' in spec:
      for k, v in spec['attrs']:
        setattr(o, k, val(v))
  if shared:
    (a, ka), (b, kb) = shared
    setattr(objs[b], kb, getattr(objs[a], ka))
  return objs, val(G['root'])


class Observer:
  """Independent observation of real objects: ids -> addresses (stable across calls), `vars()` order kept."""

  def __init__(self, objs=()):
    self.addr = {}
    self.keep = []
    self.containers = {}  # id -> count of list/dict objects seen during the last snapshot
    self.hv = {}  # address -> payload id of Variable.value (the value AFTER on_get_value hooks), last snapshot
    for o in objs:
      self.add(o)

  def add(self, o):
    i = self.addr.get(id(o))
    if i is None:
      i = len(self.keep)
      self.addr[id(o)] = i
      self.keep.append(o)
    return i

  def val(self, v):
    if isinstance(v, (nnx.Variable, nnx.Object)):
      return {'r': self.add(v)}
    if v is None:
      return None
    if isinstance(v, _collections.OrderedDict):
      return {'g': ['OrderedDict', [[k, self.val(x)] for k, x in v.items()]]}
    if isinstance(v, tuple) and hasattr(v, '_fields'):
      return {'g': [type(v).__name__, [[f, self.val(getattr(v, f))] for f in v._fields]]}
    if isinstance(v, Blk):
      return {'g': ['Blk', [[f, self.val(getattr(v, f))] for f in ('w', 'b', 'c')]]}
    if isinstance(v, list):
      self.containers[id(v)] = self.containers.get(id(v), 0) + 1
      return {'l': [self.val(x) for x in v]}
    if isinstance(v, tuple):
      return {'t': [self.val(x) for x in v]}
    if isinstance(v, dict):
      self.containers[id(v)] = self.containers.get(id(v), 0) + 1
      return {'d': [[k, self.val(x)] for k, x in v.items()]}
    if isinstance(v, (np.ndarray, jax.Array)):
      return {'a': data_id(v)}
    return {'s': static_repr(v)}

  def obj(self, o):
    if isinstance(o, nnx.Variable):
      return {
        'vt': mro_names(type(o)),
        'val': data_id(o.raw_value),
        'md': [[k, static_repr(v)] for k, v in o.get_metadata().items()],
      }
    return {'cls': type(o).__name__, 'attrs': [[k, self.val(v)] for k, v in vars(o).items() if k != '_object__state']}

  def snapshot(self, root):
    self.containers = {}
    rootv = self.val(root)
    heap = []
    i = 0
    self.hv = {}
    while i < len(self.keep):
      o = self.keep[i]
      heap.append(self.obj(o))
      if isinstance(o, nnx.Variable):
        try:
          self.hv[i] = data_id(o.value)
        except Exception as e:  # a hook that cannot be applied is an observation too
          self.hv[i] = 'err:' + type(e).__name__
      i += 1
    return {'heap': heap, 'root': rootv}


def container_ids(root):
  """ids of the list/dict objects reachable from a real root, with multiplicity (independent walk)"""
  seen = set()
  out = {}

  def go(v):
    if isinstance(v, nnx.Object):
      if id(v) in seen:
        return
      seen.add(id(v))
      for k, x in vars(v).items():
        if k != '_object__state':
          go(x)
    elif isinstance(v, (list, dict)):
      out[id(v)] = out.get(id(v), 0) + 1
      for x in v.values() if isinstance(v, dict) else v:
        go(x)
    elif isinstance(v, tuple):
      for x in v:
        go(x)

  go(root)
  return out


def key_sort(k):
  return (0, k, '') if isinstance(k, int) else (1, 0, k)


def sorted_items(items):
  return sorted(items, key=lambda kv: key_sort(kv[0]))


def children(G, v):
  """(key, child) pairs in the order flax traverses them, or None for a leaf-like value."""
  if v is None:
    return []
  if 'r' in v:
    o = G['heap'][v['r']]
    return sorted_items(o['attrs']) if 'cls' in o else None
  if 'l' in v:
    return list(enumerate(v['l']))
  if 't' in v:
    return list(enumerate(v['t']))
  if 'd' in v:
    return sorted_items(v['d'])
  if 'g' in v:
    return sorted_items(v['g'][1])  # flax visits a generic pytree's children sorted by key
  return None


def canon(G, hv=None):
  """Independent canonical form of the rooted graph: DFS in sorted key order, objects labelled by first
  visit, later visits are back references; attribute/dict insertion order and addresses are forgotten."""
  heap = G['heap']
  label = {}

  def cv(v):
    if v is None:
      return None
    if 's' in v:
      return ['s', v['s']]
    if 'a' in v:
      return ['a', v['a']]
    if 'l' in v:
      return ['l', [cv(x) for x in v['l']]]
    if 't' in v:
      return ['t', [cv(x) for x in v['t']]]
    if 'd' in v:
      return ['d', [[k, cv(x)] for k, x in sorted_items(v['d'])]]
    if 'g' in v:  # labels in traversal (sorted) order, children reported in DECLARED order: field positions matter
      name, items = v['g']
      done = {json.dumps(k): cv(x) for k, x in sorted_items(items)}
      return ['g', name, [[k, done[json.dumps(k)]] for k, _ in items]]
    a = v['r']
    if a in label:
      return ['ref', label[a]]
    n = label[a] = len(label)
    o = heap[a]
    if 'cls' in o:
      return ['node', n, o['cls'], [[k, cv(x)] for k, x in sorted_items(o['attrs'])]]
    return ['var', n, o['vt'], o['val'], sorted(o['md'])] + ([hv.get(a)] if hv is not None else [])

  return cv(G['root'])


def path_table(G, max_depth=4, max_paths=250):
  """Second, path-based view used by the oracle: for every path (breadth first, bounded) what it reaches;
  identity objects are numbered by first occurrence, so two tables agree iff the same paths alias."""
  heap = G['heap']
  ids = {}
  out = []
  queue = [((), G['root'])]
  while queue and len(out) < max_paths:
    p, v = queue.pop(0)
    if v is None:
      d = ['none']
    elif 's' in v:
      d = ['s', v['s']]
    elif 'a' in v:
      d = ['a', v['a']]
    elif 'r' in v:
      o = heap[v['r']]
      n = ids.setdefault(v['r'], len(ids))
      d = ['node', n, o['cls']] if 'cls' in o else ['var', n, o['vt'], o['val'], sorted(o['md'])]
    else:
      kind = next(iter(v))
      d = ['g', v['g'][0], [k for k, _ in v['g'][1]]] if kind == 'g' else [kind, len(v[kind])]
    out.append([list(p), d])
    if len(p) < max_depth:
      ch = children(G, v)
      if ch:
        queue.extend((p + (k,), c) for k, c in ch)
  return out


def reachable(G):
  seen = []
  seen_set = set()

  def go(v):
    if v is None or 's' in v or 'a' in v:
      return
    if 'r' in v:
      if v['r'] in seen_set:
        return
      seen_set.add(v['r'])
      seen.append(v['r'])
    for _, c in children(G, v) or []:
      go(c)

  go(G['root'])
  return seen


def ref_state(G):
  """Independent reference for `state` / flatten's leaves: DFS in sorted key order, every identity object
  expanded at its first visit only; array attributes are leaves at every visit of their owner."""
  heap = G['heap']
  seen = set()
  out = []

  def go(path, v):
    if v is None or 's' in v:
      return
    if 'a' in v:
      out.append([list(path), {'arr': v['a']}])
      return
    if 'r' in v:
      a = v['r']
      if a in seen:
        return
      seen.add(a)
      o = heap[a]
      if 'vt' in o:
        out.append([list(path), {'vt': o['vt'], 'val': o['val'], 'md': o['md']}])
        return
    for k, c in children(G, v):
      go(path + (k,), c)

  go((), G['root'])
  return out


def array_in_container(G):
  """does nnx.state(g) list an array leaf that lives inside a list/tuple/dict (update cannot write those)?"""
  for p, leaf in ref_state(G):
    if 'arr' in leaf and p:
      v = G['root']
      for k in p[:-1]:
        v = dict((json.dumps(kk), c) for kk, c in children(G, v))[json.dumps(k)]
      if v is None or 'r' not in v:
        return True
  return False


def graph_features(G):
  heap = G['heap']
  reach = reachable(G)
  indeg = {}
  containers = 0
  self_loop = False

  def scan(owner, v):
    nonlocal containers, self_loop
    if v is None or 's' in v or 'a' in v:
      return
    if 'r' in v:
      indeg[v['r']] = indeg.get(v['r'], 0) + 1
      if owner is not None and v['r'] == owner:
        self_loop = True
      return
    containers += 1
    for _, c in children(G, v):
      scan(owner, c)

  scan(None, G['root'])
  for a in reach:
    if 'cls' in heap[a]:
      for _, v in heap[a]['attrs']:
        scan(a, v)
  shared_var = any(n > 1 and 'vt' in heap[a] for a, n in indeg.items())
  shared_node = any(n > 1 and 'cls' in heap[a] for a, n in indeg.items())
  # cycle detection among nodes
  color = {}
  cyc = False

  def refs(v, acc):
    if v is None or 's' in v or 'a' in v:
      return
    if 'r' in v:
      acc.append(v['r'])
      return
    for _, c in children(G, v):
      refs(c, acc)

  def dfs(a):
    nonlocal cyc
    color[a] = 1
    if 'cls' in heap[a]:
      acc = []
      for _, v in heap[a]['attrs']:
        refs(v, acc)
      for b in acc:
        if color.get(b) == 1:
          cyc = True
        elif b not in color:
          dfs(b)
    color[a] = 2

  for a in reach:
    if a not in color:
      dfs(a)
  return {
    'objects': len(reach),
    'shared_var': shared_var,
    'shared_node': shared_node,
    'cycle': cyc,
    'self_loop': self_loop,
    'containers': containers,
  }


# ------------------------------------------------------------------------------------------------
# filters (same JSON as drv_c14 / drv_c03; path keys encoded '#3' / '$name')
# ------------------------------------------------------------------------------------------------


def enc_key(k):
  return ('#%d' % k) if isinstance(k, int) else ('$' + k)


def dec_key(s):
  return int(s[1:]) if s.startswith('#') else s[1:]


def nf_python(j):
  from flax.nnx import filterlib

  if j == 'everything':
    return ...
  if j == 'nothing':
    return filterlib.Nothing()
  if 'tag' in j:
    return filterlib.WithTag(j['tag'])
  if 'type' in j:
    return filterlib.OfType(VTYPES[j['type']])
  if 'contains' in j:
    return filterlib.PathContains(dec_key(j['contains']))
  if 'pathin' in j:
    return filterlib.PathIn(*[tuple(dec_key(k) for k in p) for p in j['pathin']])
  if 'any' in j:
    return filterlib.Any(*[nf_python(x) for x in j['any']])
  if 'all' in j:
    return filterlib.All(*[nf_python(x) for x in j['all']])
  if 'not' in j:
    return filterlib.Not(nf_python(j['not']))
  raise ValueError(j)


def nf_oracle(j, path, leaf):
  """Independent reading of each filter form on (path, leaf json)."""
  if j == 'everything':
    return True
  if j == 'nothing':
    return False
  if 'tag' in j:
    return 'vt' in leaf and any(k == 'tag' and v == 's:' + j['tag'] for k, v in leaf['md'])
  if 'type' in j:
    return 'vt' in leaf and j['type'] in leaf['vt']
  if 'contains' in j:
    return dec_key(j['contains']) in path
  if 'pathin' in j:
    return list(path) in [[dec_key(k) for k in p] for p in j['pathin']]
  if 'any' in j:
    return any(nf_oracle(x, path, leaf) for x in j['any'])
  if 'all' in j:
    return all(nf_oracle(x, path, leaf) for x in j['all'])
  if 'not' in j:
    return not nf_oracle(j['not'], path, leaf)
  raise ValueError(j)


def path_independent(j):
  if isinstance(j, str):
    return True
  if 'contains' in j or 'pathin' in j:
    return False
  for k in ('any', 'all'):
    if k in j:
      return all(path_independent(x) for x in j[k])
  if 'not' in j:
    return path_independent(j['not'])
  return True


def first_match(filters, path, leaf):
  for i, f in enumerate(filters):
    if nf_oracle(f, path, leaf):
      return i
  return len(filters)


def random_filter(rng, paths, depth=2):
  r = rng.random()
  if depth == 0 or r < 0.55:
    c = rng.random()
    if c < 0.45:
      return {'type': rng.choice(list(VTYPES))}
    if c < 0.65:
      return {'tag': rng.choice(['x', 'y'])}
    if c < 0.8 and paths:
      p = rng.choice(paths)
      return {'contains': enc_key(rng.choice(p))} if p else {'tag': 'x'}
    if c < 0.92 and paths:
      return {'pathin': [[enc_key(k) for k in p] for p in rng.sample(paths, min(len(paths), rng.randrange(1, 3)))]}
    return rng.choice(['nothing', {'type': 'Variable'}])
  if r < 0.7:
    return {'not': random_filter(rng, paths, depth - 1)}
  k = 'any' if r < 0.85 else 'all'
  return {k: [random_filter(rng, paths, depth - 1) for _ in range(rng.randrange(0, 3))]}


# ------------------------------------------------------------------------------------------------
# states
# ------------------------------------------------------------------------------------------------


def leaf_json(x):
  if isinstance(x, nnx.VariableState):
    return {'vt': mro_names(x.type), 'val': data_id(x.value), 'md': [[k, static_repr(v)] for k, v in x.get_metadata().items()]}
  if isinstance(x, (np.ndarray, jax.Array)):
    return {'arr': data_id(x)}
  return {'other': type(x).__name__}


def flat_of_state(s):
  """nested State / dict (or a bare leaf) -> [[path, leaf json]] in the mapping's own iteration order"""
  out = []

  def rec(prefix, x):
    if isinstance(x, Mapping):
      for k, v in x.items():
        rec(prefix + [k], v)
    else:
      out.append([prefix, leaf_json(x)])

  rec([], s)
  return out


def path_key(p):
  return [key_sort(k) for k in p]


def sort_flat(fl):
  return sorted(fl, key=lambda it: path_key(it[0]))


def nest(flat):
  """[[path, python leaf]] -> nested dict in insertion order (independent of nnx)"""
  if len(flat) == 1 and not flat[0][0]:
    return flat[0][1]
  root = {}
  for p, leaf in flat:
    cur = root
    for k in p[:-1]:
      cur = cur.setdefault(k, {})
    cur[p[-1]] = leaf
  return root


def stree_json(flat):
  """[[path, leaf json]] -> STree JSON with the same nesting / insertion order as `nest`"""
  if len(flat) == 1 and not flat[0][0]:
    return {'leaf': flat[0][1]}
  root = {}
  for p, leaf in flat:
    cur = root
    for k in p[:-1]:
      cur = cur.setdefault(k, {})
    cur[p[-1]] = ('leaf', leaf)

  def conv(d):
    if isinstance(d, tuple):
      return {'leaf': d[1]}
    return {'node': [[k, conv(v)] for k, v in d.items()]}

  return conv(root)


def flat_objs(state):
  """nested State / dict -> [(path tuple, the real leaf object)]"""
  out = []

  def rec(prefix, x):
    if isinstance(x, Mapping):
      for k, v in x.items():
        rec(prefix + (k,), v)
    else:
      out.append((prefix, x))

  rec((), state)
  return out


def shuffled_nested(flat, r):
  """plain nested dict with the key order shuffled at every level"""
  root = {}
  for p, leaf in flat:
    cur = root
    for k in p[:-1]:
      cur = cur.setdefault(k, {})
    cur[p[-1]] = leaf

  def reorder(d):
    keys = list(d)
    r.shuffle(keys)
    return {k: (reorder(d[k]) if isinstance(d[k], dict) else d[k]) for k in keys}

  return reorder(root)


def rejoin_states(states, mode, seed):
  """arguments for nnx.merge carrying the same leaves as `states`, in mappings whose insertion order is not sorted"""
  import functools
  import random as _random

  r = _random.Random(seed)
  if mode == 'joined':
    idxs = list(range(len(states)))
    r.shuffle(idxs)
    k = r.randrange(1, len(idxs) + 1)
    parts = [states[i] for i in idxs[:k]]
    if r.random() < 0.5:
      joined = nnx.merge_state(*parts)
    else:
      joined = functools.reduce(lambda a, b: a | b, parts)
    args = [states[i] for i in idxs[k:]]
    args.insert(r.randrange(len(args) + 1), joined)
    return args
  flat = [it for st in states for it in flat_objs(st)]
  r.shuffle(flat)
  if mode == 'from_flat':
    return [nnx.State.from_flat_path(dict(flat))]
  if mode == 'dict':
    return [shuffled_nested(flat, r)]
  raise ValueError(mode)


def leaf_python(leaf):
  if 'arr' in leaf:
    return mk_data(leaf['arr'])
  return nnx.VariableState(VTYPES[leaf['vt'][0]], mk_data(leaf['val']), **{k: static_value(v) for k, v in leaf['md']})


# ------------------------------------------------------------------------------------------------
# generators
# ------------------------------------------------------------------------------------------------

ATTR_NAMES = ['a', 'b', 'ab', 'a_b', 'z', 'B', 'x1', 'x10', 'x2', 'k', 'w', 'kernel', 'bias', '_p', 'Z']
STATICS = ['i:0', 'i:3', 'i:-1', 's:relu', 's:', 'b:True', 'b:False', 'f:0.5']
METAS = [[], [], [], [['on_get_value', 'h:hook_double']], [['on_get_value', 'h:hook_plus1'], ['tag', 's:x']], [['on_set_value', 'h:hook_set_neg']], [['tag', 's:y'], ['on_get_value', 'h:hook_double'], ['on_set_value', 'h:hook_set_neg']], [['tag', 's:x']], [['tag', 's:y']], [['n', 'i:3']], [['tag', 's:x'], ['n', 'i:1']], [['tag', 'i:7']]]


def gen_value(rng, n_nodes, var_addrs, depth, node_bias):
  r = rng.random()
  if r < node_bias and n_nodes:
    return {'r': rng.randrange(n_nodes)}
  if r < node_bias + 0.27 and var_addrs:
    return {'r': rng.choice(var_addrs)}
  r = rng.random()
  if r < 0.3:
    return {'s': rng.choice(STATICS)}
  if r < 0.5:
    d = rng.randrange(0, 40)
    return {'a': d if d % 4 != 3 else d - 1}
  if r < 0.58:
    return None
  if depth <= 0:
    return {'s': rng.choice(STATICS)}
  n = rng.randrange(0, 4)
  kind = rng.random()
  if kind < 0.4:
    return {'l': [gen_value(rng, n_nodes, var_addrs, depth - 1, node_bias) for _ in range(n)]}
  if kind < 0.65:
    return {'t': [gen_value(rng, n_nodes, var_addrs, depth - 1, node_bias) for _ in range(n)]}
  if rng.random() < 0.75:
    keys = rng.sample(ATTR_NAMES, n)
  else:
    keys = rng.sample([0, 1, 2, 5, 10, -1], n)
  return {'d': [[k, gen_value(rng, n_nodes, var_addrs, depth - 1, node_bias)] for k in keys]}


def gen_graph(rng, max_nodes=12, max_vars=6):
  n_nodes = rng.randrange(1, max_nodes + 1) if rng.random() < 0.85 else rng.randrange(0, 2)
  n_vars = rng.randrange(0, max_vars + 1)
  heap = []
  for _ in range(n_nodes):
    heap.append({'cls': rng.choice(list(NODE_CLASSES)), 'attrs': []})
  var_addrs = []
  for _ in range(n_vars):
    vt = rng.choice(list(VTYPES))
    var_addrs.append(len(heap))
    md = [list(x) for x in rng.choice(METAS)]
    if vt == 'HookedParam':  # Variable.__init__ puts the class hook first in the metadata
      md = [list(HOOKED_MD)] + [x for x in md if x[0] != 'on_get_value']
    heap.append({'vt': VT_MRO[vt], 'val': rng.randrange(0, 40), 'md': md})
  node_bias = rng.choice([0.15, 0.3, 0.45])
  for i in range(n_nodes):
    k = rng.randrange(0, 6)
    names = rng.sample(ATTR_NAMES, k)
    heap[i]['attrs'] = [[nm, gen_value(rng, n_nodes, var_addrs, 2, node_bias)] for nm in names]
  # a spine so that most objects are reachable
  for i in range(1, n_nodes):
    if rng.random() < 0.6:
      p = rng.randrange(0, i)
      nm = rng.choice(ATTR_NAMES)
      if all(k != nm for k, _ in heap[p]['attrs']):
        heap[p]['attrs'].append([nm, {'r': i}])
  r = rng.random()
  if n_nodes == 0 or r < 0.06:
    root = {'r': rng.choice(var_addrs)} if var_addrs and rng.random() < 0.5 else gen_root_container(rng, n_nodes, var_addrs)
  elif r < 0.16:
    root = gen_root_container(rng, n_nodes, var_addrs)
  else:
    root = {'r': 0}
  return {'heap': heap, 'root': root}


def gen_root_container(rng, n_nodes, var_addrs):
  n = rng.randrange(0, 4)
  items = [gen_value(rng, n_nodes, var_addrs, 1, 0.5) for _ in range(n)]
  k = rng.random()
  if k < 0.4:
    return {'l': items}
  if k < 0.7:
    return {'t': items}
  return {'d': [[nm, it] for nm, it in zip(rng.sample(ATTR_NAMES, n), items)]}


def gen_plan(rng, G):
  st = ref_state(G)
  paths = [p for p, _ in st]
  plan = {'kind': 'graph', 'G': G}
  # split filters
  r = rng.random()
  if r < 0.2:
    filters = []
  else:
    filters = [random_filter(rng, paths) for _ in range(rng.randrange(0, 4))]
    if rng.random() < 0.85:
      filters.append('everything')
    if rng.random() < 0.04:
      filters.insert(0, 'everything')
  plan['filters'] = filters
  n_states = max(1, len(filters))
  perm = list(range(n_states))
  rng.shuffle(perm)
  if rng.random() < 0.05 and perm:
    # malformed merge: a state is missing or passed twice
    if rng.random() < 0.5 and len(perm) >= 2:  # nnx.merge needs at least one state argument
      perm.pop(rng.randrange(len(perm)))
    else:
      perm.insert(rng.randrange(len(perm) + 1), rng.choice(perm))
  plan['perm'] = perm
  plan['merge_mode'] = 'perm'
  if sorted(perm) == list(range(n_states)) and rng.random() < 0.4:
    plan['merge_mode'] = rng.choice(['joined', 'joined', 'from_flat', 'dict'])
    plan['merge_seed'] = rng.randrange(10**6)
  plan['state_filters'] = [random_filter(rng, paths) for _ in range(rng.randrange(0, 3))]
  # update: new leaves for a subset of the state's paths (+ alias paths, + occasional errors)
  upd = []
  for p, leaf in st:
    if rng.random() < 0.55:
      if 'arr' in leaf:
        d = rng.randrange(0, 40)
        upd.append([p, {'arr': d if d % 4 != 3 else d - 1}])
      elif rng.random() < 0.8:
        vt = leaf['vt'] if rng.random() < 0.85 else VT_MRO[rng.choice(list(VTYPES))]
        md = leaf['md'] if rng.random() < 0.6 else [list(x) for x in rng.choice(METAS)]
        upd.append([p, {'vt': vt, 'val': rng.randrange(0, 40), 'md': md}])
      else:
        d = rng.randrange(0, 40)
        upd.append([p, {'arr': d}])  # raw value for a Variable
  alias = alias_paths(G, 12)
  if alias and rng.random() < 0.35:
    p, leaf = rng.choice(alias)
    if not any(q == p or q[: len(p)] == p or p[: len(q)] == q for q, _ in upd):
      upd.append([p, {'vt': leaf['vt'], 'val': rng.randrange(0, 40), 'md': leaf['md']}])
  if rng.random() < 0.06:
    bad = bad_update_path(rng, G)
    if bad is not None and not any(q[: len(bad)] == bad or bad[: len(q)] == q for q, _ in upd):
      upd.append([bad, {'vt': VT_MRO['Param'], 'val': 1, 'md': []}])
  rng.shuffle(upd)
  plan['update'] = upd
  plan['update_split'] = rng.randrange(1, len(upd)) if len(upd) >= 2 and rng.random() < 0.3 else None
  # pop
  pf = []
  for _ in range(rng.randrange(1, 3)):
    pf.append(random_filter(rng, paths, 1) if rng.random() < 0.25 else rng.choice([{'type': 'Intermediate'}, {'type': 'Param'}, {'type': 'Cache'}, {'tag': 'x'}, {'type': 'BatchStat'}, {'any': [{'type': 'Cache'}, {'tag': 'y'}]}, {'not': {'type': 'Param'}}, {'type': 'Variable'}]))
  plan['pop_filters'] = pf
  hooked = any('vt' in o and any(k.startswith('on_') for k, _ in o['md']) for o in G['heap'])
  plan['self_update'] = hooked or rng.random() < 0.15
  return plan


def alias_paths(G, cap):
  """paths to Variables that are NOT their first path (second references), bounded"""
  first = {json.dumps(p) for p, _ in ref_state(G)}
  out = []
  for p, d in path_table(G, max_depth=4, max_paths=200):
    if d[0] == 'var' and json.dumps(p) not in first and p:
      out.append([p, {'vt': d[2], 'val': d[3], 'md': d[4]}])
      if len(out) >= cap:
        break
  return out


def bad_update_path(rng, G):
  """a path to a node/container (leaf where a subgraph is expected) or to a static attribute"""
  cands = [p for p, d in path_table(G, max_depth=3, max_paths=80) if p and d[0] in ('node', 's', 'l', 'd', 't', 'none')]
  return rng.choice(cands) if cands else None


def exhaustive_graphs(n_nodes, slots=('a', 'b'), n_vars=2):
  """every assignment of the attribute slots of `n_nodes` nodes to {absent, node_j, var_k, static}"""
  choices = [None] + [('n', j) for j in range(n_nodes)] + [('v', k) for k in range(n_vars)] + [('s',)]
  for combo in itertools.product(choices, repeat=n_nodes * len(slots)):
    heap = []
    for i in range(n_nodes):
      attrs = []
      for si, nm in enumerate(slots):
        c = combo[i * len(slots) + si]
        if c is None:
          continue
        if c[0] == 'n':
          attrs.append([nm, {'r': c[1]}])
        elif c[0] == 'v':
          attrs.append([nm, {'r': n_nodes + c[1]}])
        else:
          attrs.append([nm, {'s': 'i:3'}])
      heap.append({'cls': 'AB'[i % 2], 'attrs': attrs})
    heap.append({'vt': VT_MRO['Param'], 'val': 4, 'md': []})
    heap.append({'vt': VT_MRO['Intermediate'], 'val': 8, 'md': [['tag', 's:x']]})
    yield {'heap': heap, 'root': {'r': 0}}


EXH_PLANS = [
  {'filters': [], 'perm': [0], 'state_filters': [], 'pop_filters': [{'type': 'Intermediate'}]},
  {'filters': [{'type': 'Param'}, 'everything'], 'perm': [1, 0], 'state_filters': [{'tag': 'x'}], 'pop_filters': [{'type': 'Param'}, {'type': 'Variable'}]},
  {'filters': [{'type': 'Intermediate'}, 'everything'], 'perm': [0, 1], 'merge_mode': 'joined', 'merge_seed': 1, 'state_filters': [], 'pop_filters': [{'tag': 'x'}]},
]


# ------------------------------------------------------------------------------------------------
# running the implementation
# ------------------------------------------------------------------------------------------------

MODEL_ERR_PY = {
  'unsupported': {'RuntimeError'},
  'keyError': {'KeyError'},
  'notEnoughLeaves': {'ValueError'},
  'extraLeaves': {'ValueError'},
  'indexUsed': {'RuntimeError'},
  'nonExhaustive': {'ValueError'},
  'ellipsisNotLast': {'ValueError'},
  'duplicatePath': {'TypeError', 'ValueError'},
  'popFromPytree': {'ValueError'},
  'noFilter': {'ValueError'},
  'emptyPath': {'IndexError'},
  # leaves shifted by a missing state: Python stores the wrong leaf and fails later with 'Not enough leaves'
  'leafKind': {'ValueError'},
  'updExpectedSubgraph': {'ValueError'},
  'updLeafForNode': {'AttributeError'},
  'updNonVariable': {'ValueError'},
  'updImmutable': {'ValueError'},
}


def call(fn, *a, **k):
  try:
    return ('ok', fn(*a, **k))
  except Exception as e:  # every exception raised by flax is an observation
    return ('err', type(e).__name__)


def same_outcome(impl, model):
  """impl: ('ok', x)|('err', PyExc); model: ('ok', y)|('err', enum). Compares the error classes only."""
  if impl[0] != model[0]:
    return False
  if impl[0] == 'err':
    return impl[1] in MODEL_ERR_PY.get(model[1], set())
  return True


def strip_new(G, n):
  """the first n heap objects (the pre-existing ones)"""
  return G['heap'][:n]


def states_canon(states):
  return [sort_flat(s) for s in states]


class Case:
  """Everything observed on the implementation for one plan."""


def run_impl(plan):
  G = plan['G']
  n0 = len(G['heap'])
  res = {}
  # ---- split / merge round trip --------------------------------------------------------------
  objs, root = build(G, plan.get('shared'))
  ob = Observer(objs)
  before = ob.snapshot(root)
  res['before'] = before
  hv0 = dict(ob.hv)
  res['before_hv'] = hv0
  res['built_ok'] = before['heap'][:n0] == G['heap'] and before['root'] == G['root'] if not plan.get('shared') else True
  cont_before = container_ids(root)
  pf = [nf_python(f) for f in plan['filters']]
  r = call(nnx.split, root, *pf)
  if r[0] == 'ok':
    gd, states = r[1][0], list(r[1][1:])
    res['states'] = [flat_of_state(s) for s in states]
    perm_states = [states[i] for i in plan['perm'] if i < len(states)]
    mode = plan.get('merge_mode', 'perm')
    if mode != 'perm' and all(isinstance(x, Mapping) for x in states):
      # the same leaves handed to merge as differently ORDERED mappings (Python mapping equality ignores order)
      m = call(lambda: nnx.merge(gd, *rejoin_states(states, mode, plan.get('merge_seed', 0))))
    else:
      m = call(nnx.merge, gd, *perm_states)
    if m[0] == 'ok':
      after = ob.snapshot(root)
      res['untouched'] = after['heap'][:n0] == before['heap'][:n0] and after['root'] == before['root'] and {a: v for a, v in ob.hv.items() if a < n0} == {a: v for a, v in hv0.items() if a < n0}
      ob2 = Observer(ob.keep)
      full = ob2.snapshot(m[1])
      res['merged'] = {'heap': full['heap'], 'root': full['root']}
      res['merged_hv'] = dict(ob2.hv)
      res['merged_fresh'] = all(a >= len(ob.keep) for a in reachable(res['merged']))
      res['merged_containers'] = container_ids(m[1])
      # containers (list/dict objects) of the original must not be reused either
      res['containers_fresh'] = not (set(cont_before) & set(res['merged_containers']))
      g2 = call(nnx.graphdef, m[1])
      res['graphdef_equal'] = g2[0] == 'ok' and g2[1] == gd and hash(g2[1]) == hash(gd)
      res['rt'] = ('ok', None)
    else:
      res['rt'] = m
  else:
    res['rt'] = r
  res['cont_before'] = cont_before
  # ---- state -----------------------------------------------------------------------------------
  sf = [nf_python(f) for f in plan['state_filters']]
  r = call(nnx.state, root, *sf)
  if r[0] == 'ok':
    sts = [r[1]] if len(sf) < 2 else list(r[1])
    res['state'] = ('ok', [flat_of_state(s) for s in sts])
  else:
    res['state'] = r
  # ---- clone -----------------------------------------------------------------------------------
  r = call(nnx.clone, root)
  if r[0] == 'ok':
    ob3 = Observer(ob.keep)
    full = ob3.snapshot(r[1])
    res['clone'] = ('ok', {'heap': full['heap'], 'root': full['root']})
    res['clone_hv'] = dict(ob3.hv)
    res['clone_fresh'] = all(a >= len(ob.keep) for a in reachable(res['clone'][1])) and not (set(cont_before) & set(container_ids(r[1])))
    after = ob.snapshot(root)
    res['clone_untouched'] = after['heap'][:n0] == before['heap'][:n0]
  else:
    res['clone'] = r
  # ---- iter_graph ------------------------------------------------------------------------------
  r = call(lambda: [(list(p), ob.val(v)) for p, v in nnx.iter_graph(root)])
  if r[0] == 'ok':
    res['iter'] = ('ok', [[p, v] for p, v in r[1] if iter_visible(p, v) and '_object__state' not in p])
  else:
    res['iter'] = r
  # ---- update (mutates: done on the objects built above, after everything read-only) -----------
  if plan.get('update') is not None and not plan.get('shared'):
    k = plan.get('update_split')
    if k is not None and 0 < k < len(plan['update']) and all(p for p, _ in plan['update']):
      # several states: nnx.update(node, s1, s2) merges them first (statelib.merge_state)
      parts = [plan['update'][:k], plan['update'][k:]]
      r = call(nnx.update, root, *[nnx.State(nest([[p, leaf_python(l)] for p, l in part])) for part in parts])
    else:
      nested = nest([[p, leaf_python(l)] for p, l in plan['update']]) if plan['update'] else {}
      upd_state = nnx.State(nested) if isinstance(nested, dict) else nested
      r = call(nnx.update, root, upd_state)
    if r[0] == 'ok':
      n_before = len(ob.keep)
      after = ob.snapshot(root)
      res['update'] = ('ok', after['heap'][:n0])
      res['update_no_new'] = len(ob.keep) == n_before
    else:
      res['update'] = r
  # ---- update(g, state(g)) on a fresh build: raw values, hooked values and metadata must not move ----
  if plan.get('self_update') and not plan.get('shared'):
    objs3, root3 = build(G)
    obs = Observer(objs3)
    b3 = obs.snapshot(root3)
    hv3 = dict(obs.hv)
    r = call(lambda: nnx.update(root3, nnx.state(root3)))
    if r[0] == 'ok':
      a3 = obs.snapshot(root3)
      res['self_update'] = ('ok', a3['heap'][:n0] == b3['heap'][:n0] and dict(obs.hv) == hv3 and len(obs.keep) == len(objs3))
    else:
      res['self_update'] = r
  # ---- pop (fresh build) -----------------------------------------------------------------------
  if plan.get('pop_filters') is not None and not plan.get('shared'):
    objs2, root2 = build(G)
    obp = Observer(objs2)
    ppf = [nf_python(f) for f in plan['pop_filters']]
    r = call(nnx.pop, root2, *ppf)
    if r[0] == 'ok':
      sts = [r[1]] if len(ppf) == 1 else list(r[1])
      n_before = len(obp.keep)
      after = obp.snapshot(root2)
      res['pop'] = ('ok', {'heap': after['heap'][:n0], 'states': [flat_of_state(s) for s in sts]})
      res['pop_no_new'] = len(obp.keep) == n_before
    else:
      res['pop'] = r
  return res


def iter_visible(p, v):
  """iter_graph entries compared between model and implementation (see SPEC assumptions)"""
  if v is None:
    return False
  return 'r' in v or 'a' in v or 's' in v


# ------------------------------------------------------------------------------------------------
# checking one batch of plans: implementation, model, oracles
# ------------------------------------------------------------------------------------------------


def model_requests(plan):
  G = plan['G']
  h, r = G['heap'], G['root']
  reqs = [
    ('roundtrip', [h, r, plan['filters'], plan['perm']]),
    ('state', [h, r, plan['state_filters']]),
    ('clone', [h, r]),
    ('iter', [h, r]),
  ]
  if plan.get('update') is not None:
    reqs.append(('update', [h, r, stree_json(plan['update'])]))
  if plan.get('pop_filters') is not None:
    reqs.append(('pop', [True, h, r, plan['pop_filters']]))
    reqs.append(('pop', [False, h, r, plan['pop_filters']]))
  return reqs


def check_batch(ctx, drv, plans, stream):
  reqs = []
  spans = []
  for plan in plans:
    rq = model_requests(plan)
    spans.append((len(reqs), len(rq)))
    reqs.extend(rq)
  outs = drv.run(reqs)
  for plan, (s, n) in zip(plans, spans):
    mo = outs[s : s + n]
    check_one(ctx, plan, mo, stream)


def _small(plan):
  """replayable case record"""
  return {k: plan[k] for k in plan}


def check_one(ctx, plan, mo, stream):
  G = plan['G']
  n0 = len(G['heap'])
  feats = graph_features(G)
  nontrivial = feats['shared_var'] or feats['shared_node'] or feats['cycle'] or feats['containers'] > 0 or len(plan['filters']) >= 2
  ctx.case({'G': G, 'filters': plan['filters'], 'perm': plan['perm'], 'sf': plan['state_filters'], 'u': plan.get('update'), 'p': plan.get('pop_filters')}, nontrivial=nontrivial)
  ctx.count('stream', stream)
  ctx.count('reachable_objects', min(feats['objects'], 20))
  for k in ('shared_var', 'shared_node', 'cycle', 'self_loop'):
    ctx.count(k, feats[k])
  ctx.count('container_values', min(feats['containers'], 8))
  ctx.count('root_kind', 'none' if G['root'] is None else next(iter(G['root'])) if 'r' not in G['root'] else ('var' if 'vt' in G['heap'][G['root']['r']] else 'node'))
  ctx.count('n_filters', len(plan['filters']))
  ctx.count('merge_mode', plan.get('merge_mode', 'perm'))
  ctx.count('hooked_variables', sum(1 for a in reachable(G) if 'vt' in G['heap'][a] and any(k.startswith('on_') for k, _ in G['heap'][a]['md'])))
  ctx.count('merge_args', 'permutation' if sorted(plan['perm']) == list(range(max(1, len(plan['filters'])))) else 'malformed')
  case = _small(plan)
  res = run_impl(plan)
  it = iter(mo)
  m_rt, m_state, m_clone, m_iter = next(it), next(it), next(it), next(it)
  m_upd = next(it) if plan.get('update') is not None else None
  m_pop = next(it) if plan.get('pop_filters') is not None else None
  m_pop_orig = next(it) if plan.get('pop_filters') is not None else None

  if not res['built_ok']:
    raise RuntimeError('harness bug: built objects do not observe back to the abstract graph')
  before = res['before']
  canon0 = canon(before)
  table0 = path_table(before)
  ref = ref_state(before)

  # ---------------- round trip -----------------------------------------------------------------
  rt = res['rt']
  ctx.count('roundtrip_outcome', rt[0] if rt[0] == 'ok' else rt[1])
  ctx.count('model_roundtrip_outcome', m_rt[0] if m_rt[0] == 'ok' else m_rt[1])
  filters = plan['filters']
  if rt[0] == 'ok':
    merged = res['merged']
    ok_iso = canon(merged) == canon0
    ok_paths = path_table(merged) == table0
    ok_hooked = canon(merged, res['merged_hv']) == canon(before, res['before_hv'])
    if not (ok_iso and ok_paths):
      ctx.violation('roundtrip-not-isomorphic', f'merge(split(g)) is not isomorphic to g (canonical form equal: {ok_iso}, path/alias table equal: {ok_paths})', case)
    elif not ok_hooked:
      ctx.violation('roundtrip-hooked-value', 'merge(split(g)): a Variable reads a different .value (after its on_get_value hook) than in g although raw value and metadata agree', case)
    elif not res['merged_fresh']:
      ctx.violation('roundtrip-shares-object', 'merge(split(g)) reuses a graph node or Variable of g', case)
    elif not res['untouched']:
      ctx.violation('roundtrip-mutates-original', 'split/merge changed the original graph', case)
    elif not res['graphdef_equal']:
      ctx.violation('graphdef-not-canonical', 'graphdef(merge(split(g))) != graphdef(g)', case)
    else:
      # split: first-match partition of the leaves
      bad = None
      want = [[] for _ in range(max(1, len(filters)))]
      for p, leaf in ref:
        i = first_match(filters, p, leaf) if filters else 0
        if i < len(want):
          want[i].append([p, leaf])
      got = states_canon(res['states'])
      if got != states_canon(want):
        bad = 'states are not the first-match partition of the leaves'
      if bad:
        ctx.violation('split-not-first-match', bad, dict(case, got=got, want=states_canon(want)))
      elif m_rt[0] != 'ok':
        ctx.disagreements_checked += 1
        ctx.violation('roundtrip-model-mismatch', f'implementation round trip succeeded, model says {m_rt}', case, concrete=False)
      else:
        mm = m_rt[1]
        m_ok = (
          canon({'heap': mm['heap'], 'root': mm['root']}) == canon(merged)
          and mm['heap'][:n0] == G['heap']
          and states_canon(mm['states']) == got
          and all(a >= n0 for a in reachable({'heap': mm['heap'], 'root': mm['root']}))
        )
        if not m_ok:
          ctx.disagreements_checked += 1
          ctx.violation('roundtrip-model-mismatch', 'model and implementation rebuild different graphs / states', case, concrete=False)
    if plan.get('shared'):
      # same list/dict object referenced twice before; still one object after?
      dup_before = any(n > 1 for n in res['cont_before'].values())
      dup_after = any(n > 1 for n in res['merged_containers'].values())
      ctx.count('shared_container_stream', 'identity-lost' if dup_before and not dup_after else 'kept')
      if dup_before and not dup_after:
        ctx.violation('shared-pytree-container', 'a list/dict object shared by two graph nodes is duplicated by split/merge', case)
  else:
    # an error: legitimate only for non-exhaustive filters / misplaced `...`
    exhaustive = (not filters) or all(first_match(filters, p, leaf) < len(filters) for p, leaf in ref)
    ell_ok = all(not (filters[i] == 'everything' and filters[j] != 'everything') for i in range(len(filters)) for j in range(i + 1, len(filters)))
    root_ok = not (G['root'] is not None and ('s' in G['root'] or 'a' in G['root']))
    if exhaustive and ell_ok and root_ok and sorted(plan['perm']) == list(range(max(1, len(filters)))):
      ctx.violation('roundtrip-raises', f'split/merge raised {rt[1]} on a valid graph with exhaustive filters', case)
    elif not same_outcome(rt, m_rt):
      ctx.disagreements_checked += 1
      ctx.violation('roundtrip-model-mismatch', f'implementation raised {rt[1]}, model says {m_rt}', case, concrete=False)

  # ---------------- state ----------------------------------------------------------------------
  st = res['state']
  sfil = plan['state_filters']
  if st[0] == 'ok':
    want = [[] for _ in range(max(1, len(sfil)))]
    for p, leaf in ref:
      i = first_match(sfil, p, leaf) if sfil else 0
      if i < len(want):
        want[i].append([p, leaf])
    got = st[1]
    # every state must come out sorted, list each Variable once under its first path
    if any(s != sort_flat(s) for s in got):
      ctx.violation('state-not-sorted', 'nnx.state does not list its leaves in sorted path order', dict(case, got=got))
    elif got != want:
      ctx.violation('state-wrong', 'nnx.state differs from "every Variable once, under its first path, first matching filter"', dict(case, got=got, want=want))
    elif m_state != ('ok', got):
      ctx.disagreements_checked += 1
      ctx.violation('state-model-mismatch', f'model state differs: {str(m_state)[:200]}', case, concrete=False)
  else:
    ell_ok = all(not (sfil[i] == 'everything' and sfil[j] != 'everything') for i in range(len(sfil)) for j in range(i + 1, len(sfil)))
    root_ok = not (G['root'] is not None and ('s' in G['root'] or 'a' in G['root']))
    root_is_var = G['root'] is not None and 'r' in G['root'] and 'vt' in G['heap'][G['root']['r']]
    if ell_ok and root_ok and not root_is_var:  # nnx.state of a bare Variable is not defined (path ())
      ctx.violation('state-raises', f'nnx.state raised {st[1]}', case)
    elif not same_outcome(st, m_state):
      ctx.disagreements_checked += 1
      ctx.violation('state-model-mismatch', f'implementation raised {st[1]}, model says {m_state}', case, concrete=False)

  # ---------------- clone ----------------------------------------------------------------------
  cl = res['clone']
  if cl[0] == 'ok':
    if canon(cl[1]) != canon0 or path_table(cl[1]) != table0:
      ctx.violation('clone-not-isomorphic', 'nnx.clone(g) is not isomorphic to g', case)
    elif canon(cl[1], res['clone_hv']) != canon(before, res['before_hv']):
      ctx.violation('clone-hooked-value', 'nnx.clone(g): a Variable reads a different .value (after hooks) than in g', case)
    elif not res['clone_fresh']:
      ctx.violation('clone-shares-mutable', 'nnx.clone(g) shares a graph node, Variable or container with g', case)
    elif not res['clone_untouched']:
      ctx.violation('clone-mutates-original', 'nnx.clone changed the original graph', case)
    elif m_clone[0] != 'ok' or canon(m_clone[1]) != canon(cl[1]) or m_clone[1]['heap'][:n0] != G['heap']:
      ctx.disagreements_checked += 1
      ctx.violation('clone-model-mismatch', 'model clone differs from the implementation', case, concrete=False)
  else:
    root_ok = not (G['root'] is not None and ('s' in G['root'] or 'a' in G['root']))
    if root_ok:
      ctx.violation('clone-raises', f'nnx.clone raised {cl[1]}', case)
    elif not same_outcome(cl, m_clone):
      ctx.disagreements_checked += 1
      ctx.violation('clone-model-mismatch', f'implementation raised {cl[1]}, model says {m_clone}', case, concrete=False)

  # ---------------- iter_graph -----------------------------------------------------------------
  itr = res['iter']
  if not plan.get('shared'):
    m_vis = ('ok', [[p, v] for p, v in m_iter[1] if iter_visible(p, v)]) if m_iter[0] == 'ok' else m_iter
    if itr[0] == 'ok':
      # oracle: every reachable graph node exactly once; every path listed resolves to the listed value
      nodes = [v['r'] for p, v in itr[1] if v is not None and 'r' in v and 'cls' in before['heap'][v['r']]]
      want_nodes = [a for a in reachable(before) if 'cls' in before['heap'][a]]
      if sorted(nodes) != sorted(want_nodes):
        ctx.violation('iter-graph-nodes', 'iter_graph does not visit every reachable graph node exactly once', dict(case, got=nodes, want=want_nodes))
      elif m_vis != itr:
        ctx.disagreements_checked += 1
        ctx.violation('iter-model-mismatch', 'model iter_graph differs from the implementation', case, concrete=False)
    elif not same_outcome(itr, m_iter):
      ctx.disagreements_checked += 1
      ctx.violation('iter-model-mismatch', f'implementation raised {itr[1]}, model says {m_iter}', case, concrete=False)

  # ---------------- update(g, state(g)) ---------------------------------------------------------
  if 'self_update' in res:
    su = res['self_update']
    root_is_var = G['root'] is not None and 'r' in G['root'] and 'vt' in G['heap'][G['root']['r']]
    root_ok = not (G['root'] is not None and ('s' in G['root'] or 'a' in G['root']))
    ctx.count('self_update', su[0] if su[0] == 'err' else str(su[1]))
    if su[0] == 'ok' and not su[1]:
      ctx.violation('update-state-roundtrip', 'update(g, state(g)) changed a raw value, a hooked value or metadata of g', case)
    elif su[0] == 'err' and root_ok and not root_is_var and not array_in_container(G):
      ctx.violation('update-state-raises', f'update(g, state(g)) raised {su[1]}', case)

  # ---------------- update ---------------------------------------------------------------------
  if 'update' in res:
    up = res['update']
    ctx.count('update_outcome', up[0] if up[0] == 'ok' else up[1])
    if up[0] == 'ok':
      heap_after = up[1]
      # oracle: identity kept, nothing allocated; only Variables / array attributes addressed by the state change
      why = update_oracle(before, plan['update'], heap_after, n0)
      if why or not res['update_no_new']:
        ctx.violation('update-wrong', why or 'update allocated new graph objects for existing paths', dict(case, after=heap_after))
      elif m_upd != ('ok', heap_after):
        ctx.disagreements_checked += 1
        ctx.violation('update-model-mismatch', f'model heap after update differs: {str(m_upd)[:200]}', case, concrete=False)
    elif not same_outcome(up, m_upd):
      ctx.disagreements_checked += 1
      ctx.violation('update-model-mismatch', f'implementation raised {up[1]}, model says {str(m_upd)[:200]}', case, concrete=False)

  # ---------------- pop ------------------------------------------------------------------------
  if 'pop' in res:
    pp = res['pop']
    ctx.count('pop_outcome', pp[0] if pp[0] == 'ok' else pp[1])
    pfil = plan['pop_filters']
    if pp[0] == 'ok':
      why = pop_oracle(before, pfil, pp[1], n0)
      exp = ref_pop(before, pfil)
      if not why and (exp is None or exp[0][:n0] != pp[1]['heap'] or exp[1] != pp[1]['states']):
        why = 'pop differs from "pop each Variable at its first matching encounter in DFS order, return it there, remove that and every later reference" (pop_first_match)'
      if why:
        shared_hit = m_pop_orig[0] == 'ok' and m_pop[0] == 'ok' and m_pop_orig[1] != m_pop[1]
        ctx.violation('pop-shared-variable' if shared_hit else 'pop-wrong', why, dict(case, after=pp[1]))
      elif not res['pop_no_new']:
        ctx.violation('pop-wrong', 'pop created new graph objects', case)
      elif m_pop[0] != 'ok' or m_pop[1]['heap'] != pp[1]['heap'] or m_pop[1]['states'] != pp[1]['states']:
        ctx.disagreements_checked += 1
        ctx.violation('pop-model-mismatch', f'model pop differs: {str(m_pop)[:200]}', case, concrete=False)
      if m_pop_orig[0] == 'ok' and m_pop[0] == 'ok' and m_pop_orig[1] != m_pop[1]:
        ctx.count('pop_shared_popped_variable', 1)
    elif not same_outcome(pp, m_pop):
      ctx.disagreements_checked += 1
      ctx.violation('pop-model-mismatch', f'implementation raised {pp[1]}, model says {str(m_pop)[:200]}', case, concrete=False)


def update_oracle(before, upd, heap_after, n0):
  """property clause: update changes values in place keeping object identity."""
  heap0 = before['heap']
  # expected: resolve each path on the ORIGINAL graph; last write per target wins (state iteration order)
  nested = stree_order(upd)
  expect = {a: dict(o) for a, o in enumerate(heap0)}
  expect = json.loads(json.dumps(heap0))
  for p, leaf in nested:
    # owner and final value
    v = before['root']
    owner = None
    ok = True
    for k in p:
      ch = children({'heap': expect, 'root': None}, v)
      if ch is None:
        ok = False
        break
      nxt = [c for kk, c in ch if kk == k]
      if not nxt:
        ok = False
        break
      owner = v
      v = nxt[0]
    if not ok:
      return None  # state addresses something that is not there: not the clause under test
    if v is not None and 'r' in v and 'vt' in expect[v['r']]:
      o = expect[v['r']]
      if 'arr' in leaf:
        o['val'] = leaf['arr']
      else:
        o['val'] = leaf['val']
        o['md'] = leaf['md']
    elif v is not None and 'a' in v and owner is not None and 'r' in owner and 'arr' in leaf:
      for kv in expect[owner['r']]['attrs']:
        if kv[0] == p[-1]:
          kv[1] = {'a': leaf['arr']}
    else:
      return None
  if heap_after != expect[:n0]:
    return 'after update the graph is not "same objects, same attributes, Variables at the state\'s paths carry the new value/metadata"'
  return None


def stree_order(upd):
  """leaves of the update state in the order _graph_update_dynamic visits them (nested dict iteration)"""
  out = []

  def rec(prefix, d):
    for k, v in d.items():
      if isinstance(v, tuple):
        out.append([prefix + [k], v[1]])
      else:
        rec(prefix + [k], v)

  if len(upd) == 1 and not upd[0][0]:
    return [[[], upd[0][1]]]
  root = {}
  for p, leaf in upd:
    cur = root
    for k in p[:-1]:
      cur = cur.setdefault(k, {})
    cur[p[-1]] = ('leaf', leaf)
  rec([], root)
  return out


def ref_pop(G, filters):
  """Independent reference for pop with ARBITRARY filters (theorem pop_first_match): walk the encounters of
  Variables in DFS order (sorted keys, every graph node once); a Variable is popped at its first encounter
  where some filter matches (path, Variable), returned there, and its reference is removed at that and at
  every later encounter. Returns (expected heap, expected states) or None when a removal would be needed
  inside a list/tuple/dict (pop raises)."""
  heap = json.loads(json.dumps(G['heap']))
  seen = set()
  enc = []

  def visit(path, v, owner, key):
    if v is None or 's' in v or 'a' in v:
      return
    if 'r' in v and 'vt' in heap[v['r']]:
      enc.append((v['r'], list(path), owner, key))
      return
    node(path, v)

  def node(path, v):
    owner = None
    if v is not None and 'r' in v:
      if v['r'] in seen:
        return
      seen.add(v['r'])
      owner = v['r']
    for k, c in children(G, v) or []:
      visit(path + [k], c, owner, k)

  root = G['root']
  if root is not None and 'r' in root and 'vt' in heap[root['r']]:
    return None
  node([], root)
  states = [[] for _ in filters]
  popped = set()
  for b, p, owner, key in enc:
    o = G['heap'][b]
    leaf = {'vt': o['vt'], 'val': o['val'], 'md': o['md']}
    if b not in popped:
      i = first_match(filters, p, leaf)
      if i >= len(filters):
        continue
      if owner is None:
        return None
      popped.add(b)
      states[i].append([p, leaf])
    elif owner is None:
      return None
    heap[owner]['attrs'] = [kv for kv in heap[owner]['attrs'] if kv[0] != key]
  return heap, states


def pop_oracle(before, filters, after, n0):
  """property clause: pop removes exactly the selected Variables (stated for path-independent filters)."""
  if not all(path_independent(f) for f in filters):
    return None
  heap0 = before['heap']
  G1 = {'heap': after['heap'], 'root': before['root']}
  ref = [it for it in ref_state(before) if 'vt' in it[1]]
  want = [[] for _ in filters]
  selected = set()
  for p, leaf in ref:
    i = first_match(filters, p, leaf)
    if i < len(filters):
      want[i].append([p, leaf])
  # addresses of the selected variables
  for a in reachable(before):
    o = heap0[a]
    if 'vt' in o and first_match(filters, [], {'vt': o['vt'], 'val': o['val'], 'md': o['md']}) < len(filters):
      selected.add(a)
  if after['states'] != want:
    return 'pop did not return exactly the selected Variables, each once under its first path'
  still = [a for a in reachable(G1) if a in selected]
  if still:
    return f'after pop a selected Variable is still reachable from the graph (addresses {still})'
  # everything else untouched: same objects, attributes only lost references to selected Variables
  for a in range(n0):
    o0, o1 = heap0[a], after['heap'][a]
    if 'vt' in o0:
      if o0 != o1:
        return 'pop changed a Variable'
    elif a in reachable(before):
      keep = [kv for kv in o0['attrs'] if not (kv[1] is not None and 'r' in kv[1] and kv[1]['r'] in selected)]
      if o1['attrs'] != keep or o1['cls'] != o0['cls']:
        return 'pop changed attributes other than references to the selected Variables'
  return None


# ------------------------------------------------------------------------------------------------
# shared pytree containers (finding F8): separate stream
# ------------------------------------------------------------------------------------------------


def shared_container_plans(rng, n):
  out = []
  for _ in range(n):
    kind = rng.choice(['l', 'd'])
    inner = [{'r': 2}, {'s': 'i:1'}]
    cont = {'l': inner} if kind == 'l' else {'d': [['p', {'r': 2}], ['q', {'s': 'i:1'}]]}
    G = {
      'heap': [
        {'cls': 'A', 'attrs': [['a', {'r': 1}], ['xs', cont]]},
        {'cls': 'B', 'attrs': [['xs', cont]]},
        {'vt': VT_MRO['Param'], 'val': rng.randrange(0, 40), 'md': []},
      ],
      'root': {'r': 0},
    }
    out.append({'kind': 'graph', 'G': G, 'filters': [], 'perm': [0], 'state_filters': [], 'update': None, 'pop_filters': None, 'shared': [[0, 'xs'], [1, 'xs']]})
  return out


# ------------------------------------------------------------------------------------------------
# entry points
# ------------------------------------------------------------------------------------------------


# ------------------------------------------------------------------------------------------------
# generic pytrees (NamedTuple / OrderedDict / struct.dataclass attributes): implementation-side stream
# ------------------------------------------------------------------------------------------------


def gen_generic_value(rng, n_nodes, var_addrs):
  def elem():
    r = rng.random()
    if r < 0.45 and var_addrs:
      return {'r': rng.choice(var_addrs)}
    if r < 0.65 and n_nodes:
      return {'r': rng.randrange(n_nodes)}
    if r < 0.85:
      d = rng.randrange(0, 40)
      return {'a': d if d % 4 != 3 else d - 1}
    return {'s': rng.choice(STATICS)}

  kind = rng.choice(['OrderedDict', 'OrderedDict', 'Affine', 'Quad', 'Blk'])
  if kind == 'OrderedDict':
    keys = rng.sample(ATTR_NAMES, rng.randrange(3, 6))  # insertion order is random, hence mostly unsorted
  else:
    keys = {'Affine': ['weight', 'bias', 'child'], 'Quad': ['z', 'm', 'a', 'k'], 'Blk': ['w', 'b', 'c']}[kind]
  return {'g': [kind, [[k, elem()] for k in keys]]}


def gen_generic_plan(rng):
  G = gen_graph(rng, max_nodes=6, max_vars=5)
  heap = G['heap']
  nodes = [i for i, o in enumerate(heap) if 'cls' in o]
  var_addrs = [i for i, o in enumerate(heap) if 'vt' in o]
  if not nodes:
    heap.insert(0, {'cls': 'A', 'attrs': []})
    return gen_generic_plan(rng)
  for _ in range(rng.randrange(1, 4)):
    i = rng.choice(nodes)
    nm = rng.choice(['gp', 'gq', 'layer', 'od'])
    if all(k != nm for k, _ in heap[i]['attrs']):
      heap[i]['attrs'].append([nm, gen_generic_value(rng, len(nodes), var_addrs)])
  if rng.random() < 0.2:
    G['root'] = gen_generic_value(rng, len(nodes), var_addrs)
  paths = [p for p, _ in ref_state(G)]
  filters = [] if rng.random() < 0.3 else [random_filter(rng, paths) for _ in range(rng.randrange(0, 3))] + ['everything']
  perm = list(range(max(1, len(filters))))
  rng.shuffle(perm)
  return {'kind': 'generic', 'G': G, 'filters': filters, 'perm': perm, 'state_filters': [], 'update': None,
          'pop_filters': None, 'self_update': True,
          'merge_mode': rng.choice(['perm', 'perm', 'joined', 'dict']), 'merge_seed': rng.randrange(10**6)}


def check_generic(ctx, plan):
  """Generic pytree containers are outside the Lean model's value forms (theorem pytree_unflatten_flatten_id covers
  their flatten/unflatten permutation); the implementation is checked directly against the property."""
  G = plan['G']
  case = dict(plan)
  ctx.case({'generic': G, 'f': plan['filters'], 'perm': plan['perm'], 'mm': plan.get('merge_mode')}, nontrivial=True)
  ctx.count('stream', 'generic-pytree')
  res = run_impl(plan)
  if not res['built_ok']:
    raise RuntimeError('harness bug: generic pytree graph does not observe back')
  before = res['before']
  canon0, table0 = canon(before, res['before_hv']), path_table(before)
  rt = res['rt']
  ctx.count('generic_roundtrip', rt[0] if rt[0] == 'ok' else rt[1])
  if rt[0] == 'ok':
    merged = res['merged']
    if canon(merged, res['merged_hv']) != canon0 or path_table(merged) != table0:
      ctx.violation('roundtrip-not-isomorphic', 'merge(split(g)) is not isomorphic to g: a NamedTuple / OrderedDict / dataclass attribute came back with children under other fields', case)
    elif not res['merged_fresh']:
      ctx.violation('roundtrip-shares-object', 'merge(split(g)) reuses a graph node or Variable of g', case)
    elif not res['untouched']:
      ctx.violation('roundtrip-mutates-original', 'split/merge changed the original graph', case)
    elif not res['graphdef_equal']:
      ctx.violation('graphdef-not-canonical', 'graphdef(merge(split(g))) != graphdef(g)', case)
    elif not plan['filters'] and [sort_flat(x) for x in res['states']] != [sort_flat(ref_state(before))]:
      ctx.violation('state-wrong', 'split state differs from the reference DFS', case)
  else:
    filters = plan['filters']
    ref = ref_state(before)
    if (not filters) or all(first_match(filters, p, leaf) < len(filters) for p, leaf in ref):
      ctx.violation('roundtrip-raises', f'split/merge raised {rt[1]} on a graph with generic pytree attributes', case)
  cl = res['clone']
  if cl[0] == 'ok':
    if canon(cl[1], res['clone_hv']) != canon0 or path_table(cl[1]) != table0:
      ctx.violation('clone-not-isomorphic', 'nnx.clone(g) is not isomorphic to g (generic pytree attribute)', case)
    elif not res['clone_fresh'] or not res['clone_untouched']:
      ctx.violation('clone-shares-mutable', 'nnx.clone(g) shares with / mutates g', case)
  else:
    ctx.violation('clone-raises', f'nnx.clone raised {cl[1]}', case)
  st = res['state']
  if st[0] == 'ok' and st[1] != [ref_state(before)]:
    ctx.violation('state-wrong', 'nnx.state differs from the reference DFS on a graph with generic pytree attributes', case)
  su = res.get('self_update')
  if su is not None and su[0] == 'ok' and not su[1]:
    ctx.violation('update-state-roundtrip', 'update(g, state(g)) changed g (generic pytree attribute)', case)


def merge_order_cases(ctx, drv, rng, n):
  """mergeFlat on arbitrary permutations of arbitrary partitions (model side of `merge_any_order`) and the
  real `_merge_to_flat_state` through nnx.merge on a fixed graph is covered by the round trips; here the model
  is compared with Python's own sort on (path) keys."""
  reqs = []
  wants = []
  for _ in range(n):
    k = rng.randrange(0, 8)
    paths = set()
    while len(paths) < k:
      paths.add(tuple(rng.choice([0, 1, 2, 10, 'a', 'b', 'ab', 'B']) for _ in range(rng.randrange(1, 4))))
    # homogeneous positions only (Python cannot compare int with str)
    paths = [p for p in paths]
    paths = [p for p in paths if all(isinstance(p[i], type(paths[0][i])) for i in range(min(len(p), len(paths[0]))))]
    flat = [[list(p), {'arr': i}] for i, p in enumerate(paths)]
    rng.shuffle(flat)
    nb = rng.randrange(1, 4)
    buckets = [[] for _ in range(nb)]
    for it in flat:
      buckets[rng.randrange(nb)].append(it)
    try:
      want = [leaf for _, leaf in sorted(((tuple(p), l) for b in buckets for p, l in b), key=lambda t: t[0])]
    except TypeError:
      continue
    reqs.append(('merge_flat', [buckets]))
    wants.append(want)
  outs = drv.run(reqs)
  for (fn, args), want, got in zip(reqs, wants, outs):
    ctx.case({'merge_flat': args}, nontrivial=len(want) >= 2)
    ctx.count('stream', 'merge_flat')
    if got != ('ok', want):
      ctx.disagreements_checked += 1
      ctx.violation('merge-flat-model-mismatch', f'model mergeFlat {got} vs Python sorted {want}', {'kind': 'merge_flat', 'buckets': args[0]}, concrete=False)


def run(ctx):
  drv = LeanDriver('drv_c03')
  thorough = ctx.tier == 'thorough'
  rng = ctx.rng
  for d in range(40):
    mk_data(d)

  for fn, obj in load_corpus('C03'):
    ctx.corpus_replayed += 1
    _run_case(ctx, drv, obj, 'corpus')

  # bounded-exhaustive aliasing patterns
  plans = []
  for n_nodes in (1, 2):
    for G in exhaustive_graphs(n_nodes):
      for ep in EXH_PLANS:
        plans.append(dict(ep, kind='graph', G=G, update=[[p, dict(l, val=l['val'] + 4)] for p, l in ref_state(G) if 'vt' in l]))
  if thorough:
    for G in exhaustive_graphs(3, n_vars=1):
      plans.append(dict(EXH_PLANS[1], kind='graph', G=G, update=None))
  ctx.extra['exhaustive_scope'] = f'{len(plans)} (graph, plan) pairs: all assignments of 2 attribute slots of <=2 nodes to absent/node/var0/var1/static' + (', and of 3 nodes with 1 Variable' if thorough else '')
  for i in range(0, len(plans), 400):
    check_batch(ctx, drv, plans[i : i + 400], 'exhaustive')

  # random graphs
  n_rand = 2400 if not thorough else 40000
  batch = []
  for i in range(n_rand):
    big = rng.random() < 0.1
    G = gen_graph(rng, max_nodes=30 if big else 10, max_vars=10 if big else 6)
    batch.append(gen_plan(rng, G))
    if len(batch) == 300:
      check_batch(ctx, drv, batch, 'random')
      if len(ctx.samples) < 3:
        ctx.sample(batch[0])
      batch = []
  if batch:
    check_batch(ctx, drv, batch, 'random')

  merge_order_cases(ctx, drv, rng, 300 if not thorough else 5000)
  for _ in range(400 if not thorough else 6000):
    check_generic(ctx, gen_generic_plan(rng))
  check_batch(ctx, drv, shared_container_plans(rng, 6), 'shared-container')

  ctx.sample(plans[len(plans) // 2])
  ctx.extra['exhaustive'] = False
  ctx.extra['driver_calls'] = drv.calls
  # generator health
  # (judged on the model's outcome: a broken implementation must surface as a violation, not as exit 2)
  total = sum(ctx.dist.get('model_roundtrip_outcome', {}).values()) or 1
  if ctx.dist.get('model_roundtrip_outcome', {}).get('ok', 0) < 0.5 * total:
    from harness.common import InfraError

    raise InfraError('generator degenerated: fewer than half of the round trips succeed')


def _norm_vt(o):
  """stored cases name a Variable class by its MRO at the time of writing; re-read it from the code"""
  if isinstance(o, dict) and 'vt' in o and o['vt'] and o['vt'][0] in VT_MRO:
    o['vt'] = VT_MRO[o['vt'][0]]
  return o


def _run_case(ctx, drv, obj, stream):
  case = obj.get('case', obj)
  while 'kind' not in case and 'case' in case:
    case = case['case']
  kind = case.get('kind')
  if kind == 'graph':
    plan = json.loads(json.dumps({k: v for k, v in case.items() if k not in ('origin', 'got', 'want', 'after')}))
    for o in plan['G']['heap']:
      _norm_vt(o)
    for _, leaf in plan.get('update') or []:
      _norm_vt(leaf)
    plan.setdefault('filters', [])
    plan.setdefault('perm', list(range(max(1, len(plan['filters'])))))
    plan.setdefault('state_filters', [])
    plan.setdefault('update', None)
    plan.setdefault('update_split', None)
    plan.setdefault('merge_mode', 'perm')
    plan.setdefault('self_update', True)
    plan.setdefault('pop_filters', None)
    check_batch(ctx, drv, [plan], stream)
  elif kind == 'generic':
    plan = json.loads(json.dumps({k: v for k, v in case.items() if k not in ('origin',)}))
    for o in plan['G']['heap']:
      _norm_vt(o)
    plan.setdefault('merge_mode', 'perm')
    check_generic(ctx, plan)
  elif kind == 'merge_flat':
    out = drv.run([('merge_flat', [case['buckets']])])[0]
    want = [leaf for _, leaf in sorted(((tuple(p), l) for b in case['buckets'] for p, l in b), key=lambda t: t[0])]
    ctx.case(case)
    if out != ('ok', want):
      ctx.violation('merge-flat-model-mismatch', f'model mergeFlat {out} vs Python sorted {want}', case, concrete=False)
  else:
    ctx.notes.append(f'unknown corpus case kind {kind}')


def replay(ctx, obj):
  drv = LeanDriver('drv_c03')
  for d in range(40):
    mk_data(d)
  _run_case(ctx, drv, obj, 'replay')
  for v in ctx.violations:
    print('  ', v['key'], '-', v['what'][:300])
  return bool(ctx.violations)
