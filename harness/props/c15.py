"""C15 — FrozenDict and struct dataclasses are immutable values and faithful pytrees.

Theorems: lean/Flax/Props/C15.lean over lean/Flax/Model/Frozen.lean (heap model) and Model/Struct.lean.
Correspondence: seeded API histories (freeze / unfreeze / copy / pop / indexing / iteration / pickle /
tree_map) interleaved with mutations of the source dicts and of every returned dict, run on the real
`flax.core.frozen_dict` and on the compiled Lean model.  Compared: outcome class of every step, number
of returned values, contents of every held value (keys sorted: key order is not promised), and the
id()-partition of the *mutable* dicts the user can reach (as sharing classes, never raw ids).
Property oracles are evaluated on the implementation alone: no FrozenDict ever changes (content and
hash, after every step and after a final mutation storm over every reachable dict), no dict that a
FrozenDict is made of is reachable by the user, writes through a FrozenDict raise, equal contents in
another insertion order compare/hash/flatten equal, pickle and flatten/unflatten give equal values.
Struct part: random field layouts, both `struct.dataclass` and `PyTreeNode`, flatten/unflatten/
tree_map/replace/setattr against the model plus jit-retrace / vmap / grad oracles.
"""
from __future__ import annotations

import collections
import gc
import json
import pickle
import types

from harness import compat  # noqa: F401  (must precede flax)
from harness.common import LeanDriver, load_corpus, InfraError

import numpy as np
import jax
import jax.numpy as jnp
import flax.core.frozen_dict as fz
from flax.core.frozen_dict import FrozenDict
from flax import struct as fstruct

SPEC = {
  'exes': ['drv_c15'],
  'rule': (
    'FrozenDict: a case is one history of 5-24 operations (user dict construction and mutation: newDict/newLeaf/'
    'setKey/delKey; API: getitem/get(k[, default])/items()/values()/keys()/dict(fd)/{**fd}/len/in/iter/freeze/unfreeze/copy (add_or_replace a dict, a FrozenDict, or a MappingProxyType/ChainMap/UserDict view of one)/pop/pickle/tree_map/tree_unflatten and tree_map with FrozenDict-valued children, function and method forms) over '
    'nested dicts mixing dict / FrozenDict / int / None / str / tuple / list / ndarray leaves with aliased sub-dicts; '
    'non-trivial when it contains at least one FrozenDict creation and one later user mutation. Struct: a case is one '
    'random field layout (1-5 fields, data/meta mix, nested structs as data and as static values) with its replace / '
    'setattr / flatten / unflatten / tree_map (and for a subset jit / vmap / grad) observations. distinct = distinct '
    'canonical JSON of the case.'
  ),
  'trusted_base': [
    'hand-written Lean models lean/Flax/Model/Frozen.lean and lean/Flax/Model/Struct.lean (tied to /repo by this run)',
    'harness/props/c15.py (generators, adapters, canonicalisation, gc-based discovery of the dicts inside a FrozenDict), harness/compat.py',
    'Python dict / id() / pickle semantics and jax.tree_util on dict, list, tuple, None (A-PY)',
    'jax.jit cache keyed by treedef; jax.vmap / jax.grad rebuild outputs with tree_unflatten (A-JIT, A-VMAP, A-AD)',
  ],
  'assumptions': [
    'list / tuple / ndarray / None values are leaves for freeze / indexing / copy / pop (the code never copies or inspects them and the property quantifies over them as leaves): a list stored in a FrozenDict is the caller\'s list object and fd[k] hands it out (recorded per run under list_leaf_sharing_observed_not_judged, not judged). The exception that IS claimed and checked: unfreeze / tree_map / pickle rebuild every pytree node, lists and tuples included (unfreeze_containers, companion model Model/FrozenList.lean)',
    'keys are strings (tree_flatten sorts keys; mixed incomparable keys raise in sorted())',
    'private attributes (_dict, _hash, object.__setattr__) are not an API',
    'tree_flatten hands out the raw inner dicts as children (visible only with a custom is_leaf): flatten/unflatten is claimed as value equality only (DESIGN.md §7)',
    'Python hash of keys/leaves and the tuple-hash combiner are parameters of the hash theorems; the _hash slot is modelled as a side table keyed by the FrozenDict object (it is reachable through no API)',
    'dataclasses machinery (__init__/__setattr__ generation, dataclasses.replace) and jax.tree_util.register_dataclass are modelled, not verified',
  ],
  'model_partial': [
    'no `…_partial` theorem. Closed in phase 2: fuel sufficiency (deep_total, frozen_depth, frozen_api_total, acyclic_api_total), content of copy(x, add) for a FrozenDict x (copy_add_content), of module-level copy/pop on plain dicts (copy_dict_same_content, pop_dict_same_content) and of iteration (items_same_content, incl. freshness of every yielded FrozenDict), distinct keys derived from the heap invariant (keys_nodup in HeapInv, abs_wfTree, heap_values_order_independent), explicit _hash cache (HWorld/hstep, hash_returns_fresh_hash). Remaining, correspondence only: (1) contents of module-level copy(d, add) on a plain dict with a non-empty add (dict.update shares the values of a dict add by reference, as Python does); (2) for user dicts fuel sufficiency is conditional on acyclicity within the fuel (Depth hypothesis of acyclic_api_total): a user can build a cyclic dict and Python then raises RecursionError; (3) pop_dict_same_content is stated relative to the key-sorted entries (jax rebuilds dicts sorted); (4) the jit/vmap/grad clause of struct rests on A-JIT/A-VMAP/A-AD: the theorems say the treedef carries class + static fields and tree_map keeps it, the transforms themselves are exercised by the oracles only',
  ],
}

KEYS = ['a', 'b', 'c', 'd']


# ------------------------------------------------------------------------------------------------
# leaves: injective table id <-> Python value
# ------------------------------------------------------------------------------------------------


def leaf_obj(j):
  if 'a' in j:
    n = j['a']
    r = n % 4
    if n == 3:
      return None
    if r == 0:
      return n
    if r == 1:
      return (n, 'x')
    if r == 2:
      return 's%d' % n
    return n + 0.5
  n = j['o']
  if n % 2 == 0:
    return [n, 'l']
  return np.array([n, n + 1])


def leaf_canon(x):
  """inverse of leaf_obj; anything else is reported as a foreign value (never equal to a model leaf)"""
  if x is None:
    return {'a': 3}
  t = type(x)
  if t is int:
    return {'a': x}
  if t is tuple and len(x) == 2 and x[1] == 'x' and type(x[0]) is int:
    return {'a': x[0]}
  if t is str and x.startswith('s') and x[1:].isdigit():
    return {'a': int(x[1:])}
  if t is float:
    return {'a': int(x - 0.5)}
  if t is list and len(x) == 2 and x[1] == 'l' and type(x[0]) is int:
    return {'o': x[0]}
  if isinstance(x, np.ndarray) and x.shape == (2,):
    return {'o': int(x[0])}
  return {'foreign': type(x).__name__}


def is_leafish(x):
  return not isinstance(x, (dict, FrozenDict))


# ------------------------------------------------------------------------------------------------
# implementation adapter
# ------------------------------------------------------------------------------------------------


def _err(e, writing_frozen=False):
  if writing_frozen:
    return 'Immutable'
  if isinstance(e, KeyError):
    return 'KeyError'
  if isinstance(e, (TypeError, AttributeError)):
    return 'TypeError'
  if isinstance(e, RecursionError):
    return 'Recursion'
  return 'Exception:' + type(e).__name__


def impl_step(roots, op):
  """Applies one op to the real objects. Returns 'ok' or an error enum; appends returned values to roots."""
  tag = op[0]
  var = op[-1] if isinstance(op[-1], str) and op[-1] in ('fn', 'method', 'ctor', 'dict', 'splat', 'keys') and len(op) > 1 else 'fn'
  try:
    if tag == 'newDict':
      roots.append({})
    elif tag == 'newLeaf':
      roots.append(leaf_obj(op[1]))
    elif tag == 'setKey':
      tgt = roots[op[1]]
      try:
        tgt[op[2]] = roots[op[3]]
      except Exception as e:
        return _err(e, isinstance(tgt, FrozenDict))
    elif tag == 'delKey':
      tgt = roots[op[1]]
      try:
        del tgt[op[2]]
      except Exception as e:
        return _err(e, isinstance(tgt, FrozenDict))
    elif tag == 'getitem':
      roots.append(roots[op[1]][op[2]])
    elif tag == 'get':
      x = roots[op[1]]
      if is_leafish(x):
        raise TypeError('not a mapping')
      dflt = leaf_obj(op[3])
      # inherited Mapping.get, with the default given positionally / omitted when it is None
      roots.append(x.get(op[2]) if dflt is None else x.get(op[2], dflt))
    elif tag == 'items':
      x = roots[op[1]]
      if is_leafish(x):
        raise TypeError('not a mapping')
      how = op[2] if len(op) > 2 else 'fn'
      if how == 'method':
        vals = list(x.values())
      elif how == 'dict':
        vals = list(dict(x).values())
      elif how == 'splat':
        vals = list({**x}.values())
      elif how == 'keys':
        vals = [x[k] for k in x.keys()]
      else:
        vals = [v for _, v in x.items()]
      roots.extend(vals)
    elif tag == 'freeze':
      x = roots[op[1]]
      roots.append(FrozenDict(x) if var == 'ctor' else fz.freeze(x))
    elif tag == 'unfreeze':
      x = roots[op[1]]
      roots.append(x.unfreeze() if (var == 'method' and isinstance(x, FrozenDict)) else fz.unfreeze(x))
    elif tag == 'copy':
      x = roots[op[1]]
      args = () if op[2] is None else (roots[op[2]],)
      roots.append(x.copy(*args) if (var == 'method' and isinstance(x, FrozenDict)) else fz.copy(x, *args))
    elif tag == 'copyView':
      # add_or_replace given as a Mapping that is neither dict nor FrozenDict, viewing a held dict / FrozenDict
      x = roots[op[1]]
      src = roots[op[2]]
      view = {'proxy': types.MappingProxyType, 'chainmap': collections.ChainMap, 'userdict': collections.UserDict}[op[3]](src)
      roots.append(x.copy(view) if (var == 'method' and isinstance(x, FrozenDict)) else fz.copy(x, view))
    elif tag == 'pop':
      x = roots[op[1]]
      rest, val = x.pop(op[2]) if (var == 'method' and isinstance(x, FrozenDict)) else fz.pop(x, op[2])
      roots.extend([rest, val])
    elif tag == 'pickle':
      x = roots[op[1]]
      if not isinstance(x, FrozenDict):
        raise TypeError('pickle op is for FrozenDict handles')
      roots.append(pickle.loads(pickle.dumps(x)))
    elif tag == 'treeMap':
      roots.append(jax.tree_util.tree_map(lambda y: y, roots[op[1]]))
    elif tag == 'unflatten':
      # a FrozenDict whose children are given values (leaves or FrozenDicts) through the pytree protocol:
      # tree_unflatten on a FrozenDict treedef, or tree_map with a function returning those values
      ks = sorted(op[1], key=lambda p: p[0])
      template = fz.freeze({k: j for j, (k, _) in enumerate(ks)})
      vals = [roots[i] for _, i in ks]
      if any(isinstance(v, dict) and not isinstance(v, FrozenDict) for v in vals):
        raise InfraError('unflatten op with a mutable dict child is outside the modelled domain')
      if op[2] == 'map':
        roots.append(jax.tree_util.tree_map(lambda j: vals[j], template))
      else:
        roots.append(jax.tree_util.tree_unflatten(jax.tree_util.tree_structure(template), vals))
    else:
      raise InfraError(f'unknown op {op}')
  except InfraError:
    raise
  except Exception as e:  # an exception raised by flax/Python is an observation
    return _err(e)
  return 'ok'


def kind_of(x):
  if isinstance(x, FrozenDict):
    return 'frozen'
  if isinstance(x, dict):
    return 'dict'
  return 'leaf'


class Explosion(Exception):
  """a held value is cyclic or absurdly large (cannot happen with the generator's acyclic user structures
  unless a FrozenDict aliases something mutable)"""


_BUDGET = [0]


def dump_impl(x, depth=0):
  """canonical content through the public Mapping API only; user dicts carry their id()"""
  if depth == 0:
    _BUDGET[0] = 3000
  _BUDGET[0] -= 1
  if depth > 25 or _BUDGET[0] < 0:
    raise Explosion()
  if isinstance(x, FrozenDict):
    return {'fz': True, 'kvs': sorted(([k, dump_impl(v, depth + 1)] for k, v in x.items()), key=lambda p: p[0])}
  if isinstance(x, dict):
    return {'fz': False, 'addr': id(x), 'kvs': sorted(([k, dump_impl(v, depth + 1)] for k, v in x.items()), key=lambda p: p[0])}
  return leaf_canon(x)


def strip(t):
  """content only (no addresses), keys sorted"""
  if 'kvs' in t:
    return {'fz': t['fz'], 'kvs': sorted(([k, strip(v)] for k, v in t['kvs']), key=lambda p: p[0])}
  return t


def user_classes(dumps):
  """partition of the (root, path) positions holding a user-reachable mutable dict, by object identity;
  returned as a sorted list of sorted position lists — no raw ids."""
  groups = {}

  def walk(t, pos):
    if 'kvs' not in t or t['fz']:
      return
    groups.setdefault(t['addr'], []).append(pos)
    for k, v in t['kvs']:
      walk(v, pos + '/' + k)

  for i, t in enumerate(dumps):
    walk(t, str(i))
  return sorted(sorted(set(g)) for g in groups.values())


def user_dict_ids(roots):
  """ids of every mutable dict the user can reach from held values (through dict values only)"""
  seen = {}
  stack = [r for r in roots if type(r) is dict or (isinstance(r, dict) and not isinstance(r, FrozenDict))]
  while stack:
    d = stack.pop()
    if id(d) in seen:
      continue
    seen[id(d)] = d
    for v in d.values():
      if isinstance(v, dict) and not isinstance(v, FrozenDict):
        stack.append(v)
  return seen


def inner_dict_ids(fd):
  """ids of the dict objects a FrozenDict is made of: dicts directly referenced by the instance
  (found with gc, no attribute name is assumed) and the dicts nested in them."""
  out = set()
  stack = [o for o in gc.get_referents(fd) if isinstance(o, dict) and not isinstance(o, FrozenDict)]
  while stack:
    d = stack.pop()
    if id(d) in out:
      continue
    out.add(id(d))
    for v in d.values():
      if isinstance(v, dict) and not isinstance(v, FrozenDict):
        stack.append(v)
      elif isinstance(v, FrozenDict):
        stack.extend(o for o in gc.get_referents(v) if isinstance(o, dict) and not isinstance(o, FrozenDict))
  return out


def all_frozen(roots):
  """every FrozenDict the user holds or can reach through held dicts"""
  out = {}
  for r in roots:
    if isinstance(r, FrozenDict):
      out[id(r)] = r
  for d in user_dict_ids(roots).values():
    for v in d.values():
      if isinstance(v, FrozenDict):
        out[id(v)] = v
  return list(out.values())


def safe_hash(x):
  try:
    return ('ok', hash(x))
  except TypeError:
    return ('err', 'TypeError')
  except Exception as e:
    return ('err', 'Exception:' + type(e).__name__)


def has_array(t):
  if 'kvs' in t:
    return any(has_array(v) for _, v in t['kvs'])
  return 'o' in t and t['o'] % 2 == 1


def has_opaque(t):
  if 'kvs' in t:
    return any(has_opaque(v) for _, v in t['kvs'])
  return 'o' in t


def rebuild_reversed(t):
  """a plain nested dict with the same content as canonical tree `t`, keys inserted in reverse order"""
  if 'kvs' in t:
    return {k: rebuild_reversed(v) for k, v in reversed(t['kvs'])}
  return leaf_obj(t)


# ------------------------------------------------------------------------------------------------
# history generator (online: it looks at the kinds/keys of the real objects it has built so far)
# ------------------------------------------------------------------------------------------------


def reaches(src, target):
  """does dict `target` occur inside `src` (dict traversal)? used to keep user structures acyclic"""
  seen = set()
  stack = [src]
  while stack:
    d = stack.pop()
    if d is target:
      return True
    if id(d) in seen or not isinstance(d, dict) or isinstance(d, FrozenDict):
      continue
    seen.add(id(d))
    stack.extend(d.values())
  return False


def size_of(x, cap=400):
  n = 0
  stack = [x]
  while stack and n < cap:
    d = stack.pop()
    n += 1
    if isinstance(d, (dict, FrozenDict)):
      stack.extend(v for _, v in d.items())
  return n


def gen_history(rng, nops, hr):
  """generates `nops` operations, executing each on the implementation (through `hr`) as it goes"""
  roots = hr.roots
  ops = hr.ops
  leafctr = [rng.randrange(0, 40)]

  def pick(kind):
    c = [i for i, r in enumerate(roots) if kind_of(r) == kind]
    return rng.choice(c) if c else None

  def key_for(x, miss=0.15):
    ks = list(x.keys()) if isinstance(x, (dict, FrozenDict)) else []
    if ks and rng.random() > miss:
      return rng.choice(ks)
    return rng.choice(KEYS)

  def new_leaf_op():
    leafctr[0] += rng.randrange(1, 4)
    n = leafctr[0]
    return ['newLeaf', {'o': n} if rng.random() < 0.25 else {'a': n}]

  build = rng.randrange(4, 12)
  deep_build = rng.random() < 0.6
  while len(ops) < nops and not hr.dead:
    nd, nf, nl = (sum(1 for r in roots if kind_of(r) == k) for k in ('dict', 'frozen', 'leaf'))
    op = None
    if nd == 0:
      op = ['newDict']
    elif len(ops) < build:
      r = rng.random()
      if r < 0.25:
        op = ['newDict']
      elif r < 0.4 or nl == 0:
        op = new_leaf_op()
    elif len(ops) == build and nf == 0:
      # make sure the history has a FrozenDict early: freeze the largest dict built so far
      best = max((i for i, v in enumerate(roots) if kind_of(v) == 'dict'), key=lambda i: size_of(roots[i]))
      op = ['freeze', best, rng.choice(['fn', 'ctor'])]
    if op is None:
      r = rng.random()
      big = len(roots) > 40
      if r < 0.30 or (len(ops) < build):
        # setKey: target mostly a dict, sometimes a FrozenDict (must raise) or an int leaf
        tr = rng.random()
        d = pick('frozen') if (tr < 0.10 and nf) else (pick('leaf') if tr < 0.12 and nl else pick('dict'))
        if kind_of(roots[d]) == 'leaf' and type(roots[d]) is not int:
          d = pick('dict')
        sr = rng.random()
        if len(ops) < build and deep_build:
          sr = 0.3 + 0.7 * sr  # construction phase of a deep source: mostly nest dicts
        s = pick('leaf') if sr < 0.45 else (pick('dict') if sr < 0.85 else pick('frozen'))
        if s is None:
          s = rng.randrange(len(roots))
        tgt, src = roots[d], roots[s]
        if kind_of(tgt) == 'dict' and kind_of(src) == 'dict' and (reaches(src, tgt) or size_of(src) + size_of(tgt) > 120):
          op = new_leaf_op()
        else:
          op = ['setKey', d, rng.choice(KEYS), s]
      elif r < 0.36:
        d = pick('frozen') if (rng.random() < 0.25 and nf) else pick('dict')
        op = ['delKey', d, key_for(roots[d], 0.2)]
      elif r < 0.46 and not big:
        x = pick('frozen') if (rng.random() < 0.5 and nf) else pick('dict')
        op = ['getitem', x, key_for(roots[x])]
        if rng.random() < 0.5:
          op = ['get', x, key_for(roots[x], 0.25), rng.choice([{'a': 3}, {'a': 3}, {'a': 44}, {'o': 46}])]
      elif r < 0.50 and not big:
        x = pick('frozen') if (rng.random() < 0.7 and nf) else pick('dict')
        op = ['items', x, rng.choice(['fn', 'method', 'dict', 'splat', 'keys'])]
      elif r < 0.64:
        x = pick('frozen') if (rng.random() < 0.3 and nf) else pick('dict')
        if rng.random() < 0.03:
          c = [i for i, v in enumerate(roots) if type(v) is int]
          x = rng.choice(c) if c else x
        op = ['freeze', x, rng.choice(['fn', 'ctor'])]
      elif r < 0.73:
        x = pick('frozen') if (rng.random() < 0.65 and nf) else pick('dict')
        op = ['unfreeze', x, rng.choice(['fn', 'method'])]
      elif r < 0.83:
        x = pick('frozen') if (rng.random() < 0.6 and nf) else pick('dict')
        ar = rng.random()
        add = None if ar < 0.35 else (pick('dict') if ar < 0.72 else (pick('frozen') if ar < 0.95 else pick('leaf')))
        if add is not None and kind_of(roots[add]) == 'leaf' and type(roots[add]) is not int:
          add = None
        op = ['copy', x, add, rng.choice(['fn', 'method'])]
        if add is not None and rng.random() < 0.45:
          # the same update passed as a non-dict Mapping view (prefer sources that hold nested dicts)
          nested = [i for i, v in enumerate(roots) if kind_of(v) == 'dict' and any(kind_of(u) == 'dict' for u in v.values())]
          if nested and rng.random() < 0.7:
            add = rng.choice(nested)
          if kind_of(roots[add]) != 'leaf':
            op = ['copyView', x, add, rng.choice(['proxy', 'chainmap', 'userdict']), rng.choice(['fn', 'method'])]
          elif type(roots[add]) is int:
            op = ['copyView', x, add, 'proxy', rng.choice(['fn', 'method'])]
      elif r < 0.92:
        x = pick('frozen') if (rng.random() < 0.6 and nf) else pick('dict')
        op = ['pop', x, key_for(roots[x]), rng.choice(['fn', 'method'])]
      elif r < 0.935 and nf:
        # FrozenDict built through the pytree protocol, children = held FrozenDicts (possibly themselves built this way) and leaves
        keys = rng.sample(KEYS, rng.randrange(1, 4))
        cand_f = [i for i, v in enumerate(roots) if kind_of(v) == 'frozen' and size_of(v) < 60]
        cand_l = [i for i, v in enumerate(roots) if kind_of(v) == 'leaf']
        ks = []
        for k_ in keys:
          pool = cand_f if (rng.random() < 0.7 or not cand_l) else cand_l
          ks.append([k_, rng.choice(pool or cand_l or cand_f)])
        ks.sort(key=lambda p: p[0])  # a FrozenDict treedef lists its keys sorted
        op = ['unflatten', ks, rng.choice(['unflatten', 'map'])] if ks and all(i is not None for _, i in ks) and (cand_f or cand_l) else new_leaf_op()
      elif r < 0.95 and nf:
        op = ['pickle', pick('frozen')]
      else:
        x = pick('frozen') if (rng.random() < 0.5 and nf) else pick('dict')
        if size_of(roots[x]) > 150:
          op = new_leaf_op()
        else:
          op = ['treeMap', x]
    hr.step(op)


# ------------------------------------------------------------------------------------------------
# running one history on both sides
# ------------------------------------------------------------------------------------------------


class HistoryRun:
  """Executes ops on the implementation step by step, recording observations and oracle verdicts."""

  def __init__(self):
    self.roots = []
    self.steps = []  # per step: {'r':…, 'n':…, 'dumps':[…]}
    self.frozen_birth = {}  # id(fd) -> (fd, content, hash, step)
    self.oracle = []  # (key, what)
    self.ops = []
    self.dead = False  # an oracle failed: the objects may be corrupted (cycles ...), stop using them

  def observe(self, op, r):
    roots = self.roots
    k = len(self.steps)
    tag = op[0]
    # oracle 1: writes through a FrozenDict raise
    if tag in ('setKey', 'delKey') and isinstance(roots[op[1]], FrozenDict) and r == 'ok':
      self.oracle.append((f'frozen-write-accepted:{tag}', f'step {k} {op}: a write through a FrozenDict did not raise'))
      self.steps.append({'r': r, 'n': len(roots), 'dumps': []})
      self.dead = True
      return
    dumps = [dump_impl(x) for x in roots]
    self.steps.append({'r': r, 'n': len(roots), 'dumps': dumps})
    n_before = len(self.oracle)
    # oracle 2: no FrozenDict the user can see has changed (content, hash)
    live = all_frozen(roots)
    for fd in live:
      c = strip(dump_impl(fd))
      b = self.frozen_birth.get(id(fd))
      if b is None:
        self.frozen_birth[id(fd)] = (fd, c, safe_hash(fd) if not has_array(c) else None, k)
        continue
      if c != b[1]:
        self.oracle.append((
          f'frozen-changed:{tag}', f'step {k} {op}: a FrozenDict created at step {b[3]} changed from {json.dumps(b[1])} to {json.dumps(c)}'
        ))
        self.frozen_birth[id(fd)] = (fd, c, b[2], b[3])
      elif b[2] is not None and safe_hash(fd) != b[2]:
        self.oracle.append((f'hash-changed:{tag}', f'step {k} {op}: hash of a FrozenDict created at step {b[3]} changed'))
    # oracle 3: no dict a FrozenDict is made of is reachable by the user
    user = user_dict_ids(roots)
    for fd in live:
      shared = inner_dict_ids(fd) & set(user)
      if shared:
        self.oracle.append((
          f'frozen-aliases-user-dict:{tag}', f'step {k} {op}: a FrozenDict shares {len(shared)} mutable dict(s) with values the user holds'
        ))
        break
    if len(self.oracle) > n_before:
      self.dead = True

  def step(self, op):
    r = impl_step(self.roots, op)
    self.ops.append(op)
    try:
      self.observe(op, r)
    except (Explosion, RecursionError):
      k = len(self.ops) - 1
      if len(self.steps) < len(self.ops):
        self.steps.append({'r': r, 'n': len(self.roots), 'dumps': []})
      self.oracle.append((f'value-cyclic-or-exploded:{op[0]}', f'step {k} {op}: a held value became cyclic or exploded (the user structures are acyclic by construction, so a FrozenDict must alias a mutable dict)'))
      self.dead = True
    return r

  def storm(self):
    """final mutation storm: write a sentinel into every dict the user can reach; nothing frozen may move"""
    before = [(fd, strip(dump_impl(fd))) for fd in all_frozen(self.roots)]
    for d in list(user_dict_ids(self.roots).values()):
      d['__sentinel__'] = 0
      for k in list(d.keys()):
        if not isinstance(d[k], (dict, FrozenDict)):
          d[k] = ('clobbered',)
    for fd, c in before:
      c2 = strip(dump_impl(fd))
      if c2 != c:
        self.oracle.append(('frozen-changed:storm', f'after mutating every reachable dict a FrozenDict changed from {json.dumps(c)} to {json.dumps(c2)}'))
        break


def value_oracles(roots, rng, drv_reqs, meta):
  """equality / hash / pickle / flatten oracles on the FrozenDicts held at the end of a history.
  Appends model requests to drv_reqs and bookkeeping to meta; returns oracle failures."""
  bad = []
  frs = [x for x in roots if isinstance(x, FrozenDict)]
  if not frs:
    return bad
  rng.shuffle(frs)
  # FrozenDicts that hold FrozenDict objects inside (built through tree_unflatten / tree_map) first
  frs.sort(key=lambda x: 0 if any(isinstance(o, dict) and any(isinstance(v, FrozenDict) for v in o.values()) for o in gc.get_referents(x)) else 1)
  for fd in frs[:4]:
    c = strip(dump_impl(fd))
    # read-only Mapping protocol: consistent with the contents and without effect (the snapshot checks follow)
    try:
      ks = list(fd.keys())
      ok = (len(fd) == len(ks) == len(c['kvs']) and all(k in fd for k in ks) and '__nope__' not in fd and sorted(ks) == [k for k, _ in c['kvs']]
            and list(iter(fd)) == ks and fd.get('__nope__') is None and fd.get('__nope__', 7) == 7 and len(list(fd.values())) == len(ks))
    except Exception as e:
      ok = 'raised ' + type(e).__name__
    if ok is not True:
      bad.append(('mapping-protocol-inconsistent', f'len / in / keys / iter / get(default) of a FrozenDict with contents {json.dumps(c)} are inconsistent: {ok}'))
    if strip(dump_impl(fd)) != c:
      bad.append(('frozen-changed:read-only-calls', f'read-only Mapping calls changed a FrozenDict with contents {json.dumps(c)}'))
    if _has_foreign(c):
      continue
    arr = has_array(c)
    twin = fz.freeze(rebuild_reversed(c))
    ct = strip(dump_impl(twin))
    if ct != c:
      bad.append(('freeze-content', f'freeze of a dict with content {json.dumps(c)} has content {json.dumps(ct)}'))
      continue
    if not arr:
      try:
        e1, e2, e3 = (fd == twin), (twin == fd), (fd == fz.unfreeze(fd))
      except Exception as e:
        e1 = e2 = e3 = 'raised ' + type(e).__name__
      if not (e1 is True and e2 is True):
        bad.append(('eq-order-dependent', f'equal contents {json.dumps(c)} in another insertion order compare {e1}/{e2}'))
      # FrozenDict == plain dict with the same contents: what Mapping.__eq__ gives and the model says; not judged as a property failure
      drv_reqs.append(('eq', [c, strip(dump_impl(fz.unfreeze(fd)))]))
      meta.append(('eq', [c, 'unfreeze(self)'], e3))
      h1, h2 = safe_hash(fd), safe_hash(twin)
      if h1 != h2:
        bad.append(('hash-not-equal-for-equal-values', f'a FrozenDict with contents {json.dumps(c)} and freeze() of the same plain nested dict built in the opposite insertion order compare equal but hash {h1} vs {h2}'))
      elif h1[0] == 'ok' and not (fd in {twin} and {twin: 1}.get(fd) == 1 and len({fd, twin}) == 1):
        bad.append(('hash-not-equal-for-equal-values', f'set/dict membership fails between equal FrozenDicts with contents {json.dumps(c)}'))
      # (whether hashing a FrozenDict with an unhashable leaf raises is not part of the property: recorded, not judged)
      drv_reqs.append(('hash', [c]))
      meta.append(('hash', c, h1[0]))
    # pytree: flatten / unflatten, stopping at our leaves
    try:
      leaves, td = jax.tree_util.tree_flatten(fd, is_leaf=is_leafish)
      leaves_t, td_t = jax.tree_util.tree_flatten(twin, is_leaf=is_leafish)
      back = jax.tree_util.tree_unflatten(td, leaves)
      lc = [leaf_canon(x) for x in leaves]
      ok = isinstance(back, FrozenDict) and strip(dump_impl(back)) == c
      paths_t = [[getattr(k, 'key', None) for k in p] for p, _ in jax.tree_util.tree_flatten_with_path(twin, is_leaf=is_leafish)[0]]
      paths = [[getattr(k, 'key', None) for k in p] for p, _ in jax.tree_util.tree_flatten_with_path(fd, is_leaf=is_leafish)[0]]
      # same leaves in the same order under the same key paths (node kinds dict/FrozenDict inside may differ: a child put in
      # by tree_unflatten stays a FrozenDict node, a frozen plain dict is a dict node)
      same = paths == paths_t and [leaf_canon(x) for x in leaves_t] == lc
    except Exception as e:
      bad.append(('flatten-raises', f'tree_flatten/unflatten of {json.dumps(c)} raised {type(e).__name__}'))
      continue
    if not ok:
      bad.append(('flatten-roundtrip', f'tree_unflatten(tree_flatten(fd)) differs from fd = {json.dumps(c)}'))
    # equal FrozenDicts built in different orders flatten identically (theorem flatten_order_independent): compared as model behaviour
    drv_reqs.append(('roundtrip', [c]))
    meta.append(('flatten_same', c, same))
    drv_reqs.append(('flatten', [c]))
    meta.append(('flatten', c, (lc, paths)))
    drv_reqs.append(('roundtrip', [c]))
    meta.append(('roundtrip', c, None))
    # pickle
    try:
      p = pickle.loads(pickle.dumps(fd))
      if not (isinstance(p, FrozenDict) and strip(dump_impl(p)) == c and (arr or p == fd)):
        bad.append(('pickle-not-equal', f'pickle round trip of {json.dumps(c)} gives {json.dumps(strip(dump_impl(p)))}'))
    except Exception as e:
      bad.append(('pickle-raises', f'pickling {json.dumps(c)} raised {type(e).__name__}'))
  # pairwise equality among held FrozenDicts and dicts vs the model's treeEq
  pool = [x for x in roots if isinstance(x, (dict, FrozenDict))]
  for _ in range(min(4, len(pool))):
    a, b = rng.choice(pool), rng.choice(pool)
    ca, cb = strip(dump_impl(a)), strip(dump_impl(b))
    if has_array(ca) or has_array(cb) or _has_foreign(ca) or _has_foreign(cb):
      continue
    if not (isinstance(a, FrozenDict) or isinstance(b, FrozenDict)):
      continue
    try:
      e = a == b
    except Exception as ex:
      e = 'raised ' + type(ex).__name__
    want = _content_eq(ca, cb)
    if e is not want and isinstance(a, FrozenDict) and isinstance(b, FrozenDict):
      bad.append(('eq-wrong', f'{json.dumps(ca)} == {json.dumps(cb)} gives {e}, contents equal = {want}'))
    drv_reqs.append(('eq', [ca, cb]))
    meta.append(('eq', [ca, cb], e))
  return bad


def _has_foreign(t):
  if 'kvs' in t:
    return any(_has_foreign(v) for _, v in t['kvs'])
  return 'foreign' in t


def _content_eq(a, b):
  """equality of contents as finite maps, ignoring the dict/FrozenDict distinction"""
  if ('kvs' in a) != ('kvs' in b):
    return False
  if 'kvs' not in a:
    return a == b
  da, db = dict((k, v) for k, v in a['kvs']), dict((k, v) for k, v in b['kvs'])
  return da.keys() == db.keys() and all(_content_eq(da[k], db[k]) for k in da)


def compare_history(ctx, hr, mres, case):
  """model-vs-implementation comparison of one history; returns list of (key, what)"""
  out = []
  for k, (st, m) in enumerate(zip(hr.steps, mres)):
    op = hr.ops[k]
    if m['r'] != st['r']:
      out.append((f'model-outcome:{op[0]}', f'step {k} {op}: implementation {st["r"]}, model {m["r"]}'))
      break
    if m['n'] != st['n']:
      out.append((f'model-arity:{op[0]}', f'step {k} {op}: implementation holds {st["n"]} values, model {m["n"]}'))
      break
    mt = [s['d'] for s in m['snap']]
    for i, (a, b) in enumerate(zip(st['dumps'], mt)):
      if b is None or strip(a) != strip(b):
        out.append((f'model-content:{op[0]}', f'step {k} {op}: value {i} is {json.dumps(strip(a))} in the implementation, {json.dumps(strip(b)) if b else None} in the model'))
        break
    if out:
      break
    ua, ub = user_classes(st['dumps']), user_classes(mt)
    if ua != ub:
      out.append((f'model-sharing:{op[0]}', f'step {k} {op}: sharing classes of mutable dicts differ: implementation {ua}, model {ub}'))
      break
    for s in m['snap']:
      if s['d'] is not None and s['t'] is not None and strip(s['d']) != strip(s['t']):
        raise InfraError('driver dump and absVal disagree')
      if set(s['u']) & set(x for s2 in m['snap'] for x in s2['f']):
        out.append(('model-separation', f'step {k} {op}: the model itself has a user-reachable frozen dict'))
  return out


def check_value_meta(meta, outs):
  """model side of value_oracles; returns (key, what) disagreements"""
  out = []
  for (kind, c, imp), m in zip(meta, outs):
    if kind == 'hash':
      pass  # the model's hash is only exercised (driver path); its value/err class is not compared
    elif kind == 'flatten':
      lc, paths = imp
      if m[0] != 'ok' or m[1][0] != lc:
        out.append(('model-flatten-leaves', f'flatten of {json.dumps(c)}: implementation leaves {lc}, model {m}'))
      elif _tdef_paths(m[1][1]) != paths:
        out.append(('model-flatten-paths', f'flatten of {json.dumps(c)}: implementation key paths {paths}, model {_tdef_paths(m[1][1])}'))
    elif kind == 'roundtrip':
      if m[0] != 'ok' or strip(m[1]) != c:
        out.append(('model-roundtrip', f'model unflatten(flatten(t)) differs from t = {json.dumps(c)}: {m}'))
    elif kind == 'flatten_same':
      if imp is not True:
        out.append(('model-flatten-order', f'two FrozenDicts with contents {json.dumps(c)} built in different insertion orders flatten to different leaves/treedefs; the model (flatten_order_independent) says they flatten identically'))
    elif kind == 'eq':
      if m != ('ok', imp):
        out.append(('model-eq', f'{json.dumps(c[0])} == {json.dumps(c[1])}: implementation {imp}, model {m}'))
  return out


def _tdef_paths(d, pre=()):
  if d == '*':
    return [list(pre)]
  out = []
  for k, sub in d['kvs']:
    out += _tdef_paths(sub, pre + (k,))
  return out


def history_stats(ctx, hr):
  tags = [op[0] for op in hr.ops]
  for op, st in zip(hr.ops, hr.steps):
    ctx.count('op', op[0])
    ctx.count('outcome', st['r'])
  ctx.count('history_len', len(hr.ops) // 4 * 4)
  nfz = sum(1 for r in hr.roots if isinstance(r, FrozenDict))
  ctx.count('frozen_handles', min(nfz, 8))
  depth = 0
  for r in hr.roots:
    if isinstance(r, FrozenDict):
      depth = max(depth, _depth(strip(dump_impl(r))))
  ctx.count('max_frozen_depth', depth)
  first_fz = next((i for i, (op, st) in enumerate(zip(hr.ops, hr.steps)) if op[0] in ('freeze', 'copy', 'copyView', 'pop', 'pickle', 'treeMap', 'unflatten', 'getitem', 'get') and st['r'] == 'ok' and any(isinstance(x, FrozenDict) for x in hr.roots[: st['n']])), None)
  mutated_after = first_fz is not None and any(
    op[0] in ('setKey', 'delKey') and st['r'] == 'ok' for op, st in list(zip(hr.ops, hr.steps))[first_fz + 1 :]
  )
  return bool(mutated_after)


def _depth(t):
  if 'kvs' not in t:
    return 0
  return 1 + max([_depth(v) for _, v in t['kvs']] + [0])


def run_histories(ctx, drv, n, replay_ops=None):
  """generates (or replays) histories, checks oracles and the model; returns number of error steps / steps"""
  rng = ctx.rng
  runs = []
  for i in range(n if replay_ops is None else len(replay_ops)):
    hr = HistoryRun()
    if replay_ops is None:
      gen_history(rng, rng.randrange(8, 27), hr)
    else:
      for op in replay_ops[i]:
        if not hr.dead:
          hr.step(op)
    reqs, meta = [], []
    vbad = []
    if not hr.dead:
      try:
        vbad = value_oracles(hr.roots, rng, reqs, meta)
        hr.storm()
      except (Explosion, RecursionError):
        hr.oracle.append(('value-cyclic-or-exploded:final', 'a held value became cyclic or exploded during the final checks'))
        hr.dead = True
        reqs, meta = [], []
    runs.append((hr, vbad, reqs, meta))
  # model, batched
  allreq = []
  for hr, vbad, reqs, meta in runs:
    allreq.append(('run', [[_model_op(op) for op in hr.ops]]))
    allreq.extend(reqs)
  outs = drv.run(allreq)
  k = 0
  err_steps = steps = 0
  for hr, vbad, reqs, meta in runs:
    m = outs[k]
    vouts = outs[k + 1 : k + 1 + len(reqs)]
    k += 1 + len(reqs)
    case = {'kind': 'history', 'ops': hr.ops}
    try:
      nontrivial = history_stats(ctx, hr)
    except (Explosion, RecursionError):
      nontrivial = True
    ctx.case(case, nontrivial=nontrivial)
    steps += len(hr.steps)
    err_steps += sum(1 for st in hr.steps if st['r'] != 'ok')
    oracle = hr.oracle + vbad
    if oracle:
      key, what = oracle[0]
      ctx.violation(key, what, _shrunk(case, what), concrete=True)
      continue
    if m[0] != 'ok':
      raise InfraError(f'driver rejected a history: {m}')
    dis = compare_history(ctx, hr, m[1], case) + check_value_meta(meta, vouts)
    if dis:
      ctx.disagreements_checked += 1
      key, what = dis[0]
      ctx.violation(key, what, _shrunk(case, what), concrete=False)
  return err_steps, steps


def _model_op(op):
  if op[0] == 'get':
    return op[:4]
  if op[0] == 'items':
    return op[:2]
  if op[0] == 'unflatten':
    return op[:2]
  if op[0] == 'copyView':
    return op[:3]
  return [x for x in op if x not in ('fn', 'method', 'ctor')] if op[0] not in ('setKey', 'delKey', 'getitem', 'pop') else op[: {'setKey': 4, 'delKey': 3, 'getitem': 3, 'pop': 3}[op[0]]]


def _shrunk(case, what):
  """cut the history after the step named in the message (indices of later ops would dangle otherwise)"""
  import re

  m = re.match(r'step (\d+) ', what)
  if m:
    return {'kind': 'history', 'ops': case['ops'][: int(m.group(1)) + 1]}
  return case


EXH_BASE = [
  ['newDict'], ['newLeaf', {'a': 5}], ['newDict'], ['newLeaf', {'o': 8}],
  ['setKey', 2, 'z', 1], ['setKey', 2, 'l', 3], ['setKey', 0, 'a', 2], ['setKey', 0, 'b', 1], ['setKey', 0, 'c', 2],
  ['freeze', 0, 'fn'], ['setKey', 0, 'f', 4],
]  # 0: src = {'a': inner, 'b': 5, 'c': inner, 'f': fd}, 2: inner = {'z': 5, 'l': [8,'l']}, 4: fd = freeze({'a': inner, 'b': 5, 'c': inner})


def _catalogue(roots, hs):
  """every operation of the alphabet on the handles `hs` (API calls, and mutations with a leaf / a dict / a FrozenDict value)"""
  out = [['unflatten', [['u', 4], ['v', 1]], 'unflatten'], ['unflatten', [['u', 4]], 'map']]
  for h in hs:
    k = kind_of(roots[h])
    if k == 'leaf':
      continue
    out += [['getitem', h, 'a'], ['getitem', h, 'zz'], ['get', h, 'a', {'a': 3}], ['get', h, 'zz', {'a': 44}], ['items', h, 'fn'], ['freeze', h, 'ctor'], ['unfreeze', h, 'fn'],
            ['copy', h, None, 'fn'], ['copy', h, 0, 'fn'], ['copy', h, 4, 'method'], ['copyView', h, 0, 'proxy', 'method'],
            ['copyView', h, 0, 'chainmap', 'fn'], ['pop', h, 'a', 'method'], ['pop', h, 'zz', 'fn'],
            ['treeMap', h], ['setKey', h, 'n', 1], ['setKey', h, 'a', 4], ['delKey', h, 'a']]
    if k == 'frozen':
      out.append(['pickle', h])
    if k == 'dict' and h != 2 and not reaches(roots[2], roots[h]):
      out.append(['setKey', h, 'a', 2])
  return out


def exhaustive_histories(depth):
  """all continuations of EXH_BASE by `depth` operations of the alphabet (handles: source, nested source dict, the FrozenDict, and the
  first two values returned by the previous operation)"""
  def grow(prefix, d):
    hr = HistoryRun()
    for op in prefix:
      if not hr.dead:
        hr.step(op)
    if d == 0 or hr.dead:
      return [prefix]  # (a dead prefix is reported when run_histories replays it)
    new = [i for i in range(5, len(hr.roots)) if kind_of(hr.roots[i]) != 'leaf'][-2:]
    out = []
    for op in _catalogue(hr.roots, [0, 2, 4] + new):
      out += grow(prefix + [op], d - 1)
    return out

  return grow(list(EXH_BASE), depth)


# ------------------------------------------------------------------------------------------------
# struct.dataclass / PyTreeNode
# ------------------------------------------------------------------------------------------------

_CLASSES = {}


_CLASS_NOTES = {}  # sig -> observations made when the class was created (metadata handling of struct.field)

META_MODES = ('none', 'fresh', 'shared', 'stale', 'shared_stale')


def sig_of(pv, style, meta='none'):
  return (pv['cls'], pv['frozen'], tuple((n, b) for n, b, _ in pv['fs']), style, meta)


def make_class(pv, style, meta='none'):
  """Builds the class for a layout.  `meta` says how the fields are declared:
  none          data fields are bare annotations, static ones `struct.field(pytree_node=False)`
  fresh         every field `struct.field(pytree_node=flag, metadata=<its own new dict>)`
  shared        every field `struct.field(pytree_node=flag, metadata=M)` with ONE dict object M for the whole class
  stale         own dict per field that already holds a 'pytree_node' entry with the opposite flag
  shared_stale  one shared dict that already holds a stale 'pytree_node' entry"""
  sig = sig_of(pv, style, meta)
  if sig in _CLASSES:
    return _CLASSES[sig]
  import dataclasses, typing, types

  ns = {'__annotations__': {n: typing.Any for n, _, _ in pv['fs']}}
  user_dicts = []  # (dict object, snapshot, [field names it was passed for])
  if meta == 'none':
    for n, b, _ in pv['fs']:
      if not b:
        ns[n] = fstruct.field(pytree_node=False)
  else:
    shared = None
    for j, (n, b, _) in enumerate(pv['fs']):
      if meta in ('shared', 'shared_stale'):
        if shared is None:
          shared = {'units': 'm'}
          if meta == 'shared_stale':
            shared['pytree_node'] = not b
          user_dicts.append((shared, dict(shared), []))
        m = shared
      else:
        m = {'units': 'u%d' % j}
        if meta == 'stale':
          m['pytree_node'] = not b
        user_dicts.append((m, dict(m), []))
      user_dicts[-1][2].append(n)
      ns[n] = fstruct.field(pytree_node=b, metadata=m)
  kw = {} if pv['frozen'] else {'frozen': False}
  # class styles (all supported by the unchanged code; PyTreeNode + slots is rejected by dataclasses itself and not generated)
  if style in ('slots', 'slots_kw', 'sub_slots'):
    kw['slots'] = True  # dataclasses builds a NEW class object: the one that must be registered as a pytree
  if style in ('kw_only', 'slots_kw', 'pytreenode_kw'):
    kw['kw_only'] = True
  if style == 'slots' and pv['frozen']:
    kw['frozen'] = True  # explicit frozen=True variant
  if style in ('pytreenode', 'pytreenode_kw'):
    cls = types.new_class(pv['cls'], (fstruct.PyTreeNode,), kw, lambda d: d.update(ns))
  elif style == 'sub_slots':
    # a slots=True subclass of an ordinary struct dataclass that declares the first field
    n0 = pv['fs'][0][0]
    bns = {'__annotations__': {n0: typing.Any}}
    if n0 in ns:
      bns[n0] = ns.pop(n0)
    ns['__annotations__'] = {n: t for n, t in ns['__annotations__'].items() if n != n0}
    parent = fstruct.dataclass(**({} if pv['frozen'] else {'frozen': False}))(type(pv['cls'] + '_base', (), bns))
    cls = fstruct.dataclass(**kw)(type(pv['cls'], (parent,), ns))
  else:
    base = type(pv['cls'], (), ns)
    cls = fstruct.dataclass(base, **kw) if style == 'decorator' else fstruct.dataclass(**kw)(base)
  notes = {'problems': [], 'flags': None, 'store': [], 'specs': []}
  if meta != 'none':
    for m, snap, names in user_dicts:
      if m != snap:
        notes['problems'].append(('struct-field-mutates-caller-metadata', f'struct.field changed the metadata dict passed for fields {names} of {pv["cls"]} from {snap} to {m}'))
    flags = [[f.name, f.metadata.get('pytree_node', True)] for f in dataclasses.fields(cls)]
    want = [[n, b] for n, b, _ in pv['fs']]
    if flags != want:
      notes['problems'].append(('struct-field-flag-not-own', f'fields of {pv["cls"]} declared ({meta} metadata dicts) with pytree_node flags {want} carry {flags}'))
    for f, (m, snap, names) in zip(dataclasses.fields(cls), user_dicts if meta in ('fresh', 'stale') else [user_dicts[0]] * len(pv['fs'])):
      if f.metadata.get('units') != snap.get('units'):
        notes['problems'].append(('struct-field-loses-user-metadata', f'field {f.name} of {pv["cls"]} lost the caller metadata entry units={snap.get("units")!r}'))
        break
    # the same declaration for the model: store of caller dicts (only the 'pytree_node' entry matters) + specs
    enc = lambda d: [['units', 1]] + ([['pytree_node', 1 if d['pytree_node'] else 0]] if 'pytree_node' in d else [])
    notes['store'] = [enc(snap) for _, snap, _ in user_dicts]
    idx = {}
    for j, (_, _, names) in enumerate(user_dicts):
      for n in names:
        idx[n] = j
    notes['specs'] = [[n, b, idx[n]] for n, b, _ in pv['fs']]
    notes['flags'] = flags
  _CLASSES[sig] = cls
  _CLASS_NOTES[sig] = notes
  return cls


def class_notes(pv, style, meta):
  """notes of every class used by a layout (nested ones included)"""
  out = []
  if isinstance(pv, dict):
    out.append(_CLASS_NOTES.get(sig_of(pv, style, meta), {'problems': [], 'flags': None, 'store': [], 'specs': []}))
    for _, _, v in pv['fs']:
      out += class_notes(v, style, meta)
  return out


_META = ['none']  # how the classes of the layout being checked declare their fields (set by struct_case)


def build(pv, style, conv=None, data=True):
  """real instance for a model value; `conv` converts data leaves (e.g. to arrays)"""
  if not isinstance(pv, dict):
    return conv(pv) if (conv and data) else pv
  cls = make_class(pv, style, _META[0])
  return cls(**{n: build(v, style, conv, data and b) for n, b, v in pv['fs']})


def to_pv(x, conv=int, data=True):
  import dataclasses

  if dataclasses.is_dataclass(x) and not isinstance(x, type):
    fs = []
    for f in dataclasses.fields(x):
      node = bool(f.metadata.get('pytree_node', True))
      fs.append([f.name, node, to_pv(getattr(x, f.name), conv, data and node)])
    return {'cls': type(x).__name__, 'frozen': bool(type(x).__dataclass_params__.frozen), 'fs': fs}
  try:
    return conv(x) if data else int(x)
  except Exception:
    return {'foreign': type(x).__name__}


def gen_pv(rng, depth, ctr, static=False):
  if depth == 0 or rng.random() < 0.45:
    ctr[0] += 1
    return ctr[0]
  nf = rng.randrange(1, 6)
  names = rng.sample(['x', 'y', 'z', 'w', 'm', 'k', 'n'], nf)
  fs = []
  for n in names:
    node = rng.random() < 0.6
    fs.append([n, node if not static else (rng.random() < 0.7), gen_pv(rng, depth - 1, ctr, static or not node)])
  frozen = True if static else rng.random() < 0.9
  import zlib

  cls = 'S' + str(zlib.crc32(repr((tuple((n, b) for n, b, _ in fs), frozen)).encode()) % 10**8)
  return {'cls': cls, 'frozen': frozen, 'fs': fs}


def s_call(fn):
  import dataclasses

  try:
    return ('ok', fn())
  except dataclasses.FrozenInstanceError:
    return ('err', 'FrozenInstance')
  except TypeError:
    return ('err', 'TypeError')
  except AttributeError:
    return ('err', 'AttributeError')
  except ValueError:
    return ('err', 'StructureMismatch')
  except Exception as e:
    return ('err', 'Exception:' + type(e).__name__)


def struct_case(ctx, drv, case, heavy):
  """one layout: implementation observations, oracles, model requests. Returns (reqs, finish(outs))"""
  pv, style = case['pv'], case['style']
  meta = case.get('meta', 'none')
  _META[0] = meta
  x = build(pv, style)
  bad = []
  reqs = []
  checks = []
  # struct.field with caller metadata dicts: the caller's dicts are untouched and every field carries its own flag
  for notes in class_notes(pv, style, meta):
    bad += notes['problems']
    if notes['flags'] is not None:
      reqs.append(('s.declare', [notes['store'], notes['specs']]))
      checks.append(('declare', notes['flags']))
  orig = to_pv(x)
  if orig != pv:
    bad.append(('struct-construct', f'constructing {json.dumps(pv)} gives {json.dumps(orig)}'))
  # flatten: leaves are exactly the pytree_node fields, in order
  leaves, td = jax.tree_util.tree_flatten(x)
  want_leaves = _data_leaves(pv)
  if list(leaves) != want_leaves:
    bad.append(('struct-leaves', f'leaves of {json.dumps(pv)} are {list(leaves)}, data fields hold {want_leaves}'))
  reqs.append(('s.flatten', [pv]))
  checks.append(('flatten', list(leaves)))
  # unflatten with fresh leaves
  new = [100 + i for i in range(len(leaves))]
  r = s_call(lambda: to_pv(jax.tree_util.tree_unflatten(td, new)))
  reqs.append(('s.unflatten', [pv, new]))
  checks.append(('same', r))
  if r[0] == 'ok' and (_static_part(r[1]) != _static_part(pv) or _data_leaves(r[1]) != new):
    bad.append(('struct-unflatten', f'unflatten of {json.dumps(pv)} with {new} gives {json.dumps(r[1])}'))
  if leaves:
    r = s_call(lambda: to_pv(jax.tree_util.tree_unflatten(td, new[:-1])))
    reqs.append(('s.unflatten', [pv, new[:-1]]))
    checks.append(('errclass', r))
  # tree_map
  k = case['k']
  r = s_call(lambda: to_pv(jax.tree_util.tree_map(lambda v: 2 * v + k, x)))
  reqs.append(('s.map', [pv, k]))
  checks.append(('same', r))
  if r[0] == 'ok' and _static_part(r[1]) != _static_part(pv):
    bad.append(('struct-treemap-static', f'tree_map changed class or static fields of {json.dumps(pv)}: {json.dumps(r[1])}'))
  # replace
  ups = case['ups']
  r = s_call(lambda: to_pv(x.replace(**{n: build(v, style) for n, v in ups})))
  reqs.append(('s.replace', [pv, ups]))
  checks.append(('same', r))
  names = [n for n, _, _ in pv['fs']]
  if all(n in names for n, _ in ups):
    if r[0] != 'ok':
      bad.append(('struct-replace-raises', f'replace({ups}) on {json.dumps(pv)} raised {r[1]}'))
    else:
      last = {n: v for n, v in ups}
      for (n, b, v), (n2, b2, v2) in zip(pv['fs'], r[1]['fs']):
        if n2 != n or b2 != b or v2 != last.get(n, v):
          bad.append(('struct-replace-fields', f'replace({ups}) on {json.dumps(pv)} gives {json.dumps(r[1])}'))
          break
  elif r[0] == 'ok':
    bad.append(('struct-replace-unknown-accepted', f'replace({ups}) with an unknown field succeeded on {json.dumps(pv)}'))
  if to_pv(x) != orig:
    bad.append(('struct-replace-mutates', f'replace changed the original instance {json.dumps(pv)}'))
  # setattr / delattr
  an, av = case['set']
  if 'slots' in style and an not in names:
    an = names[0]  # a slots class has no __dict__: an unknown attribute is an AttributeError whatever `frozen` says
  r = s_call(lambda: (setattr(x, an, av), to_pv(x))[1])
  reqs.append(('s.setattr', [pv, an, av]))
  checks.append(('same', r))
  if pv['frozen']:
    if r[0] == 'ok' or to_pv(x) != orig:
      bad.append(('struct-not-frozen', f'attribute assignment {an}={av} on {json.dumps(pv)} gave {r}'))
    r2 = s_call(lambda: delattr(x, names[0]))
    if r2[0] == 'ok':
      bad.append(('struct-not-frozen', f'del of field {names[0]} succeeded on {json.dumps(pv)}'))
  x = build(pv, style)
  # static fields live in the treedef
  alt_data, alt_meta = _alter(pv, True), _alter(pv, False)
  if alt_data is not None:
    td2 = jax.tree_util.tree_structure(build(alt_data, style))
    if td2 != td:
      bad.append(('struct-data-in-treedef', f'changing a data leaf of {json.dumps(pv)} changed the treedef'))
    reqs.append(('s.flatten', [alt_data]))
    checks.append(('tdeq', True))
  if alt_meta is not None:
    td3 = jax.tree_util.tree_structure(build(alt_meta, style))
    if td3 == td:
      bad.append(('struct-meta-not-in-treedef', f'changing a static field of {json.dumps(pv)} left the treedef equal'))
    reqs.append(('s.flatten', [alt_meta]))
    checks.append(('tdeq', False))
  if heavy:
    bad += struct_transforms(pv, style, alt_data, alt_meta)

  def finish(outs):
    dis = []
    i0 = next(i for i, (kind, _) in enumerate(checks) if kind == 'flatten')
    base_def = outs[i0][1][1] if outs[i0][0] == 'ok' else None
    for (kind, imp), m in zip(checks, outs):
      if kind == 'flatten':
        if m[0] != 'ok' or m[1][0] != imp:
          dis.append(('model-struct-flatten', f'leaves of {json.dumps(pv)}: implementation {imp}, model {m}'))
      elif kind == 'declare':
        if m[0] != 'ok' or [list(p) for p in m[1]] != [list(p) for p in imp]:
          dis.append(('model-struct-declare', f'{json.dumps(case)}: field flags {imp} in the implementation, {m} in the model'))
      elif kind == 'same':
        if tuple(m) != tuple(imp) and not (m[0] == 'err' and imp[0] == 'err' and m[1] == imp[1]):
          dis.append(('model-struct-result', f'{json.dumps(case)}: implementation {imp}, model {m}'))
      elif kind == 'errclass':
        if (m[0] == 'ok') != (imp[0] == 'ok'):
          dis.append(('model-struct-error', f'{json.dumps(case)}: implementation {imp}, model {m}'))
      elif kind == 'tdeq':
        if m[0] != 'ok' or (m[1][1] == base_def) != imp:
          dis.append(('model-struct-treedef', f'{json.dumps(case)}: model treedef equality is not {imp}'))
    return bad, dis

  return reqs, finish


def _data_leaves(pv):
  if not isinstance(pv, dict):
    return [pv]
  out = []
  for n, b, v in pv['fs']:
    if b:
      out += _data_leaves(v)
  return out


def _static_part(pv):
  """class, field names/flags and static values, with data leaves blanked"""
  if not isinstance(pv, dict):
    return '*'
  return [pv['cls'], pv['frozen'], [[n, b, _static_part(v) if b else v] for n, b, v in pv['fs']]]


def _alter(pv, data):
  """a copy with the first data leaf (data=True) / first static leaf (data=False) changed; None if there is none"""
  done = [False]

  def go(v, in_data):
    if not isinstance(v, dict):
      if not done[0] and in_data == data:
        done[0] = True
        return v + 1000
      return v
    return {'cls': v['cls'], 'frozen': v['frozen'], 'fs': [[n, b, go(x, in_data and b)] for n, b, x in v['fs']]}

  out = go(pv, True)
  return out if done[0] else None


def struct_transforms(pv, style, alt_data, alt_meta):
  """jit retrace / vmap / grad oracles (A-JIT, A-VMAP, A-AD: only class and static fields are checked, and trace counts)"""
  bad = []
  arr = lambda n: jnp.float32(n)
  n = [0]

  def f(s):
    n[0] += 1
    return jax.tree_util.tree_map(lambda v: v * 2 + 1, s)

  jf = jax.jit(f)
  x = build(pv, style, arr)
  try:
    r = jf(x)
    c1 = n[0]
    got = to_pv(r, lambda v: int(v))
    want = _map_pv(pv, lambda v: 2 * v + 1)
    if got != want:
      bad.append(('struct-jit-result', f'jit(tree_map) on {json.dumps(pv)} gives {json.dumps(got)}'))
    if alt_data is not None:
      jf(build(alt_data, style, arr))
      if n[0] != c1:
        bad.append(('struct-jit-retrace-on-data', f'changing a data leaf of {json.dumps(pv)} retraced'))
    c2 = n[0]
    if alt_meta is not None:
      r3 = jf(build(alt_meta, style, arr))
      if n[0] != c2 + 1:
        bad.append(('struct-jit-no-retrace-on-static', f'changing a static field of {json.dumps(pv)} did not retrace'))
      if _static_part(to_pv(r3, lambda v: int(v))) != _static_part(alt_meta):
        bad.append(('struct-jit-static-lost', f'jit output lost the static fields of {json.dumps(alt_meta)}'))
    if _data_leaves(pv):
      xb = build(pv, style, lambda v: jnp.full((3,), v, jnp.float32))
      rv = jax.vmap(lambda s: jax.tree_util.tree_map(lambda v: v + 1, s))(xb)
      gv = to_pv(rv, lambda v: int(v[0]))
      if gv != _map_pv(pv, lambda v: v + 1):
        bad.append(('struct-vmap-result', f'vmap on {json.dumps(pv)} gives {json.dumps(gv)}'))
    if _data_leaves(pv):
      g = jax.grad(lambda s: sum(jnp.sum(l * l) for l in jax.tree_util.tree_leaves(s)))(x)
      gg = to_pv(g, lambda v: int(v))
      if gg != _map_pv(pv, lambda v: 2 * v):
        bad.append(('struct-grad-result', f'grad on {json.dumps(pv)} gives {json.dumps(gg)}'))
  except Exception as e:
    bad.append(('struct-transform-raises', f'jit/vmap/grad on {json.dumps(pv)} raised {type(e).__name__}: {str(e)[:120]}'))
  return bad


def _map_pv(pv, f, data=True):
  if not isinstance(pv, dict):
    return f(pv) if data else pv
  return {'cls': pv['cls'], 'frozen': pv['frozen'], 'fs': [[n, b, _map_pv(v, f, data and b)] for n, b, v in pv['fs']]}


def gen_struct_case(rng):
  ctr = [rng.randrange(1, 50)]
  pv = gen_pv(rng, 3, ctr)
  while not isinstance(pv, dict):
    pv = gen_pv(rng, 3, ctr)
  names = [n for n, _, _ in pv['fs']]
  ups = []
  for _ in range(rng.randrange(0, 3)):
    nm = rng.choice(names) if rng.random() < 0.88 else 'zz'
    ctr[0] += 1
    ups.append([nm, ctr[0] if rng.random() < 0.8 else gen_pv(rng, 1, ctr, static=True)])
  ctr[0] += 1
  return {
    'kind': 'struct',
    'pv': pv,
    'style': rng.choice(['decorator', 'decorator_kw', 'pytreenode', 'slots', 'slots', 'slots_kw', 'kw_only', 'sub_slots', 'pytreenode_kw']),
    'meta': rng.choice(['none', 'none', 'fresh', 'shared', 'shared', 'stale', 'shared_stale']),
    'ups': ups,
    'k': rng.randrange(-3, 4),
    'set': [rng.choice(names) if rng.random() < 0.9 else 'zz', ctr[0]],
  }


def run_structs(ctx, drv, cases, heavy_every):
  allreq, fins = [], []
  for i, case in enumerate(cases):
    reqs, fin = struct_case(ctx, drv, case, heavy=(heavy_every and i % heavy_every == 0))
    allreq.append(reqs)
    fins.append(fin)
  outs = drv.run([r for reqs in allreq for r in reqs])
  k = 0
  for case, reqs, fin in zip(cases, allreq, fins):
    bad, dis = fin(outs[k : k + len(reqs)])
    k += len(reqs)
    pv = case['pv']
    nmeta = sum(1 for _, b, _ in pv['fs'] if not b)
    ctx.case(case, nontrivial=len(pv['fs']) >= 2)
    ctx.count('struct_fields', len(pv['fs']))
    ctx.count('struct_meta_fields', nmeta)
    ctx.count('struct_style', case['style'])
    ctx.count('struct_field_metadata', case.get('meta', 'none'))
    ctx.count('struct_shared_dict_mixed_flags', int(case.get('meta') in ('shared', 'shared_stale') and len({b for _, b, _ in pv['fs']}) == 2))
    ctx.count('struct_nested', int(any(isinstance(v, dict) for _, _, v in pv['fs'])))
    if bad:
      ctx.violation(bad[0][0], bad[0][1], case, concrete=True)
    elif dis:
      ctx.disagreements_checked += 1
      ctx.violation(dis[0][0], dis[0][1], case, concrete=False)


# ------------------------------------------------------------------------------------------------
# cross-process pickling: "equal contents compare and hash equal", "pickling returns an equal value" must
# hold in the process that loads the pickle too (str hashes differ between interpreters)
# ------------------------------------------------------------------------------------------------

_CHILD = r"""
import sys, json, base64, pickle
sys.path.insert(0, %r)
from harness import compat  # puts VERIF_REPO first on sys.path
from flax.core.frozen_dict import FrozenDict

def build(j):
  if isinstance(j, dict):
    return {k: build(v) for k, v in j.items()}
  if isinstance(j, list):
    return tuple(build(v) for v in j)
  return j

req = json.load(sys.stdin)
out = {'loaded': [], 'made': []}
for it in req['load']:
  try:
    x = pickle.loads(base64.b64decode(it['b64']))
    fresh = FrozenDict(build(it['spec']))
    out['loaded'].append({'type': isinstance(x, FrozenDict), 'eq': bool(x == fresh and fresh == x), 'hash': hash(x) == hash(fresh),
                          'set': x in {fresh}, 'dict': {fresh: 1}.get(x) == 1})
  except Exception as e:
    out['loaded'].append({'error': type(e).__name__})
for it in req['make']:
  fd = FrozenDict(build(it['spec']))
  if it['hashed']:
    hash(fd)
  out['made'].append(base64.b64encode(pickle.dumps(fd)).decode())
json.dump(out, sys.stdout)
"""


def _xp_build(j):
  if isinstance(j, dict):
    return {k: _xp_build(v) for k, v in j.items()}
  if isinstance(j, list):
    return tuple(_xp_build(v) for v in j)
  return j


def _xp_spec(rng, depth):
  """nested dict literal with str keys and str / int / tuple-of-str values (all hashable, all picklable)"""
  d = {}
  for k in rng.sample(['params', 'kernel', 'bias', 'batch_stats', 'mean', 'a', 'b'], rng.randrange(1, 4)):
    r = rng.random()
    if depth > 0 and r < 0.4:
      d[k] = _xp_spec(rng, depth - 1)
    elif r < 0.75:
      d[k] = 'v%d' % rng.randrange(1000)
    elif r < 0.9:
      d[k] = rng.randrange(1000)
    else:
      d[k] = ['t%d' % rng.randrange(100), rng.randrange(10)]
  return d


def cross_process_pickle(ctx, specs_out=None, specs_back=None):
  """one child interpreter with a different PYTHONHASHSEED: it loads FrozenDicts pickled here (half of them hashed
  before pickling) and pickles its own for us to load. Everything loaded must equal, hash like, and be found in
  sets/dicts of, a FrozenDict built afresh from the same literal in the loading process."""
  import base64
  import os
  import subprocess
  import sys
  from harness.common import VERIF

  rng = ctx.rng
  if specs_out is None:
    specs_out = [{'spec': _xp_spec(rng, 2), 'hashed': i % 2 == 0} for i in range(24)]
    specs_back = [{'spec': _xp_spec(rng, 2), 'hashed': i % 2 == 0} for i in range(24)]
  load = []
  for it in specs_out:
    fd = FrozenDict(_xp_build(it['spec']))
    if it['hashed']:
      hash(fd)
    load.append({'spec': it['spec'], 'b64': base64.b64encode(pickle.dumps(fd)).decode()})
  env = dict(os.environ)
  env['PYTHONHASHSEED'] = '54321' if os.environ.get('PYTHONHASHSEED') == '12345' else '12345'
  p = subprocess.run([sys.executable, '-c', _CHILD % VERIF], input=json.dumps({'load': load, 'make': specs_back}),
                     capture_output=True, text=True, env=env, timeout=120)
  if p.returncode != 0:
    raise InfraError('cross-process pickle child failed: ' + p.stderr[-400:])
  out = json.loads(p.stdout)
  case = {'kind': 'xproc', 'out': specs_out, 'back': specs_back}

  def judge(direction, it, res):
    ctx.case({'kind': 'xproc', 'dir': direction, 'spec': it['spec'], 'hashed': it['hashed']})
    ctx.count('xproc', f"{direction}:{'hashed' if it['hashed'] else 'unhashed'}")
    if 'error' in res:
      ctx.violation('pickle-cross-process-raises', f'{direction}: unpickling {json.dumps(it["spec"])} raised {res["error"]}', case)
    elif not (res['type'] and res['eq']):
      ctx.violation('pickle-cross-process-not-equal', f'{direction}: a FrozenDict {json.dumps(it["spec"])} pickled in one interpreter does not equal the same literal built in the loading interpreter ({res})', case)
    elif not (res['hash'] and res['set'] and res['dict']):
      ctx.violation(
        'pickle-cross-process-hash' + (':hashed-before-pickling' if it['hashed'] else ''),
        f'{direction}: FrozenDict {json.dumps(it["spec"])} (hashed before pickling: {it["hashed"]}) loaded in another interpreter equals a fresh one but hash-equal={res["hash"]}, found in set={res["set"]}, dict lookup={res["dict"]}', case)

  for it, res in zip(specs_out, out['loaded']):
    judge('parent->child', it, res)
  for it, b64 in zip(specs_back, out['made']):
    try:
      x = pickle.loads(base64.b64decode(b64))
      fresh = FrozenDict(_xp_build(it['spec']))
      res = {'type': isinstance(x, FrozenDict), 'eq': bool(x == fresh and fresh == x), 'hash': hash(x) == hash(fresh), 'set': x in {fresh}, 'dict': {fresh: 1}.get(x) == 1}
    except Exception as e:
      res = {'error': type(e).__name__}
    judge('child->parent', it, res)


# ------------------------------------------------------------------------------------------------
# unfreeze shares no mutable container with the FrozenDict, lists / tuples inside included
# (companion model lean/Flax/Model/FrozenList.lean; theorem unfreeze_shares_no_mutable_container)
# ------------------------------------------------------------------------------------------------


def _uc_spec(rng, depth, top=False):
  """nested literal: {'d': {...}} dict, {'l': [...]} list, {'t': [...]} tuple, {'fz': {...}} FrozenDict (only inside a list/tuple),
  {'arr': n} ndarray leaf, int leaf.  Lists of dicts, dicts inside lists inside dicts, tuples of lists all occur."""
  r = rng.random()
  if top or (depth > 0 and r < 0.34):
    return {'d': {k: _uc_spec(rng, depth - 1) for k in rng.sample(['params', 'layers', 'w', 'b', 'head', 'stats'], rng.randrange(1, 4))}}
  if depth > 0 and r < 0.62:
    return {'l': [_uc_spec(rng, depth - 1) if rng.random() < 0.8 else _uc_fz(rng, depth - 1) for _ in range(rng.randrange(0, 4))]}
  if depth > 0 and r < 0.74:
    return {'t': [_uc_spec(rng, depth - 1) for _ in range(rng.randrange(1, 3))]}
  if r < 0.82:
    return {'arr': rng.randrange(100)}
  return rng.randrange(1000)


def _uc_fz(rng, depth):
  return {'fz': {k: _uc_spec(rng, depth) for k in rng.sample(['w', 'b'], rng.randrange(1, 3))}}


def _uc_build(j):
  if isinstance(j, dict):
    if 'd' in j:
      return {k: _uc_build(v) for k, v in j['d'].items()}
    if 'l' in j:
      return [_uc_build(v) for v in j['l']]
    if 't' in j:
      return tuple(_uc_build(v) for v in j['t'])
    if 'fz' in j:
      return FrozenDict({k: _uc_build(v) for k, v in j['fz'].items()})
    return np.array([j['arr'], j['arr'] + 1])
  return j


def _uc_snap(x, depth=0):
  """deep canonical content (dict/FrozenDict distinction dropped, keys sorted, arrays by value)"""
  if depth > 30:
    raise Explosion()
  if isinstance(x, (dict, FrozenDict)):
    return ['d', sorted([k, _uc_snap(v, depth + 1)] for k, v in x.items())]
  if isinstance(x, list):
    return ['l', [_uc_snap(v, depth + 1) for v in x]]
  if isinstance(x, tuple):
    return ['t', [_uc_snap(v, depth + 1) for v in x]]
  if isinstance(x, np.ndarray):
    return ['arr', x.tolist()]
  return x


def _uc_mutable_ids(x):
  """ids of every mutable container (dict or list) reachable from x, through dicts, lists, tuples and inside FrozenDicts"""
  out = {}
  stack = [x]
  seen = set()
  while stack:
    o = stack.pop()
    if id(o) in seen:
      continue
    seen.add(id(o))
    if isinstance(o, FrozenDict):
      stack.extend(r for r in gc.get_referents(o) if isinstance(r, dict) and not isinstance(r, FrozenDict))
    elif isinstance(o, dict):
      out[id(o)] = o
      stack.extend(o.values())
    elif isinstance(o, list):
      out[id(o)] = o
      stack.extend(o)
    elif isinstance(o, tuple):
      stack.extend(o)
  return out


def _uc_heap(spec):
  """the FrozenDict freeze(build(spec)) as a heap for the companion model; returns (objects, address of the FrozenDict)"""
  heap = []

  def val(j):
    if isinstance(j, dict):
      if 'd' in j:
        kvs = [[k, val(v)] for k, v in j['d'].items()]
        heap.append({'d': kvs})
      elif 'l' in j:
        xs = [val(v) for v in j['l']]
        heap.append({'l': xs})
      elif 't' in j:
        xs = [val(v) for v in j['t']]
        heap.append({'t': xs})
      elif 'fz' in j:
        kvs = [[k, val(v)] for k, v in j['fz'].items()]
        heap.append({'d': kvs})
        heap.append({'f': len(heap) - 1})
      else:
        return 100000 + j['arr']
      return {'r': len(heap) - 1}
    return j

  top = val(spec)
  heap.append({'f': top['r']})
  return heap, len(heap) - 1


def _uc_model_snap(j):
  if isinstance(j, dict):
    if j['k'] in ('d',):
      return ['d', sorted([k, _uc_model_snap(v)] for k, v in j['items'])]
    if j['k'] == 'f':
      return _uc_model_snap(j['items'][0])
    return [j['k'], [_uc_model_snap(v) for v in j['items']]]
  if isinstance(j, int) and j >= 100000:
    return ['arr', [j - 100000, j - 100000 + 1]]
  return j


def _uc_addrs(j, out):
  if isinstance(j, dict):
    if j['k'] in ('d', 'l'):
      out.append(j['addr'])
    for v in j['items']:
      _uc_addrs(v[1] if j['k'] == 'd' else v, out)
  return out


def _uc_mutate(rng, root, n):
  """n random in-place mutations at random depths through `root` (dict setitem/del, list append/setitem/del)"""
  done = 0
  for _ in range(n * 3):
    if done >= n:
      break
    cur = root
    for _ in range(rng.randrange(0, 5)):
      kids = [v for v in (cur.values() if isinstance(cur, dict) else cur) if isinstance(v, (dict, list, tuple)) and not isinstance(v, FrozenDict)]
      if not kids:
        break
      cur = rng.choice(kids)
    if isinstance(cur, dict):
      ks = list(cur)
      r = rng.random()
      if ks and r < 0.3:
        del cur[rng.choice(ks)]
      elif ks and r < 0.6:
        cur[rng.choice(ks)] = ('clobbered',)
      else:
        cur['__new__'] = {'x': 1}
      done += 1
    elif isinstance(cur, list):
      r = rng.random()
      if cur and r < 0.3:
        del cur[rng.randrange(len(cur))]
      elif cur and r < 0.6:
        cur[rng.randrange(len(cur))] = ('clobbered',)
      else:
        cur.append({'w': 0})
      done += 1


def unfreeze_containers(ctx, drv, specs=None):
  rng = ctx.rng
  if specs is None:
    specs = [_uc_spec(rng, rng.randrange(2, 5), top=True) for _ in range(140)]
  reqs, pend = [], []
  for spec in specs:
    case = {'kind': 'unfreeze-containers', 'specs': [spec]}
    fd = fz.freeze(_uc_build(spec))
    ref = fz.freeze(_uc_build(spec))
    snap0 = _uc_snap(fd)
    fd_ids = _uc_mutable_ids(fd)
    has_list = any(isinstance(o, list) for o in fd_ids.values())
    ctx.case(case, nontrivial=has_list)
    ctx.count('unfreeze_containers', 'with-list' if has_list else 'dicts-only')
    ctx.count('unfreeze_containers_dict_inside_list', int(any(isinstance(o, list) and any(isinstance(v, dict) for v in o) for o in fd_ids.values())))
    sub = next((k for k, v in fd.items() if isinstance(v, FrozenDict)), None)
    routes = [('unfreeze', lambda: (fz.unfreeze(fd), fd)), ('unfreeze-method', lambda: (fd.unfreeze(), fd)),
              ('tree_map', lambda: (jax.tree_util.tree_map(lambda y: y, fd), fd)), ('pickle', lambda: (pickle.loads(pickle.dumps(fd)), fd))]
    if sub is not None:
      routes.append(('subview-unfreeze', lambda: (fd[sub].unfreeze(), fd[sub])))
    bad = None
    shared_any = False
    for name, fn in routes:
      try:
        res, src = fn()
        want = _uc_snap(src)
        got = _uc_snap(res)
      except Exception as e:
        bad = ('unfreeze-containers-raises', f'{name} of freeze({json.dumps(spec)}) raised {type(e).__name__}')
        break
      if got != want:
        bad = ('unfreeze-content', f'{name} of freeze({json.dumps(spec)}) has contents {json.dumps(got)} instead of {json.dumps(want)}')
        break
      shared = set(_uc_mutable_ids(res)) & set(fd_ids)
      if shared:
        shared_any = shared_any or name.startswith('unfreeze')
        kinds = sorted({type(fd_ids[i]).__name__ for i in shared})
        bad = (f'unfreeze-shares-mutable-container:{name}', f'{name} of freeze({json.dumps(spec)}) returns {len(shared)} mutable container(s) ({kinds}) that are the very objects inside the FrozenDict')
        break
      # in-place mutations at random depths through the result never change the FrozenDict
      if True:
        # (for a FrozenDict result: through the list objects it hands out by indexing / iteration)
        target = res if not isinstance(res, FrozenDict) else {k: v for k, v in res.items()}
        _uc_mutate(rng, target, 4)
        now = _uc_snap(fd)
        if now != snap0:
          bad = (f'frozen-changed-through-result:{name}', f'mutating the value returned by {name} of freeze({json.dumps(spec)}) changed the FrozenDict from {json.dumps(snap0)} to {json.dumps(now)}')
          break
        if not any(isinstance(o, np.ndarray) for o in jax.tree_util.tree_leaves(_uc_build(spec))):
          try:
            eq = (fd == ref) and (ref == fd)
          except Exception as e:
            eq = 'raised ' + type(e).__name__
          if eq is not True:
            bad = (f'frozen-changed-through-result:{name}', f'after mutating the value returned by {name}, freeze({json.dumps(spec)}) == a fresh copy is {eq}')
            break
          if safe_hash(fd) != safe_hash(ref):
            bad = (f'frozen-changed-through-result:{name}', f'after mutating the value returned by {name}, hash of freeze({json.dumps(spec)}) differs from a fresh copy')
            break
    if bad:
      ctx.violation(bad[0], bad[1], case, concrete=True)
      continue
    heap, root = _uc_heap(spec)
    reqs.append(('l.unfreeze', [heap, root]))
    pend.append((spec, case, snap0, shared_any))
  outs = drv.run(reqs)
  for (spec, case, snap0, shared_any), m in zip(pend, outs):
    if m[0] != 'ok':
      ctx.disagreements_checked += 1
      ctx.violation('model-unfreeze-containers', f'model failed on freeze({json.dumps(spec)}): {m}', case, concrete=False)
      continue
    fresh = all(a >= m[1]['base'] for a in _uc_addrs(m[1]['res'], []))
    if _uc_model_snap(m[1]['res']) != snap0 or fresh != (not shared_any):
      ctx.disagreements_checked += 1
      ctx.violation('model-unfreeze-containers', f'unfreeze of freeze({json.dumps(spec)}): model content/freshness {json.dumps(_uc_model_snap(m[1]["res"]))}/{fresh} vs implementation {json.dumps(snap0)}/{not shared_any}', case, concrete=False)
  # recorded, not judged (lists are leaves for freeze / indexing / copy / pop: DESIGN.md §7, SPEC['assumptions'])
  probe = {'layers': [{'w': 1}]}
  pf = fz.freeze(probe)
  ctx.extra['list_leaf_sharing_observed_not_judged'] = {
    'freeze_keeps_source_list_object': pf['layers'] is probe['layers'],
    'indexing_returns_stored_list_object': pf['layers'] is pf['layers'],
    'copy_shares_list_object': pf.copy()['layers'] is pf['layers'],
    'unfreeze_rebuilds_list_object': fz.unfreeze(pf)['layers'] is not pf['layers'],
  }


# ------------------------------------------------------------------------------------------------
# entry points
# ------------------------------------------------------------------------------------------------


def _run_case(ctx, drv, obj):
  case = obj
  while isinstance(case, dict) and 'kind' not in case and 'case' in case:
    case = case['case']  # replay files wrap the case (once or twice, see common.finish)
  if case.get('kind') == 'history':
    run_histories(ctx, drv, 0, replay_ops=[case['ops']])
  elif case.get('kind') == 'struct':
    run_structs(ctx, drv, [case], heavy_every=1)
  elif case.get('kind') == 'unfreeze-containers':
    unfreeze_containers(ctx, drv, case['specs'])
  elif case.get('kind') == 'xproc':
    cross_process_pickle(ctx, case['out'], case['back'])
  else:
    raise InfraError(f'unknown corpus/replay case kind {case.get("kind")!r}')


def run(ctx):
  drv = LeanDriver('drv_c15')
  thorough = ctx.tier == 'thorough'
  for fn, obj in load_corpus('C15'):
    ctx.corpus_replayed += 1
    _run_case(ctx, drv, obj)
  exh = exhaustive_histories(2)
  if thorough:
    ex3 = exhaustive_histories(3)
    exh += ctx.rng.sample(ex3, min(len(ex3), 12000))
  for i in range(0, len(exh), 400):
    run_histories(ctx, drv, 0, replay_ops=exh[i : i + 400])
  ctx.extra['exhaustive_scope'] = (
    f'all {len(exhaustive_histories(2))} two-operation continuations of a fixed nested world (source with an aliased nested dict, a FrozenDict of it, '
    'the FrozenDict stored back into the source) over the 17-18 operation alphabet per handle' + ('; plus 12000 sampled three-operation continuations' if thorough else '')
  )
  ctx.count('exhaustive_histories', 'depth2+', len(exh))
  n_hist = 900 if not thorough else 40000
  err = steps = 0
  for i in range(0, n_hist, 400):
    e, s = run_histories(ctx, drv, min(400, n_hist - i))
    err += e
    steps += s
  ctx.extra['history_steps'] = steps
  ctx.extra['history_error_steps'] = err
  if steps and err / steps > 0.5:
    raise InfraError(f'history generator degenerated: {err}/{steps} steps raise')
  n_struct = 400 if not thorough else 6000
  cases = [gen_struct_case(ctx.rng) for _ in range(n_struct)]
  run_structs(ctx, drv, cases, heavy_every=(25 if not thorough else 10))
  ctx.sample({'kind': 'struct', 'case': cases[0]})
  cross_process_pickle(ctx)
  unfreeze_containers(ctx, drv)
  ctx.extra['driver_calls'] = drv.calls
  ctx.extra['exhaustive'] = False


def replay(ctx, obj):
  drv = LeanDriver('drv_c15')
  _run_case(ctx, drv, obj)
  for v in ctx.violations:
    print('  ', v['key'], '-', v['what'][:300])
  return bool(ctx.violations)
