"""C13 — Attention and RNNs: stepwise equals whole-sequence; padding and masks are inert.

Theorems: lean/Flax/Props/C13.lean over lean/Flax/Model/Seq.lean (abstract carriers).
Correspondence (real flax from $VERIF_REPO vs the compiled Lean driver, exact, integer data):
  * flip_sequences, make_attention_mask, make_causal_mask, combine_masks (Linen and NNX copies);
  * the decode cache of MultiHeadDotProductAttention / nnx.MultiHeadAttention observed through the public
    `attention_fn` hook with integer parameters: the allowed (query, key, bias, value) tuples of every step;
  * nn.RNN / nnx.RNN / Bidirectional over a custom integer RNNCellBase: all flags, seq_lengths, time_major;
  * one step of every cell with integer parameters and polynomial gate/activation functions.
Property oracles on the implementation alone (floats, the real cells and the real softmax):
  paired inputs differing only at ignored positions give EQUAL (==) outputs at valid positions and equal
  final carry; stepwise decode / Python cell loop vs whole-sequence run (float tolerance 1e-5, named as such);
  attention weights vs NumPy softmax (tolerance); Linen vs NNX with shared parameters (tolerance).
"""
from __future__ import annotations

import itertools
import math

from harness import compat  # noqa: F401  (must precede flax)
from harness.common import LeanDriver, load_corpus

import numpy as np
import jax
import jax.numpy as jnp
import flax.linen as nn
from flax import nnx
from flax.linen import attention as l_attn
from flax.linen import recurrent as l_rec
from flax.nnx.nn import attention as x_attn
from flax.nnx.nn import recurrent as x_rec

TOL = 1e-5

SPEC = {
  'exes': ['drv_c13'],
  'rule': (
    'A case is one (API, layer/function, shapes, flags, seq_lengths/mask pattern, data) tuple; T<=6, features<=4, '
    'batch<=3 (also 2 batch axes). Exact-vs-Lean cases use integer data; paired cases perturb only ignored '
    'positions with finite values up to 1e6. Non-trivial = has padding/masked positions or T>=2; distinct = '
    'distinct canonical JSON of the case.'
  ),
  'trusted_base': [
    'hand-written Lean model lean/Flax/Model/Seq.lean (tied to /repo by this correspondence run)',
    'harness/props/c13.py (generators, adapters, NumPy reference formulas), harness/compat.py (JAX shim)',
    'A-SCAN: lax.scan / nn.scan / nnx.scan are a left fold that stacks outputs along the given axis',
    'A-SOFTMAX: masked logits (finfo.min) get weight exactly 0 when a row has an allowed entry; 0*v = 0 for finite v '
    '(hypothesis SeesOnlyVisible of the attention theorems; checked on the real softmax by the paired runs)',
    'jnp.take_along_axis / dynamic_update_slice / where / einsum meet their index-level specifications (A-CONV)',
  ],
  'assumptions': [
    'floating point is outside every theorem: cell formulas, softmax and stepwise-vs-whole are compared with tolerance 1e-5',
    'perturbations of ignored positions are finite (no NaN/inf), every compared query has at least one allowed key',
    'seq_lengths in [1, T]; decode is fed at most max_length positions',
    'NNX GRUCell has no b_hn parameter although its docstring shows one (modelled as b_hn = 0); GRU is not part of the Linen/NNX agreement clause',
  ],
  'model_partial': [
    'cell recurrences: lstm_follows_doc / gru_follows_doc / gru_nnx_follows_doc / simple_follows_doc / mgu_follows_doc / lstm_optimized_eq prove that the code\'s dense-layer plumbing (which kernel and bias feeds which gate, b_hn placement, concatenated NNX / OptimizedLSTM layouts) equals the documented formulas over any scalar type with associative/commutative +,* where stated; sigmoid/tanh stay uninterpreted and float rounding (non-associative +) is compared with tolerance only; ConvLSTMCell has no model (compared with tolerance only)',
    'softmax numerics: the attention theorems hold for any row function that sees only the allowed (logit, value) pairs (SeesOnlyVisible); attend_sees_only_visible reduces that to two primitive facts about softmax and the weighted sum, which for the real float softmax hold only on rows with at least one allowed entry and are checked by the paired == runs, not proved',
    'rnn_nd_spec / flip_nd_spec model arrays as total read functions with NumPy broadcasting; feature axes of the RNN input are abstracted into the element type; the compiled driver still runs the one-row model (the n-d model is proof-only, tied to it by flip_nd_row / rnn_nd_spec)',
  ],
}


# ------------------------------------------------------------------------------------------------
# utilities
# ------------------------------------------------------------------------------------------------


def call(fn, *a, **k):
  """Every exception raised by flax is an observation, never a harness crash."""
  try:
    return ('ok', fn(*a, **k))
  except Exception as e:  # noqa: BLE001
    return ('err', type(e).__name__)


def tolist(a):
  return np.asarray(a).tolist()


def ilist(a):
  return np.asarray(a).astype(np.int64).tolist()


class Batch:
  """Accumulates driver requests; callbacks get their slice of the answers."""

  def __init__(self, drv):
    self.drv = drv
    self.reqs = []
    self.cbs = []

  def add(self, reqs, cb):
    self.cbs.append((len(self.reqs), len(reqs), cb))
    self.reqs.extend(reqs)

  def flush(self):
    outs = self.drv.run(self.reqs)
    for s, n, cb in self.cbs:
      cb(outs[s : s + n])
    self.reqs, self.cbs = [], []


def model_mismatch(ctx, key, what, case):
  ctx.disagreements_checked += 1
  ctx.violation(key, what, case, concrete=False)


APIS = ('linen', 'nnx')

_PALS = {}


def shared_pal(rng, thorough, which):
  """Shape palettes shared by the sections of one run: every new array shape costs a round of XLA compilations,
  so the attention sections (and the real-cell RNN sections) draw their shapes from one small palette."""
  key = (id(rng), which)
  if key not in _PALS:
    if which == 'attn':  # (B, T, F, H, D)
      pal = [(rng.randrange(1, 3), rng.randrange(2, 7), rng.randrange(2, 5), rng.randrange(1, 3), rng.randrange(1, 3)) for _ in range(2 if not thorough else 12)]
      if not any(p_[1] >= 4 for p_ in pal):
        pal[0] = (pal[0][0], rng.randrange(4, 7)) + pal[0][2:]
      if not any(p_[3] >= 2 for p_ in pal):
        pal[-1] = pal[-1][:3] + (2,) + pal[-1][4:]
      if not any(p_[4] >= 2 for p_ in pal):  # normalize_qk needs head_dim >= 2 to be observable
        pal[0] = pal[0][:4] + (2,)
    else:  # 'rnn': (B, T, F, H)
      pal = [(rng.randrange(1, 4), rng.randrange(2, 7), rng.randrange(1, 4), rng.randrange(1, 4)) for _ in range(2 if not thorough else 12)]
      if not any(p_[1] >= 4 for p_ in pal):
        pal[0] = (pal[0][0], rng.randrange(4, 7)) + pal[0][2:]
    _PALS[key] = pal
  return _PALS[key]



def rec_mod(api):
  return l_rec if api == 'linen' else x_rec


def attn_mod(api):
  return l_attn if api == 'linen' else x_attn


# ------------------------------------------------------------------------------------------------
# A1. flip_sequences  (exact, vs Lean `flip`)
# ------------------------------------------------------------------------------------------------


def gen_flip_cases(rng, thorough):
  cases = []
  # exhaustive small scope: every T<=4 (5 thorough), every length vector entry in [1,T], one batch row each
  tmax = 5 if thorough else 4
  for api in APIS:
    for T in range(1, tmax + 1):
      lens = list(range(1, T + 1))
      for tm in (False, True):
        data = [[10 * b + t + 1 for t in range(T)] for b in range(len(lens))]
        cases.append({'kind': 'flip', 'api': api, 'time_major': tm, 'lens': lens, 'data': data, 'feat': 0, 'nb': 1})
      cases.append({'kind': 'flip', 'api': api, 'time_major': False, 'lens': None, 'data': [[t + 1 for t in range(T)]], 'feat': 0, 'nb': 1})
  palette = [(rng.randrange(1, 7), rng.randrange(1, 4), rng.choice([0, 0, 1, 2])) for _ in range(4 if not thorough else 40)]
  for _ in range(50 if not thorough else 1500):
    T, B, feat = rng.choice(palette)
    lens = None if rng.random() < 0.15 else [rng.randrange(1, T + 1) for _ in range(B)]
    shape = (B, T) + ((feat,) if feat else ())
    data = np.array([rng.randrange(-50, 50) for _ in range(int(np.prod(shape)))]).reshape(shape).tolist()
    cases.append({'kind': 'flip', 'api': rng.choice(APIS), 'time_major': rng.random() < 0.4, 'lens': lens, 'data': data, 'feat': feat, 'nb': 1})
  # two batch axes
  # two batch axes, batch-major AND time-major, square and non-square batch shapes, lengths not symmetric in (i, j)
  pal2 = [(rng.randrange(3, 6), 2, 2), (rng.randrange(3, 6), 2, 3)] + [(rng.randrange(2, 6), rng.randrange(1, 4), rng.randrange(1, 4)) for _ in range(0 if not thorough else 8)]
  for i in range(16 if not thorough else 300):
    T, b1, b2 = pal2[i % len(pal2)]
    lens = [[rng.randrange(1, T + 1) for _ in range(b2)] for _ in range(b1)]
    if b1 >= 2 and b2 >= 2 and T >= 2:
      lens[0][1], lens[1][0] = 1, T
    data = np.array([rng.randrange(-50, 50) for _ in range(b1 * b2 * T)]).reshape(b1, b2, T).tolist()
    cases.append({'kind': 'flip', 'api': APIS[(i // len(pal2)) % 2], 'time_major': (i // (2 * len(pal2))) % 2 == 1, 'lens': lens, 'data': data, 'feat': 0, 'nb': 2})
  return cases


def check_flip(ctx, batch, cases):
  for case in cases:
    x = np.array(case['data'], dtype=np.int32)  # batch-major [*batch, T, *feat]
    nb = case['nb']
    tm = case['time_major']
    lens = None if case['lens'] is None else np.array(case['lens'], dtype=np.int32)
    xin = np.moveaxis(x, nb, 0) if tm else x
    r = call(rec_mod(case['api']).flip_sequences, jnp.asarray(xin), None if lens is None else jnp.asarray(lens), nb, tm)
    ctx.case(case, nontrivial=x.shape[nb] >= 2)
    ctx.count('flip', f"{case['api']}{'-tm' if tm else ''}{'-nolen' if lens is None else ''}-nb{nb}")
    if r[0] != 'ok':
      ctx.violation('flip-raises', f'flip_sequences raised {r[1]} on {case}', case)
      continue
    out = np.asarray(r[1])
    out = np.moveaxis(out, 0, nb) if tm else out
    T = x.shape[nb]
    rows_in = x.reshape((-1, T) + x.shape[nb + 1 :])
    rows_out = out.reshape(rows_in.shape) if out.shape == x.shape else None
    flat_lens = [None] * rows_in.shape[0] if lens is None else lens.reshape(-1).tolist()
    if rows_out is None:
      ctx.violation('flip-shape', f'flip_sequences changed the shape {x.shape} -> {out.shape}', case)
      continue
    # property oracle: reversal inside the valid length, padding stays behind it
    bad = None
    for b, l in enumerate(flat_lens):
      ll = T if l is None else l
      for t in range(ll):
        if not np.array_equal(rows_out[b, t], rows_in[b, ll - 1 - t]):
          bad = (b, t)
      pad_in = sorted(map(lambda v: tuple(np.ravel(v).tolist()), rows_in[b, ll:]))
      pad_out = sorted(map(lambda v: tuple(np.ravel(v).tolist()), rows_out[b, ll:]))
      if pad_in != pad_out:
        bad = (b, 'padding')
    if bad is not None:
      ctx.violation('flip-not-reversal-within-length', f'flip_sequences: row/time {bad} is not the documented re-indexing on {case}; got {rows_out.tolist()}', dict(case, got=rows_out.tolist()))
      continue
    # model: one Lean call per (row, feature column)
    cols = rows_in.reshape(rows_in.shape[0], T, -1)
    ocols = rows_out.reshape(rows_in.shape[0], T, -1)
    reqs, want = [], []
    for b, l in enumerate(flat_lens):
      for f in range(cols.shape[2]):
        reqs.append(('flip', [l, cols[b, :, f].tolist()]))
        want.append(ocols[b, :, f].tolist())

    def cb(outs, case=case, want=want):
      got = [o[1] if o[0] == 'ok' else o for o in outs]
      if got != want:
        model_mismatch(ctx, 'flip-model-mismatch', f'model flipSeq {got} vs flip_sequences {want} on {case}', case)

    batch.add(reqs, cb)


# ------------------------------------------------------------------------------------------------
# A2. mask combinators (exact, vs Lean)
# ------------------------------------------------------------------------------------------------

PAIR_FNS = {'mul': jnp.multiply, 'ge': jnp.greater_equal, 'eq': jnp.equal, 'gt': jnp.greater}
NP_FNS = {'mul': np.multiply, 'ge': np.greater_equal, 'eq': np.equal, 'gt': np.greater}


def gen_mask_cases(rng, thorough):
  cases = []
  for api in APIS:
    for n in range(1, 7):
      cases.append({'kind': 'causal-mask', 'api': api, 'n': n, 'B': 1 + n % 2, 'extra': n % 3})
  palette = [(rng.randrange(1, 6), rng.randrange(1, 6), rng.randrange(1, 3)) for _ in range(4 if not thorough else 30)]
  for _ in range(40 if not thorough else 800):
    lq, lk, B = rng.choice(palette)
    cases.append({
      'kind': 'attention-mask', 'api': rng.choice(APIS), 'fn': rng.choice(list(PAIR_FNS)),
      'q': [[rng.randrange(0, 4) for _ in range(lq)] for _ in range(B)],
      'k': [[rng.randrange(0, 4) for _ in range(lk)] for _ in range(B)], 'extra': rng.randrange(0, 3),
    })
  palette = [(rng.randrange(1, 5), rng.randrange(1, 5)) for _ in range(3 if not thorough else 16)]
  for _ in range(50 if not thorough else 1000):
    lq, lk = rng.choice(palette)
    n = rng.randrange(0, 5)
    ms = []
    for _ in range(n):
      if rng.random() < 0.3:
        ms.append(None)
      else:
        ms.append([[rng.choice([0, 0, 1, 1, 2, 5]) for _ in range(lk)] for _ in range(lq)])
    cases.append({'kind': 'combine-masks', 'api': rng.choice(APIS), 'masks': ms})
  return cases


def check_masks(ctx, batch, cases):
  for case in cases:
    am = attn_mod(case['api'])
    kind = case['kind']
    ctx.count('mask', f"{case['api']}-{kind}")
    if kind == 'causal-mask':
      n, B, extra = case['n'], case['B'], case['extra']
      ctx.case(case, nontrivial=n >= 2)
      r = call(am.make_causal_mask, jnp.ones((B, n)), extra_batch_dims=extra)
      if r[0] != 'ok':
        ctx.violation('causal-mask-raises', f'make_causal_mask raised {r[1]} on {case}', case)
        continue
      m = np.asarray(r[1])
      want_shape = (1,) * extra + (B, 1, n, n)
      want = (np.arange(n)[:, None] >= np.arange(n)[None, :]).astype(np.float32)
      if m.shape != want_shape or any(not np.array_equal(m.reshape(B, n, n)[b], want) for b in range(B)):
        ctx.violation('causal-mask-wrong', f'make_causal_mask(n={n}) is not the lower-triangular [..,1,n,n] mask: shape {m.shape}, {m.reshape(-1, n, n)[0].tolist()}', case)
        continue

      def cb(outs, case=case, got=ilist(m.reshape(B, n, n)[0])):
        if outs[0] != ('ok', got):
          model_mismatch(ctx, 'causal-mask-model-mismatch', f'model {outs[0]} vs impl {got} on {case}', case)

      batch.add([('make_causal_mask', [n])], cb)
    elif kind == 'attention-mask':
      q, k = np.array(case['q']), np.array(case['k'])
      ctx.case(case, nontrivial=True)
      r = call(am.make_attention_mask, jnp.asarray(q), jnp.asarray(k), PAIR_FNS[case['fn']], case['extra'])
      if r[0] != 'ok':
        ctx.violation('attention-mask-raises', f'make_attention_mask raised {r[1]} on {case}', case)
        continue
      m = np.asarray(r[1])
      B, lq, lk = q.shape[0], q.shape[1], k.shape[1]
      want = NP_FNS[case['fn']](q[:, :, None], k[:, None, :]).astype(np.float32)
      if m.shape != (1,) * case['extra'] + (B, 1, lq, lk) or not np.array_equal(m.reshape(B, lq, lk), want):
        ctx.violation('attention-mask-wrong', f'make_attention_mask is not pairwise_fn(q[i],k[j]) on {case}: {m.tolist()}', case)
        continue
      got = ilist(m.reshape(B, lq, lk))

      def cb(outs, case=case, got=got):
        mm = [o[1] if o[0] == 'ok' else o for o in outs]
        if mm != got:
          model_mismatch(ctx, 'attention-mask-model-mismatch', f'model {mm} vs impl {got} on {case}', case)

      batch.add([('make_attention_mask', [case['fn'], case['q'][b], case['k'][b]]) for b in range(B)], cb)
    elif kind == 'combine-masks':
      ms = case['masks']
      ctx.case(case, nontrivial=sum(m is not None for m in ms) >= 2)
      arrs = [None if m is None else jnp.asarray(np.array(m, dtype=np.float32)[None, None]) for m in ms]
      r = call(am.combine_masks, *arrs)
      present = [np.array(m) for m in ms if m is not None]
      if r[0] != 'ok':
        ctx.violation('combine-masks-raises', f'combine_masks raised {r[1]} on {case}', case)
        continue
      if not present:
        ok = r[1] is None
        got = None
      else:
        if r[1] is None:
          ok, got = False, None
        else:
          got = np.asarray(r[1])[0, 0]
          allowed = np.ones(present[0].shape, bool)
          for p in present:
            allowed &= p != 0
          ok = np.array_equal(got != 0, allowed) and (len(present) > 1 or np.array_equal(got, present[0]))
          got = ilist(got)
      if not ok:
        ctx.violation('combine-masks-not-conjunction', f'combine_masks{ms} = {got}: not None-iff-all-None / pointwise conjunction', dict(case, got=got))
        continue

      def cb(outs, case=case, got=got):
        if outs[0] != ('ok', got):
          model_mismatch(ctx, 'combine-masks-model-mismatch', f'model {outs[0]} vs impl {got} on {case}', case)

      batch.add([('combine_masks', [ms])], cb)


# ------------------------------------------------------------------------------------------------
# B. RNN / Bidirectional over a custom integer cell (exact, vs Lean rnn_batch / bidir_row)
# ------------------------------------------------------------------------------------------------


class IntCell(nn.RNNCellBase):
  """c1' = (a*c1 + x) % m ; c2' = (c2 + b*c1') % m ; y = c1' + 2*c2'   (Lean: Flax.Seq.affCell)"""

  a: int = 3
  b: int = 2
  m: int = 101

  @nn.compact
  def __call__(self, carry, x):
    c1, c2 = carry
    c1 = (self.a * c1 + x) % self.m
    c2 = (c2 + self.b * c1) % self.m
    return (c1, c2), c1 + 2 * c2

  @nn.nowrap
  def initialize_carry(self, rng, input_shape):
    z = jnp.zeros(input_shape, jnp.int32)
    return (z, z)

  @property
  def num_feature_axes(self):
    return 1


class IntCellX(x_rec.RNNCellBase):
  def __init__(self, a=3, b=2, m=101):
    self.a, self.b, self.m = a, b, m

  def __call__(self, carry, x):
    c1, c2 = carry
    c1 = (self.a * c1 + x) % self.m
    c2 = (c2 + self.b * c1) % self.m
    return (c1, c2), c1 + 2 * c2

  def initialize_carry(self, input_shape, rngs=None):
    z = jnp.zeros(input_shape, jnp.int32)
    return (z, z)

  @property
  def num_feature_axes(self):
    return 1


def np_int_cell(cell, c, x):
  a, b, m = cell
  c1 = (a * c[0] + x) % m
  c2 = (c[1] + b * c1) % m
  return (c1, c2), c1 + 2 * c2


FLAG_MODES = ('ctor', 'call', 'both', 'disagree')


def _flag_split(mode, name, value):
  """(constructor kwargs, call kwargs) so that the RESOLVED value of the flag is `value`: given to the constructor
  only, at call time only (constructor default), to both, or at call time over a disagreeing constructor value"""
  if mode == 'ctor':
    return {name: value}, {}
  if mode == 'call':
    return {}, {name: value}
  if mode == 'both':
    return {name: value}, {name: value}
  return {name: not value}, {name: value}


def gen_intrnn_cases(rng, thorough):
  cases = []
  n = 80 if not thorough else 6000
  npal = 2 if not thorough else 40
  palette = [(rng.randrange(1, 7), [rng.randrange(1, 4)], rng.randrange(1, 3)) for _ in range(npal)]
  pal2 = [(rng.randrange(3, 6), [2, 2], 1), (rng.randrange(3, 5), rng.choice([[2, 3], [3, 2]]), 1)]
  pal2 += [(rng.randrange(2, 6), [rng.randrange(1, 3), rng.randrange(2, 4)], 1) for _ in range(0 if not thorough else 8)]
  if not any(T >= 4 for T, _, _ in palette):
    palette[0] = (rng.randrange(4, 7), palette[0][1], palette[0][2])
  tq = rng.randrange(2, 5)
  square = (tq, [tq], 1)  # B == T: a wrong leading axis is silent here
  if palette[0][1][0] == palette[0][0]:  # and one shape with B != T for sure
    palette[0] = (palette[0][0] + 1, palette[0][1], palette[0][2])
  for i in range(n):
    bidir = rng.random() < 0.15
    T, bshape, F = rng.choice(pal2) if i % 4 == 3 else rng.choice(palette)
    tm_mode, rc_mode, tm_forced = rng.choice(FLAG_MODES), rng.choice(FLAG_MODES), None
    if i % 4 == 1:
      # structured sub-stream: where the flags come from (constructor, call, both, call overriding a DISAGREEING
      # constructor value in both directions) x {RNN, Bidirectional} x {Linen, NNX}, with B == T and B != T
      k = i // 4
      bidir = k % 2 == 0
      stage = (k // 4) % 5
      tm_mode = ('disagree', 'disagree', 'call', 'both', 'ctor')[stage]
      tm_forced = {0: True, 1: False}.get(stage)
      if stage == 0:
        T, bshape, F = square
      elif stage == 1:
        T, bshape, F = palette[0]
    bshape = list(bshape)
    nbat = int(np.prod(bshape))
    two = len(bshape) == 2
    lens = None if rng.random() < (0.1 if two else 0.2) else np.array([rng.randrange(1, T + 1) for _ in range(nbat)]).reshape(bshape).tolist()
    if two and lens is not None and bshape[0] >= 2 and bshape[1] >= 2:
      lens[0][1], lens[1][0] = 1, T  # not symmetric across the two batch axes
    x = np.array([rng.randrange(0, 60) for _ in range(nbat * T * F)]).reshape(bshape + [T, F]).tolist()
    c0 = None
    if rng.random() < 0.4:
      c0 = [np.array([rng.randrange(0, 40) for _ in range(nbat * F)]).reshape(bshape + [F]).tolist() for _ in range(2)]
    case = {
      'kind': 'int-bidir' if bidir else 'int-rnn', 'api': APIS[(i // 8) % 2] if i % 4 == 1 else rng.choice(APIS),
      'cell': [rng.randrange(1, 6), rng.randrange(1, 6), rng.choice([97, 101, 64])],
      'x': x, 'lens': lens, 'c0': c0, 'time_major': rng.random() < (0.5 if two else 0.35), 'return_carry': rng.random() < 0.7,
      'tm_mode': tm_mode, 'rc_mode': rc_mode,
    }
    if tm_forced is not None:
      case['time_major'] = tm_forced
    if bidir:
      case['cellb'] = [rng.randrange(1, 6), rng.randrange(1, 6), rng.choice([97, 101])]
      case['c0b'] = None if c0 is None else [np.array([rng.randrange(0, 40) for _ in range(nbat * F)]).reshape(bshape + [F]).tolist() for _ in range(2)]
    else:
      case['reverse'] = rng.random() < (0.7 if two else 0.5)
      case['keep_order'] = rng.random() < 0.5
      case['flags_in_call'] = rng.random() < 0.5
    cases.append(case)
  return cases


def _mk_rnn(api, cell, **kw):
  if api == 'linen':
    return nn.RNN(IntCell(*cell), **kw)
  return nnx.RNN(IntCellX(*cell), **kw)


def _run_rnn(api, layer, x, **kw):
  if api == 'linen':
    return layer.apply({}, x, **kw)
  return layer(x, **kw)


def check_intrnn(ctx, batch, cases):
  for case in cases:
    api = case['api']
    x = np.array(case['x'], dtype=np.int32)  # [*batch, T, F]
    nb = x.ndim - 2
    T, F = x.shape[-2], x.shape[-1]
    bshape = x.shape[:nb]
    nbat = int(np.prod(bshape))
    tm = case['time_major']
    lens = None if case['lens'] is None else np.array(case['lens'], dtype=np.int32)
    rc = case['return_carry']
    bidir = case['kind'] == 'int-bidir'
    xin = np.moveaxis(x, nb, 0) if tm else x
    kw = {}
    if lens is not None:
      kw['seq_lengths'] = jnp.asarray(lens)
    if case['c0'] is not None:
      c0 = tuple(jnp.asarray(np.array(c, dtype=np.int32)) for c in case['c0'])
      if bidir:
        c0b = tuple(jnp.asarray(np.array(c, dtype=np.int32)) for c in case['c0b'])
        kw['initial_carry'] = (c0, c0b)
      else:
        kw['initial_carry'] = c0
    # where the flags come from; the call-time value wins (older corpus cases: constructor, or `flags_in_call`)
    tm_mode = case.get('tm_mode', 'call' if case.get('flags_in_call') else 'ctor')
    rc_mode = case.get('rc_mode', 'call' if case.get('flags_in_call') else 'ctor')
    ck_tm, kk_tm = _flag_split(tm_mode, 'time_major', tm)
    ck_rc, kk_rc = _flag_split(rc_mode, 'return_carry', rc)
    ckw = {**ck_tm, **ck_rc}
    kw.update(kk_tm)
    kw.update(kk_rc)
    if bidir:
      mk = nn.Bidirectional if api == 'linen' else nnx.Bidirectional
      layer = mk(_mk_rnn(api, case['cell']), _mk_rnn(api, case['cellb']), **ckw)
      rev = keep = None
    else:
      rev, keep = case['reverse'], case['keep_order']
      if case['flags_in_call']:
        kw.update(reverse=rev, keep_order=keep)
      else:
        ckw.update(reverse=rev, keep_order=keep)
      layer = _mk_rnn(api, case['cell'], **ckw)
    with jax.disable_jit():
      r = call(_run_rnn, api, layer, jnp.asarray(xin), **kw)
    padded = lens is not None and bool((lens < T).any())
    ctx.case(case, nontrivial=T >= 2)
    ctx.count('int_rnn', f"{api}{'-bidir' if bidir else ''}{'-tm' if tm else ''}{'-rev' if rev else ''}{'-keep' if keep else ''}{'-carry' if rc else ''}{'-padded' if padded else ''}-nb{nb}")
    ctx.count('flag_source', f"{api}-{'bidir' if bidir else 'rnn'}-tm={tm_mode}{'->' + str(tm)[0] if tm_mode == 'disagree' else ''}-{'B=T' if nb == 1 and bshape[0] == T else 'B!=T'}")
    if r[0] != 'ok':
      key = 'rnn-raises' + ('-multi-batch-seq-lengths-carry' if nb > 1 and lens is not None and (rc or bidir) else '')
      ctx.violation(key, f'{api} {"Bidirectional" if bidir else "RNN"} raised {r[1]} on batch shape {bshape}, T={T}, lens={case["lens"]}, resolved flags time_major={tm} (given: {tm_mode}) rev={rev} keep={keep} return_carry={rc} (given: {rc_mode})', case)
      continue
    if rc:
      carry, out = r[1]
    else:
      carry, out = None, r[1]
    out = np.asarray(out)
    if tm:
      out = np.moveaxis(out, 0, nb)
    want_shape = tuple(bshape) + (T, 2 * F if bidir else F)
    flat_lens = [None] * nbat if lens is None else lens.reshape(-1).tolist()
    xs = x.reshape(nbat, T, F)
    c0f = np.zeros((2, nbat, F), np.int64) if case['c0'] is None else np.array(case['c0']).reshape(2, nbat, F)
    c0bk = None
    if bidir:
      c0bk = np.zeros((2, nbat, F), np.int64) if case['c0b'] is None else np.array(case['c0b']).reshape(2, nbat, F)

    # ---- property oracle: the Python loop over the valid inputs (stepwise = whole; padding inert; re-indexing)
    def loop(cell, c, seq):
      ys = []
      for v in seq:
        c, y = np_int_cell(cell, c, v)
        ys.append(y)
      return c, ys

    problems = []
    if out.shape != want_shape:
      problems.append(f'output shape {out.shape} instead of {want_shape}')
    else:
      outs = out.reshape(nbat, T, -1)

      def carry_leaf(tree, k):
        return np.asarray(tree[k]).reshape(nbat, F)

      if rc:
        leaves = jax.tree_util.tree_leaves(carry)
        bad_shapes = [tuple(np.shape(a)) for a in leaves if tuple(np.shape(a)) != tuple(bshape) + (F,)]
        if bad_shapes or len(leaves) != (4 if bidir else 2):
          problems.append(f'returned carry leaves have shapes {[tuple(np.shape(a)) for a in leaves]}, expected {tuple(bshape) + (F,)} each')
      for b in range(nbat if not problems else 0):
        l = T if flat_lens[b] is None else flat_lens[b]
        for f in range(F):
          seq = xs[b, :l, f].tolist()
          if bidir:
            cf, yf = loop(case['cell'], (int(c0f[0, b, f]), int(c0f[1, b, f])), seq)
            cb_, yb = loop(case['cellb'], (int(c0bk[0, b, f]), int(c0bk[1, b, f])), seq[::-1])
            yb = yb[::-1]
            if outs[b, :l, f].tolist() != yf or outs[b, :l, F + f].tolist() != yb:
              problems.append(f'row {b} feature {f}: valid outputs {outs[b, :l, f].tolist()}|{outs[b, :l, F + f].tolist()} != forward loop {yf} | backward loop (input order) {yb}')
            if rc and carry is not None:
              gotc = (tuple(int(carry_leaf(carry[0], k)[b, f]) for k in (0, 1)), tuple(int(carry_leaf(carry[1], k)[b, f]) for k in (0, 1)))
              if gotc != (cf, cb_):
                problems.append(f'row {b} feature {f}: carry {gotc} != loop carries {(cf, cb_)}')
          else:
            cT, ys = loop(case['cell'], (int(c0f[0, b, f]), int(c0f[1, b, f])), seq[::-1] if rev else seq)
            if rev and keep:
              ys = ys[::-1]
            if outs[b, :l, f].tolist() != ys:
              problems.append(f'row {b} feature {f}: valid outputs {outs[b, :l, f].tolist()} != Python loop {ys}')
            if rc:
              gotc = tuple(int(carry_leaf(carry, k)[b, f]) for k in (0, 1))
              if gotc != cT:
                problems.append(f'row {b} feature {f}: final carry {gotc} != loop carry after the last valid input {cT}')
    if problems:
      key = 'rnn-bidir-wrong' if bidir else 'rnn-not-loop'
      if nb > 1 and lens is not None and rc:
        key += '-multi-batch-seq-lengths-carry'
      ctx.violation(key, f'{api} {"Bidirectional" if bidir else "RNN"} (time_major={tm} given as {tm_mode}, return_carry given as {rc_mode}, rev={rev} keep={keep} lens={case["lens"]}): ' + '; '.join(problems[:3]), case)
      continue

    # ---- model
    outs = out.reshape(nbat, T, -1)
    reqs, want = [], []
    if bidir:
      for b in range(nbat):
        for f in range(F):
          reqs.append(('bidir_row', [case['cell'], case['cellb'], c0f[:, b, f].tolist(), c0bk[:, b, f].tolist(), xs[b, :, f].tolist(), flat_lens[b]]))
          w_out = [[int(outs[b, t, f]), int(outs[b, t, F + f])] for t in range(T)]
          if rc:
            w_c = [[int(np.asarray(carry[d][k]).reshape(nbat, F)[b, f]) for k in (0, 1)] for d in (0, 1)]
          else:
            w_c = None
          want.append((w_c, w_out))

      def cb(outs_, case=case, want=want):
        for o, (w_c, w_out) in zip(outs_, want):
          if o[0] != 'ok' or o[1][1] != w_out or (w_c is not None and o[1][0] != w_c):
            model_mismatch(ctx, 'bidir-model-mismatch', f'model {o} vs impl carry={w_c} out={w_out} on {case}', case)
            return

      batch.add(reqs, cb)
    else:
      for f in range(F):
        rows = xs[:, :, f]
        inputs = rows.T.tolist() if tm else rows.tolist()
        reqs.append(('rnn_batch', [case['cell'], tm, T, c0f[:, :, f].T.tolist(), inputs, None if lens is None else flat_lens, rev, keep]))
        w_out = outs[:, :, f].T.tolist() if tm else outs[:, :, f].tolist()
        w_c = [[int(np.asarray(carry[k]).reshape(nbat, F)[b, f]) for k in (0, 1)] for b in range(nbat)] if rc else None
        want.append((w_c, w_out))

      def cb(outs_, case=case, want=want):
        for o, (w_c, w_out) in zip(outs_, want):
          if o[0] != 'ok' or o[1][1] != w_out or (w_c is not None and o[1][0] != w_c):
            model_mismatch(ctx, 'rnn-model-mismatch', f'model {o} vs impl carry={w_c} out={w_out} on {case}', case)
            return

      batch.add(reqs, cb)


# ------------------------------------------------------------------------------------------------
# A3. decode cache vs causal whole-sequence run, observed through `attention_fn` (exact, vs Lean)
# ------------------------------------------------------------------------------------------------


MASK_STYLES = ('pad', 'random', 'leq', 'none')


def _user_step_masks(rng, style, B, T):
  """per-step user masks [T][B][max_length=T] for decoding: 'pad' = the same key-padding mask at every step (a
  right-padded batch: it allows not-yet-written cache slots), 'random' = arbitrary rows, 'leq' = rows that already
  encode j <= t; position t itself (resp. position 0 for 'pad') stays allowed so every query sees something."""
  if style == 'none':
    return None
  if style == 'pad':
    lens = [rng.randrange(1, T + 1) for _ in range(B)]
    if T >= 3:
      lens[0] = rng.randrange(3, T + 1)  # at least one row whose mask exposes unwritten slots at the first steps
    return [[[1 if j < lens[b] else 0 for j in range(T)] for b in range(B)] for t in range(T)]
  if style == 'leq':
    return [[[1 if (j == t or (j < t and rng.random() < 0.8)) else 0 for j in range(T)] for _ in range(B)] for t in range(T)]
  return [[[1 if (j == t or rng.random() < 0.7) else 0 for j in range(T)] for _ in range(B)] for t in range(T)]


def gen_decode_trace_cases(rng, thorough):
  cases = []
  pal = shared_pal(rng, thorough, 'attn')
  for _ in range(4 if not thorough else 250):
    B, T, F, H, D = rng.choice(pal)
    L = T
    i = len(cases)
    user = _user_step_masks(rng, MASK_STYLES[(i // 2) % len(MASK_STYLES)], B, T)
    bias = None
    if rng.random() < 0.5:
      bias = [[[[rng.randrange(-2, 3) for _ in range(L)] for _ in range(H)] for _ in range(B)] for t in range(T)]
    cases.append({
      'kind': 'decode-trace', 'api': APIS[len(cases) % 2], 'B': B, 'T': T, 'F': F, 'H': H, 'D': D,
      'pseed': rng.randrange(10**6), 'x': [[[rng.randrange(-3, 4) for _ in range(F)] for _ in range(T)] for _ in range(B)],
      'user': user, 'bias': bias,
    })
  return cases


def _int_tree(tree, seed, lo=-2, hi=3):
  rs = np.random.default_rng(seed)
  leaves, td = jax.tree_util.tree_flatten(tree)
  return jax.tree_util.tree_unflatten(td, [jnp.asarray(rs.integers(lo, hi, np.shape(l)), jnp.float32) for l in leaves])


def _float_tree(tree, seed, scale=0.5):
  rs = np.random.default_rng(seed)
  leaves, td = jax.tree_util.tree_flatten(tree)
  return jax.tree_util.tree_unflatten(td, [jnp.asarray(rs.normal(0, scale, np.shape(l)), jnp.float32) for l in leaves])


def _mha_params(F, H, D, seed, integer, qk_norm=False):
  """Parameters of an attention layer in Linen layout: {query,key,value: {kernel[F,H,D], bias[H,D]}, out: {kernel[H,D,F], bias[F]}};
  with `qk_norm` also {query_ln, key_ln: {scale[D]}} with distinct non-unit scales (normalize_qk=True). Every parameter
  is randomised: nothing is left at its (symmetric) initial value."""
  proto = {
    'query': {'kernel': np.zeros((F, H, D)), 'bias': np.zeros((H, D))},
    'key': {'kernel': np.zeros((F, H, D)), 'bias': np.zeros((H, D))},
    'value': {'kernel': np.zeros((F, H, D)), 'bias': np.zeros((H, D))},
    'out': {'kernel': np.zeros((H, D, F)), 'bias': np.zeros((F,))},
  }
  tree = _int_tree(proto, seed) if integer else _float_tree(proto, seed)
  if qk_norm:
    rs = np.random.default_rng(seed + 101)
    tree['query_ln'] = {'scale': jnp.asarray(rs.uniform(0.4, 2.5, (D,)).astype(np.float32))}
    tree['key_ln'] = {'scale': jnp.asarray(-rs.uniform(0.4, 2.5, (D,)).astype(np.float32))}
  return tree


def _nnx_mha(F, H, D, params, **kw):
  qk = 'query_ln' in params
  m = nnx.MultiHeadAttention(num_heads=H, in_features=F, qkv_features=H * D, normalize_qk=qk, rngs=nnx.Rngs(0), **kw)
  for name in ('query', 'key', 'value', 'out'):
    getattr(m, name).kernel.value = params[name]['kernel']
    getattr(m, name).bias.value = params[name]['bias']
  if qk:
    m.query_ln.scale.value = params['query_ln']['scale']
    m.key_ln.scale.value = params['key_ln']['scale']
  return m


def _linen_mha(H, D, params, **kw):
  return nn.MultiHeadDotProductAttention(num_heads=H, qkv_features=H * D, normalize_qk='query_ln' in params, **kw)


def _mha_decode(api, F, H, D, params, xx, step_kw, jitted=None, junk_seed=None):
  """feeds xx [B,T,F] one position at a time through the layer with decode=True (max_length = T); with `junk_seed`
  the freshly initialised cached_key / cached_value arrays are overwritten with finite junk first (cache_index stays 0)"""
  T = xx.shape[1]
  outs = []
  junk = lambda a, k: jnp.asarray(np.random.default_rng(junk_seed + k).normal(0, 3, np.shape(a)).astype(np.float32))
  if api == 'linen':
    dec = _linen_mha(H, D, params, decode=True)
    cache = dec.init(jax.random.key(0), jnp.asarray(xx))['cache']
    if junk_seed is not None:
      cache = {'cached_key': junk(cache['cached_key'], 0), 'cached_value': junk(cache['cached_value'], 1), 'cache_index': cache['cache_index']}
    jitted = {} if jitted is None else jitted
    if 'step' not in jitted:  # one trace for all steps (and for the paired run)
      jitted['step'] = jax.jit(lambda c, xt, kw: dec.apply({'params': params, 'cache': c}, xt, mutable=['cache'], **kw))
    for t in range(T):
      y, mut = jitted['step'](cache, jnp.asarray(xx[:, t : t + 1]), step_kw(t))
      cache = mut['cache']
      outs.append(np.asarray(y))
  else:
    dec = _nnx_mha(F, H, D, params, decode=True)
    dec.init_cache(xx.shape)
    if junk_seed is not None:
      dec.cached_key.value = junk(dec.cached_key.value, 0)
      dec.cached_value.value = junk(dec.cached_value.value, 1)
    for t in range(T):
      outs.append(np.asarray(dec(jnp.asarray(xx[:, t : t + 1]), **step_kw(t))))
  return np.concatenate(outs, axis=1)


EPS32 = 2.0 ** -24  # float32 unit roundoff
QK_WCAP = 2e-2      # a normalize_qk case is used only if its rounding bound on the attention weights is below this
QK_OCAP = 3e-2      # ... and on the layer outputs below this (a wrong LayerNorm moves both by O(0.1 - 1))


def _ln_with_err(x, absx, scale, nterms, eps=1e-6):
  """Exact (float64) LayerNorm(use_bias=False) over the last axis of the exact projections `x`, together with a
  first-order bound on the absolute error of a float32 evaluation by flax's formula
  `var = max(0, E[x^2] - E[x]^2); y = (x - mean) * rsqrt(var + eps) * scale`, whose subtraction cancels when the
  components of a head are close (head_dim = 2: var = ((a-b)/2)^2). `absx` = sum |x_f||W_f| + |b| bounds the
  rounding of the float32 projection itself (`nterms` additions). Returns (y, err_y, hopeless)."""
  D = x.shape[-1]
  ux = (nterms + 1) * EPS32 * absx
  mean = x.mean(-1, keepdims=True)
  msq = (x * x).mean(-1, keepdims=True)
  var = np.maximum(msq - mean * mean, 0.0)
  u = ux.max(-1, keepdims=True) + 2 * EPS32 * np.abs(x).max(-1, keepdims=True)
  dvar = (D + 3) * EPS32 * msq + 4 * np.sqrt(var) * u + 4 * u * u
  den = var + eps
  hopeless = bool((dvar >= 0.5 * den).any())
  c = x - mean
  yhat = c / np.sqrt(den)
  ey = (2 * u + np.abs(c) * dvar / den) / np.sqrt(den) + 4 * EPS32 * np.abs(yhat)
  sc = np.asarray(scale, np.float64)
  return yhat * sc, ey * np.abs(sc), hopeless


def _qk_conditioning(params, xq, xk, D):
  """normalize_qk reference in float64 plus rounding bounds: `wbound` on any attention weight, `obound` on any
  output element of the layer (both for ONE float32 evaluation against exact arithmetic)."""
  P = {n: (np.asarray(v['kernel'], np.float64), np.asarray(v['bias'], np.float64)) for n, v in params.items() if 'kernel' in v}

  def proj(x, n):
    x = np.asarray(x, np.float64)
    y = np.einsum('btf,fhd->bthd', x, P[n][0]) + P[n][1]
    a = np.einsum('btf,fhd->bthd', np.abs(x), np.abs(P[n][0])) + np.abs(P[n][1])
    return y, a

  q, aq = proj(xq, 'query')
  k, ak = proj(xk, 'key')
  v, _ = proj(xk, 'value')
  F = np.shape(xq)[-1]
  qh, eq, b1 = _ln_with_err(q, aq, params['query_ln']['scale'], F)
  kh, ek, b2 = _ln_with_err(k, ak, params['key_ln']['scale'], F)
  e = (np.einsum('bqhd,bkhd->bhqk', np.abs(qh), ek) + np.einsum('bqhd,bkhd->bhqk', eq, np.abs(kh))
       + np.einsum('bqhd,bkhd->bhqk', eq, ek)) / math.sqrt(D)
  if b1 or b2:
    return {'q': qh, 'k': kh, 'wbound': math.inf, 'obound': math.inf}
  wbound = float(np.expm1(2 * e.max()))  # |dw_i| = w_i |dz_i - sum_j w_j dz_j| <= 2 max|dz|, with second-order slack
  obound = wbound * float(np.einsum('bhd,hdf->bf', np.abs(v).sum(axis=1), np.abs(P['out'][0])).max())
  return {'q': qh, 'k': kh, 'wbound': wbound, 'obound': obound}


def _qk_wellconditioned_inputs(ctx, params, D, make_inputs, what, attempts=6):
  """Draws inputs (attempt 0 is the case's own data) until the rounding bounds are below the caps; returns
  (inputs, conditioning) or (None, None) when every attempt is ill-conditioned (counted, never a verdict)."""
  for a in range(attempts):
    inputs = make_inputs(a)
    cond = _qk_conditioning(params, inputs[0], inputs[-1], D)
    if cond['wbound'] <= QK_WCAP and 2 * cond['obound'] <= QK_OCAP:
      ctx.count('qk_norm_conditioning', f'{what}-ok' if a == 0 else f'{what}-regenerated')
      return inputs, cond
  ctx.count('qk_norm_conditioning', f'{what}-skipped_ill_conditioned')
  ctx.extra['skipped_ill_conditioned'] = ctx.extra.get('skipped_ill_conditioned', 0) + 1
  return None, None


def check_decode_trace(ctx, batch, cases):
  for case in cases:
    api, B, T, F, H, D = case['api'], case['B'], case['T'], case['F'], case['H'], case['D']
    L = T
    x = np.array(case['x'], dtype=np.float32)
    params = _mha_params(F, H, D, case['pseed'], integer=True)
    calls = []

    def cap(query, key, value, bias=None, mask=None, **kw):
      calls.append(tuple(None if a is None else np.asarray(a) for a in (query, key, value, bias, mask)))
      return jnp.zeros(query.shape[:-1] + (value.shape[-1],), query.dtype)

    user = None if case['user'] is None else np.array(case['user'], dtype=np.float32)  # [T,B,L]
    bias = None if case['bias'] is None else np.array(case['bias'], dtype=np.float32)  # [T,B,H,L]
    ctx.case(case, nontrivial=T >= 2)
    ctx.count('decode_trace', f"{api}{'-mask' if user is not None else ''}{'-bias' if bias is not None else ''}-H{H}")

    def step_kw(t):
      kw = {}
      if user is not None:
        kw['mask'] = jnp.asarray(user[t][:, None, None, :])
      if bias is not None:
        kw['attention_bias'] = jnp.asarray(bias[t][:, :, None, :])
      return kw

    # whole-sequence arguments built with flax's own helpers
    am = attn_mod(api)
    causal4 = am.make_causal_mask(jnp.ones((B, T)))
    whole_mask = causal4 if user is None else am.combine_masks(jnp.asarray(np.transpose(user, (1, 0, 2))[:, None, :, :]), causal4)
    whole_bias = None if bias is None else jnp.asarray(np.transpose(bias, (1, 2, 0, 3)))  # [B,H,T,L]

    def run():
      idx = []
      if api == 'linen':
        dec = nn.MultiHeadDotProductAttention(num_heads=H, qkv_features=H * D, attention_fn=cap, decode=True)
        cache = dec.init(jax.random.key(0), jnp.asarray(x))['cache']
        calls.clear()
        for t in range(T):
          _, mut = dec.apply({'params': params, 'cache': cache}, jnp.asarray(x[:, t : t + 1]), mutable=['cache'], **step_kw(t))
          cache = mut['cache']
          idx.append(int(cache['cache_index']))
        full = nn.MultiHeadDotProductAttention(num_heads=H, qkv_features=H * D, attention_fn=cap)
        full.apply({'params': params}, jnp.asarray(x), mask=whole_mask, attention_bias=whole_bias)
      else:
        dec = _nnx_mha(F, H, D, params, attention_fn=cap, decode=True)
        dec.init_cache(x.shape)
        for t in range(T):
          dec(jnp.asarray(x[:, t : t + 1]), **step_kw(t))
          idx.append(int(dec.cache_index.value))
        full = _nnx_mha(F, H, D, params, attention_fn=cap, decode=False)
        full(jnp.asarray(x), mask=whole_mask, attention_bias=whole_bias)
      return idx

    with jax.disable_jit():
      r = call(run)
    if r[0] != 'ok' or len(calls) != T + 1:
      ctx.violation('decode-raises', f'{api} attention decode/whole run raised {r[1]} ({len(calls)} attention_fn calls) on B={B} T={T} H={H}', case)
      continue
    idx = r[1]
    # independent integer projections
    P = {k: (np.asarray(v['kernel']).astype(np.int64), np.asarray(v['bias']).astype(np.int64)) for k, v in params.items()}
    xi = x.astype(np.int64)
    proj = {k: np.einsum('btf,fhd->bthd', xi, P[k][0]) + P[k][1] for k in ('query', 'key', 'value')}
    tokens = {(0,) * D: 0}

    def tok(v):
      return tokens.setdefault(tuple(int(a) for a in np.ravel(v)), len(tokens))

    def visible_of(q, k, v, b, m, b_, h, qi):
      """allowed ([q,k,bias], v) tuples of one (batch, head, query) as the attention function received them"""
      Lk = k.shape[1]
      out = []
      for j in range(Lk):
        allowed = True if m is None else bool(np.broadcast_to(m, (B, H, q.shape[1], Lk))[b_, h, qi, j] != 0)
        if allowed:
          bj = 0 if b is None else int(np.broadcast_to(b, (B, H, q.shape[1], Lk))[b_, h, qi, j])
          out.append([[tok(q[b_, qi, h]), tok(k[b_, j, h]), bj], tok(v[b_, j, h])])
      return out

    reqs, want_dec, want_whole = [], [], []
    oracle_bad = None
    for b_ in range(B):
      for h in range(H):
        dec_rows = [visible_of(*calls[t], b_, h, 0) for t in range(T)]
        whole_rows = [visible_of(*calls[T], b_, h, i) for i in range(T)]
        if dec_rows != whole_rows and oracle_bad is None:
          oracle_bad = (b_, h, dec_rows, whole_rows)
        qs = [tok(proj['query'][b_, t, h]) for t in range(T)]
        kvs = [[tok(proj['key'][b_, t, h]), tok(proj['value'][b_, t, h])] for t in range(T)]
        bm = [[0] * L for _ in range(T)] if bias is None else [[int(bias[t][b_][h][j]) for j in range(L)] for t in range(T)]
        um = [[1] * L for _ in range(T)] if user is None else [[int(user[t][b_][j]) for j in range(L)] for t in range(T)]
        reqs.append(('decode', [L, qs, kvs, bm, um]))
        reqs.append(('attn_causal', [qs, kvs, bm, um]))
        want_dec.append(dec_rows)
        want_whole.append(whole_rows)
    if oracle_bad is not None or idx != list(range(1, T + 1)):
      b_, h, dr, wr = oracle_bad if oracle_bad else (None, None, None, None)
      ctx.violation(
        'decode-not-causal',
        f'{api} decode step-by-step does not see the same allowed (query,key,bias,value) tuples as the causal whole-sequence run '
        f'(batch {b_}, head {h}): decode {dr} vs whole {wr}; cache_index after each step {idx}', case)
      continue
    reqs.append(('decode_cache', [L, [[1, 1]] * T]))

    def cb(outs, case=case, want_dec=want_dec, want_whole=want_whole, T=T):
      for i, (wd, ww) in enumerate(zip(want_dec, want_whole)):
        if outs[2 * i] != ('ok', wd) or outs[2 * i + 1] != ('ok', ww):
          model_mismatch(ctx, 'decode-model-mismatch', f'model decode {outs[2*i]} / causal {outs[2*i+1]} vs impl {wd} / {ww} on {case}', case)
          return
      last = outs[-1]
      if last[0] != 'ok' or last[1][1] != T:
        model_mismatch(ctx, 'decode-index-model-mismatch', f'model cache index {last} vs impl {T}', case)

    batch.add(reqs, cb)


# ------------------------------------------------------------------------------------------------
# C. the real cells
# ------------------------------------------------------------------------------------------------

LINEN_CELLS = {
  'Simple': lambda H, **kw: nn.SimpleCell(H, **kw),
  'SimpleRes': lambda H, **kw: nn.SimpleCell(H, residual=True, **kw),
  'LSTM': lambda H, **kw: nn.LSTMCell(H, **kw),
  'OptLSTM': lambda H, **kw: nn.OptimizedLSTMCell(H, **kw),
  'GRU': lambda H, **kw: nn.GRUCell(H, **kw),
  'MGU': lambda H, **kw: nn.MGUCell(H, **kw),
  'MGUnoreset': lambda H, **kw: nn.MGUCell(H, reset_gate=False, **kw),
}
NNX_CELLS = {
  'Simple': lambda F, H, **kw: nnx.SimpleCell(F, H, rngs=nnx.Rngs(0), **kw),
  'SimpleRes': lambda F, H, **kw: nnx.SimpleCell(F, H, residual=True, rngs=nnx.Rngs(0), **kw),
  'LSTM': lambda F, H, **kw: nnx.LSTMCell(F, H, rngs=nnx.Rngs(0), **kw),
  'OptLSTM': lambda F, H, **kw: nnx.OptimizedLSTMCell(F, H, rngs=nnx.Rngs(0), **kw),
  'GRU': lambda F, H, **kw: nnx.GRUCell(F, H, rngs=nnx.Rngs(0), **kw),
}
PAIR_CARRY = ('LSTM', 'OptLSTM')


def cell_names(api):
  return list(LINEN_CELLS if api == 'linen' else NNX_CELLS)


def _supports(name, key):
  return not (name.startswith('Simple') and key == 'gate_fn')


def canon_params(name, F, H, seed, integer):
  """Cell parameters in a neutral layout: dict unit-name -> (kernel[in,out], bias[out] or None)."""
  rs = np.random.default_rng(seed)

  def mk(i, o, bias):
    if integer:
      return (rs.integers(-1, 2, (i, o)).astype(np.float32), rs.integers(-1, 2, (o,)).astype(np.float32) if bias else None)
    return (rs.normal(0, 0.6, (i, o)).astype(np.float32), rs.normal(0, 0.6, (o,)).astype(np.float32) if bias else None)

  if name.startswith('Simple'):
    return {'i': mk(F, H, True), 'h': mk(H, H, False)}
  if name in PAIR_CARRY:
    return {**{'i' + g: mk(F, H, False) for g in 'ifgo'}, **{'h' + g: mk(H, H, True) for g in 'ifgo'}}
  if name == 'GRU':
    return {'ir': mk(F, H, True), 'iz': mk(F, H, True), 'in': mk(F, H, True), 'hr': mk(H, H, False), 'hz': mk(H, H, False), 'hn': mk(H, H, True)}
  if name.startswith('MGU'):
    return {'if': mk(F, H, True), 'in': mk(F, H, True), 'hf': mk(H, H, False), 'hn': mk(H, H, name == 'MGU')}
  raise ValueError(name)


def linen_params(cp):
  return {k: ({'kernel': jnp.asarray(w)} if b is None else {'kernel': jnp.asarray(w), 'bias': jnp.asarray(b)}) for k, (w, b) in cp.items()}


def nnx_load(cell, name, cp):
  """Writes the neutral parameters into an NNX cell (NNX GRU has no b_hn: the caller passes zeros there)."""
  def put(lin, w, b=None):
    lin.kernel.value = jnp.asarray(w)
    if b is not None:
      lin.bias.value = jnp.asarray(b)

  if name.startswith('Simple'):
    put(cell.dense_i, *cp['i'])
    put(cell.dense_h, cp['h'][0])
  elif name == 'LSTM':
    for g, attr in (('i', 'ii'), ('f', 'if_'), ('g', 'ig'), ('o', 'io')):
      put(getattr(cell, attr), cp['i' + g][0])
      put(getattr(cell, 'h' + g), *cp['h' + g])
  elif name == 'OptLSTM':
    put(cell.dense_i, np.concatenate([cp['i' + g][0] for g in 'ifgo'], axis=1))
    put(cell.dense_h, np.concatenate([cp['h' + g][0] for g in 'ifgo'], axis=1), np.concatenate([cp['h' + g][1] for g in 'ifgo']))
  elif name == 'GRU':
    put(cell.dense_i, np.concatenate([cp['i' + g][0] for g in 'rzn'], axis=1), np.concatenate([cp['i' + g][1] for g in 'rzn']))
    put(cell.dense_h, np.concatenate([cp['h' + g][0] for g in 'rzn'], axis=1))
  else:
    raise ValueError(name)


def np_cell_step(name, cp, carry, x, sig, tanh):
  """The documented recurrences, written independently in NumPy (float64 or exact ints)."""
  def lin(k, v):
    w, b = cp[k]
    y = v @ w.astype(v.dtype)
    return y if b is None else y + b.astype(v.dtype)

  if name.startswith('Simple'):
    h = carry
    pre = lin('i', x) + lin('h', h)
    if name == 'SimpleRes':
      pre = pre + h
    new = tanh(pre)
    return new, new
  if name in PAIR_CARRY:
    c, h = carry
    i = sig(lin('ii', x) + lin('hi', h))
    f = sig(lin('if', x) + lin('hf', h))
    g = tanh(lin('ig', x) + lin('hg', h))
    o = sig(lin('io', x) + lin('ho', h))
    nc = f * c + i * g
    nh = o * tanh(nc)
    return (nc, nh), nh
  if name == 'GRU':
    h = carry
    r = sig(lin('ir', x) + lin('hr', h))
    z = sig(lin('iz', x) + lin('hz', h))
    n = tanh(lin('in', x) + r * lin('hn', h))
    new = (1 - z) * n + z * h
    return new, new
  if name.startswith('MGU'):
    h = carry
    f = sig(lin('if', x) + lin('hf', h))
    xh = lin('hn', h)
    if name == 'MGU':
      xh = xh * f
    n = tanh(lin('in', x) + xh)
    new = (1 - f) * n + f * h
    return new, new
  raise ValueError(name)


def _mk_cell(api, name, F, H, cp, **kw):
  """returns (cell, variables-or-None)"""
  if api == 'linen':
    return LINEN_CELLS[name](H, **kw), {'params': linen_params(cp)}
  cell = NNX_CELLS[name](F, H, **kw)
  nnx_load(cell, name, cp)
  return cell, None


def _cell_step(api, cell, variables, carry, x):
  if api == 'linen':
    return cell.apply(variables, carry, x)
  return cell(carry, x)


_STEP_CACHE = {}


def _stepper(api, name, F, H, cellvar):
  """(carry, x) -> (carry, y) for one time step of the cell on a batch. The Linen module instance holds no
  parameters, so its jitted apply is shared between cases of the same (cell, F, H)."""
  cell, var = cellvar
  if api == 'linen':
    key = (name, F, H)
    if key not in _STEP_CACHE:
      proto = LINEN_CELLS[name](H)
      _STEP_CACHE[key] = jax.jit(lambda v, c, x: proto.apply(v, c, x))
    fn = _STEP_CACHE[key]
    return lambda c, x: fn(var, c, x)
  key = ('nnx', name, F, H)
  graphdef, state = nnx.split(cell)
  if key not in _STEP_CACHE:
    _STEP_CACHE[key] = jax.jit(lambda st, c, x, gd=graphdef: nnx.merge(gd, st)(c, x))
  fn = _STEP_CACHE[key]
  return lambda c, x: fn(state, c, x)


def _carry_to_np(c):
  return jax.tree_util.tree_map(lambda a: np.asarray(a), c)


def gen_cellstep_cases(rng, thorough):
  cases = []
  shapes = [(rng.randrange(1, 4), rng.randrange(1, 4)) for _ in range(1 if not thorough else 9)]
  for api in APIS:
    for name in cell_names(api):
      for (F, H) in shapes:
        for rep in range(1 if not thorough else 6):
          B = 2
          mk = lambda *sh: np.array([rng.randrange(-2, 3) for _ in range(int(np.prod(sh)))]).reshape(sh).tolist()
          cases.append({'kind': 'cell-step', 'api': api, 'cell': name, 'F': F, 'H': H, 'pseed': rng.randrange(10**6),
                        'x': mk(B, F), 'h': mk(B, H), 'c': mk(B, H)})
  return cases


SIG_I = lambda v: v + 1
TAU_I = lambda v: 2 * v - 1


def _lean_cell_req(name, api, cp, c, h, x):
  """One Lean request per batch row; kernels go over transposed ([out][in])."""
  T_ = lambda w: np.asarray(w).astype(np.int64).T.tolist()
  V_ = lambda b, n: [0] * n if b is None else np.asarray(b).astype(np.int64).tolist()
  H = len(h)
  if name.startswith('Simple'):
    return ('simple', [{'i': T_(cp['i'][0]), 'bi': V_(cp['i'][1], H), 'h': T_(cp['h'][0])}, h, x, name == 'SimpleRes'])
  if name in PAIR_CARRY:
    o = {}
    for g in 'ifgo':
      o['i' + g] = T_(cp['i' + g][0])
      o['h' + g] = T_(cp['h' + g][0])
      o['b' + g] = V_(cp['h' + g][1], H)
    if name == 'LSTM':
      return ('lstm', [o, c, h, x])
    return ('lstm_opt', [o, c, h, x, api == 'linen'])
  if name == 'GRU':
    if api == 'nnx':  # the code's own layout: one 3H-wide input layer with bias, one 3H-wide hidden layer without
      o = {'wi': T_(np.concatenate([cp['i' + g][0] for g in 'rzn'], axis=1)), 'bi': sum((V_(cp['i' + g][1], H) for g in 'rzn'), []),
           'wh': T_(np.concatenate([cp['h' + g][0] for g in 'rzn'], axis=1))}
      return ('gru_nnx', [o, h, x])
    o = {'ir': T_(cp['ir'][0]), 'iz': T_(cp['iz'][0]), 'in': T_(cp['in'][0]), 'bir': V_(cp['ir'][1], H), 'biz': V_(cp['iz'][1], H),
         'bin': V_(cp['in'][1], H), 'hr': T_(cp['hr'][0]), 'hz': T_(cp['hz'][0]), 'hn': T_(cp['hn'][0]),
         'bhn': None if cp['hn'][1] is None else V_(cp['hn'][1], H)}
    return ('gru', [o, h, x])
  o = {'if': T_(cp['if'][0]), 'bif': V_(cp['if'][1], H), 'hf': T_(cp['hf'][0]), 'in': T_(cp['in'][0]), 'bin': V_(cp['in'][1], H),
       'hn': T_(cp['hn'][0]), 'bhn': V_(cp['hn'][1], H)}
  return ('mgu', [o, h, x, name == 'MGU'])


def check_cellstep(ctx, batch, cases):
  """One step of every cell: (a) integer parameters + polynomial gate/activation functions, exact vs NumPy and vs
  Lean; (b) float parameters + the default sigmoid/tanh vs the documented formula in float64 (tolerance)."""
  for case in cases:
    api, name, F, H = case['api'], case['cell'], case['F'], case['H']
    ctx.case(case, nontrivial=True)
    ctx.count('cell_step', f'{api}-{name}')
    x = np.array(case['x'], np.float32)
    h = np.array(case['h'], np.float32)
    c = np.array(case['c'], np.float32)
    pair = name in PAIR_CARRY
    # (a) exact
    cp = canon_params(name, F, H, case['pseed'], integer=True)
    if api == 'nnx' and name == 'GRU':
      cp['hn'] = (cp['hn'][0], None)
    kw = {'activation_fn': TAU_I}
    if _supports(name, 'gate_fn'):
      kw['gate_fn'] = SIG_I
    with jax.disable_jit():
      r = call(lambda: _cell_step(api, *_mk_cell(api, name, F, H, cp, **kw), (jnp.asarray(c), jnp.asarray(h)) if pair else jnp.asarray(h), jnp.asarray(x)))
    if r[0] != 'ok':
      ctx.violation('cell-raises', f'{api} {name} raised {r[1]} on one step (F={F}, H={H})', case)
      continue
    gcarry, gy = _carry_to_np(r[1][0]), np.asarray(r[1][1])
    wcarry, wy = np_cell_step(name, cp, (c.astype(np.int64), h.astype(np.int64)) if pair else h.astype(np.int64), x.astype(np.int64), SIG_I, TAU_I)
    gl = [np.asarray(a) for a in jax.tree_util.tree_leaves(gcarry)] + [gy]
    wl = [np.asarray(a) for a in jax.tree_util.tree_leaves(wcarry)] + [wy]
    if len(gl) != len(wl) or any(a.shape != b.shape or not np.array_equal(a, b) for a, b in zip(gl, wl)):
      ctx.violation('cell-recurrence-wrong', f'{api} {name}: one step with integer parameters and gate(v)=v+1, act(v)=2v-1 gives {[a.tolist() for a in gl]}, the documented recurrence gives {[b.tolist() for b in wl]}', case)
      continue
    reqs, want = [], []
    for b_ in range(x.shape[0]):
      reqs.append(_lean_cell_req(name, api, cp, ilist(c[b_]), ilist(h[b_]), ilist(x[b_])))
      want.append([ilist(a[b_]) for a in gl])

    def cb(outs, case=case, want=want):
      got = [o[1] if o[0] == 'ok' else o for o in outs]
      if got != want:
        model_mismatch(ctx, 'cell-model-mismatch', f'model {got} vs impl {want} on {case["api"]} {case["cell"]}', case)

    batch.add(reqs, cb)
    # (b) floats, default activations
    cpf = canon_params(name, F, H, case['pseed'] + 1, integer=False)
    if api == 'nnx' and name == 'GRU':
      cpf['hn'] = (cpf['hn'][0], None)
    xf, hf, cf = x * 0.37, h * 0.41, c * 0.29
    with jax.disable_jit():
      r = call(lambda: _cell_step(api, *_mk_cell(api, name, F, H, cpf), (jnp.asarray(cf), jnp.asarray(hf)) if pair else jnp.asarray(hf), jnp.asarray(xf)))
    if r[0] != 'ok':
      ctx.violation('cell-raises', f'{api} {name} raised {r[1]} on one float step', case)
      continue
    sig = lambda v: 1.0 / (1.0 + np.exp(-v))
    wcarry, wy = np_cell_step(name, cpf, (cf.astype(np.float64), hf.astype(np.float64)) if pair else hf.astype(np.float64), xf.astype(np.float64), sig, np.tanh)
    gl = [np.asarray(a) for a in jax.tree_util.tree_leaves(_carry_to_np(r[1][0]))] + [np.asarray(r[1][1])]
    wl = [np.asarray(a) for a in jax.tree_util.tree_leaves(wcarry)] + [wy]
    err = max(float(np.abs(a - b).max()) for a, b in zip(gl, wl)) if len(gl) == len(wl) and all(a.shape == b.shape for a, b in zip(gl, wl)) else float('inf')
    if not err <= TOL:
      ctx.violation('cell-recurrence-wrong-float', f'{api} {name}: one float step differs from the documented recurrence (float64 NumPy) by {err:.3g} > {TOL}', case)


# ------------------------------------------------------------------------------------------------
# C2. real cells through RNN / Bidirectional: padding inert (==), Python loop vs RNN, re-indexing (tolerance)
# ------------------------------------------------------------------------------------------------


def gen_cellrnn_cases(rng, thorough):
  cases = []
  pal = shared_pal(rng, thorough, 'rnn')
  n = 12 if not thorough else 600
  for i in range(n):
    api = APIS[i % 2]
    names = cell_names(api)
    name = names[(i // 2) % len(names)]
    B, T, F, H = rng.choice(pal)
    lens = [rng.randrange(1, T + 1) for _ in range(B)]
    if rng.random() < 0.5:
      lens[rng.randrange(B)] = rng.randrange(1, max(2, T))  # make sure there is padding somewhere
    x = [[[round(rng.uniform(-1.5, 1.5), 3) for _ in range(F)] for _ in range(T)] for _ in range(B)]
    pert = [[[rng.choice([1e6, -1e6, 1e3, -37.5, 0.001, 7.0]) * rng.choice([1, 1, -1]) if t >= lens[b] else None for _ in range(F)] for t in range(T)] for b in range(B)]
    bidir = rng.random() < 0.2
    cases.append({
      'kind': 'cell-rnn', 'api': api, 'cell': name, 'B': B, 'T': T, 'F': F, 'H': H, 'pseed': rng.randrange(10**6),
      'x': x, 'lens': lens, 'pert': pert, 'bidir': bidir, 'time_major': rng.random() < 0.3,
      'reverse': False if bidir else rng.random() < 0.5, 'keep_order': False if bidir else rng.random() < 0.5,
      'given_carry': rng.random() < 0.4,
    })
  return cases


def _apply_pert(x, pert):
  x2 = np.array(x, dtype=np.float32).copy()
  for idx in np.ndindex(x2.shape):
    p = pert
    for i in idx:
      p = p[i]
    if p is not None:
      x2[idx] = p
  return x2


def check_cellrnn(ctx, batch, cases):
  for case in cases:
    api, name, B, T, F, H = case['api'], case['cell'], case['B'], case['T'], case['F'], case['H']
    tm, rev, keep, bidir = case['time_major'], case['reverse'], case['keep_order'], case['bidir']
    lens = np.array(case['lens'], np.int32)
    x = np.array(case['x'], np.float32)
    x2 = _apply_pert(case['x'], case['pert'])
    pair = name in PAIR_CARRY
    cp = canon_params(name, F, H, case['pseed'], integer=False)
    cpb = canon_params(name, F, H, case['pseed'] + 7, integer=False)
    if api == 'nnx' and name == 'GRU':
      cp['hn'] = (cp['hn'][0], None)
      cpb['hn'] = (cpb['hn'][0], None)
    rs = np.random.default_rng(case['pseed'] + 3)
    c0 = c0b = None
    if case['given_carry']:
      mk = lambda: jnp.asarray(rs.normal(0, 0.5, (B, H)).astype(np.float32))
      c0 = (mk(), mk()) if pair else mk()
      c0b = (mk(), mk()) if pair else mk()
    padded = bool((lens < T).any())
    ctx.case(case, nontrivial=padded)
    ctx.count('cell_rnn', f"{api}-{name}{'-bidir' if bidir else ''}")
    ctx.count('cell_rnn_flags', f"{'tm' if tm else 'bm'}{'-rev' if rev else ''}{'-keep' if keep else ''}{'-padded' if padded else ''}{'-c0' if c0 is not None else ''}")

    def build():
      if api == 'linen':
        cell, var = _mk_cell(api, name, F, H, cp)
        if bidir:
          cellb, varb = _mk_cell(api, name, F, H, cpb)
          layer = nn.Bidirectional(nn.RNN(cell), nn.RNN(cellb), time_major=tm, return_carry=True)
          variables = {'params': {'forward_rnn': {'cell': var['params']}, 'backward_rnn': {'cell': varb['params']}}}
          return layer, variables, (cell, var), (cellb, varb)
        layer = nn.RNN(cell, time_major=tm, return_carry=True, reverse=rev, keep_order=keep)
        return layer, {'params': {'cell': var['params']}}, (cell, var), None
      cell, _ = _mk_cell(api, name, F, H, cp)
      if bidir:
        cellb, _ = _mk_cell(api, name, F, H, cpb)
        return nnx.Bidirectional(nnx.RNN(cell), nnx.RNN(cellb), time_major=tm, return_carry=True), None, (cell, None), (cellb, None)
      return nnx.RNN(cell, time_major=tm, return_carry=True, reverse=rev, keep_order=keep), None, (cell, None), None

    jitted = {}

    def run(layer, variables, xx):
      xin = jnp.asarray(np.swapaxes(xx, 0, 1) if tm else xx)
      kw = {'seq_lengths': jnp.asarray(lens)}
      if c0 is not None:
        kw['initial_carry'] = (c0, c0b) if bidir else c0
      if api == 'linen':
        # one trace/compile per case, shared by the paired runs (Linen re-traces every initialiser at each use)
        if 'f' not in jitted:
          jitted['f'] = jax.jit(lambda v, a, k: layer.apply(v, a, **k))
        carry, out = jitted['f'](variables, xin, kw)
      else:
        carry, out = layer(xin, **kw)
      out = np.asarray(out)
      return _carry_to_np(carry), (np.swapaxes(out, 0, 1) if tm else out)

    # Linen re-traces every parameter initialiser at each use, so its scan body is traced once (no disable_jit)
    if True:
      r0 = call(build)
      if r0[0] != 'ok':
        ctx.violation('cell-rnn-raises', f'{api} RNN({name}) construction raised {r0[1]}', case)
        continue
      layer, variables, fw, bw = r0[1]
      r1 = call(run, layer, variables, x)
      r2 = call(run, layer, variables, x2)
    if r1[0] != 'ok' or r2[0] != 'ok':
      ctx.violation('cell-rnn-raises', f'{api} RNN({name}) raised {r1[1] if r1[0] != "ok" else r2[1]} (tm={tm} rev={rev} keep={keep} bidir={bidir} lens={case["lens"]})', case)
      continue
    (ca, ya), (cb_, yb) = r1[1], r2[1]
    # --- oracle 1: padding is inert, exactly
    bad = []
    for b_ in range(B):
      l = int(lens[b_])
      if not np.array_equal(ya[b_, :l], yb[b_, :l]):
        bad.append(f'row {b_}: outputs at t<{l} changed when only x[{b_},{l}:] was changed')
      for la, lb in zip(jax.tree_util.tree_leaves(ca), jax.tree_util.tree_leaves(cb_)):
        if not np.array_equal(la[b_], lb[b_]):
          bad.append(f'row {b_}: returned carry changed when only x[{b_},{l}:] was changed')
          break
    if not np.all(np.isfinite(ya)):
      bad = []  # non-finite outputs are outside the property (never produced by these generators)
    if bad:
      ctx.violation('rnn-padding-not-inert', f'{api} {"Bidirectional" if bidir else "RNN"}({name}) tm={tm} rev={rev} keep={keep} lens={case["lens"]}: ' + '; '.join(bad[:3]), case)
      continue
    # --- oracle 2: the Python loop with the cell alone (stepwise = whole; re-indexing of reverse/keep_order/Bidirectional)
    # one cell call per time step on the whole batch; row b is read only up to its own length
    def loop(which, cellvar, reverse_in):
      seqs = np.zeros((B, T, F), np.float32)
      for b_ in range(B):
        l = int(lens[b_])
        seqs[b_, :l] = x[b_, :l][::-1] if reverse_in else x[b_, :l]
      src = c0 if which == 'f' else c0b
      if c0 is None:
        z = jnp.zeros((B, H), jnp.float32)
        c = (z, z) if pair else z
      else:
        c = src
      step = _stepper(api, name, F, H, cellvar)
      ys, cs = [], []
      for t in range(T):
        c, y = step(c, jnp.asarray(seqs[:, t]))
        ys.append(np.asarray(y))
        cs.append(_carry_to_np(c))
      outs = [np.stack([ys[t][b_] for t in range(int(lens[b_]))]) for b_ in range(B)]
      carries = [[leaf[b_] for leaf in jax.tree_util.tree_leaves(cs[int(lens[b_]) - 1])] for b_ in range(B)]
      return outs, carries

    worst = 0.0
    if bidir:
      of, cf = loop('f', fw, False)
      ob, cbk = loop('b', bw, True)
      wants = [np.concatenate([of[b_], ob[b_][::-1]], axis=-1) for b_ in range(B)]
      wcs = [cf[b_] + cbk[b_] for b_ in range(B)]
    else:
      o, cT = loop('f', fw, rev)
      wants = [o[b_][::-1] if (rev and keep) else o[b_] for b_ in range(B)]
      wcs = cT
    gleaves = [np.asarray(a) for a in jax.tree_util.tree_leaves(ca)]
    for b_ in range(B):
      l = int(lens[b_])
      if ya[b_, :l].shape != wants[b_].shape or len(gleaves) != len(wcs[b_]):
        worst = float('inf')
        break
      worst = max(worst, float(np.abs(ya[b_, :l] - wants[b_]).max()))
      worst = max([worst] + [float(np.abs(g[b_] - w).max()) if g[b_].shape == w.shape else float('inf') for g, w in zip(gleaves, wcs[b_])])
    if not worst <= TOL:
      ctx.violation('rnn-not-cell-loop', f'{api} {"Bidirectional" if bidir else "RNN"}({name}) tm={tm} rev={rev} keep={keep} lens={case["lens"]}: valid outputs / final carry differ from the Python loop over the valid inputs by {worst:.3g} (float tolerance {TOL})', case)


# ------------------------------------------------------------------------------------------------
# C3. Linen vs NNX with shared parameters: LSTMCell / OptimizedLSTMCell through RNN (tolerance)
# ------------------------------------------------------------------------------------------------


def gen_lstmagree_cases(rng, thorough):
  cases = []
  pal = shared_pal(rng, thorough, 'rnn')
  for i in range(4 if not thorough else 200):
    B, T, F, H = rng.choice(pal)
    cases.append({'kind': 'lstm-agree', 'cell': ('LSTM', 'OptLSTM')[i % 2], 'B': B, 'T': T, 'F': F, 'H': H, 'pseed': rng.randrange(10**6),
                  'x': [[[round(rng.uniform(-1.5, 1.5), 3) for _ in range(F)] for _ in range(T)] for _ in range(B)],
                  'lens': [rng.randrange(1, T + 1) for _ in range(B)], 'reverse': rng.random() < 0.5, 'keep_order': rng.random() < 0.5})
  return cases


def check_lstmagree(ctx, batch, cases):
  for case in cases:
    name, B, T, F, H = case['cell'], case['B'], case['T'], case['F'], case['H']
    ctx.case(case, nontrivial=True)
    ctx.count('lstm_agree', name)
    cp = canon_params(name, F, H, case['pseed'], integer=False)
    x = jnp.asarray(np.array(case['x'], np.float32))
    lens = jnp.asarray(np.array(case['lens'], np.int32))
    kw = dict(return_carry=True, reverse=case['reverse'], keep_order=case['keep_order'])

    def run():
      cl, var = _mk_cell('linen', name, F, H, cp)
      cx, _ = _mk_cell('nnx', name, F, H, cp)
      a = nn.RNN(cl, **kw).apply({'params': {'cell': var['params']}}, x, seq_lengths=lens)
      b = nnx.RNN(cx, **kw)(x, seq_lengths=lens)
      return _carry_to_np(a), _carry_to_np(b)

    r = call(run)
    if r[0] != 'ok':
      ctx.violation('lstm-agree-raises', f'Linen/NNX RNN({name}) raised {r[1]}', case)
      continue
    la, lb = jax.tree_util.tree_leaves(r[1][0]), jax.tree_util.tree_leaves(r[1][1])
    err = max(float(np.abs(a - b).max()) for a, b in zip(la, lb)) if len(la) == len(lb) and all(a.shape == b.shape for a, b in zip(la, lb)) else float('inf')
    if not err <= TOL:
      ctx.violation('linen-nnx-lstm-disagree', f'Linen and NNX RNN({name}) with the same parameters differ by {err:.3g} (tolerance {TOL}), lens={case["lens"]} rev={case["reverse"]} keep={case["keep_order"]}', case)


# ------------------------------------------------------------------------------------------------
# D. attention with the real softmax (floats): masked / future positions inert (==), decode vs causal (tolerance),
#    weights = softmax(q.k/sqrt(d) + bias) over the allowed positions (tolerance), Linen vs NNX (tolerance)
# ------------------------------------------------------------------------------------------------

PERT = [1e6, -1e6, 1e3, -37.5, 0.001, 7.0, -250.0]


def gen_attn_cases(rng, thorough):
  cases = []
  pal = shared_pal(rng, thorough, 'attn')
  modes = ['self-mask', 'cross-mask', 'causal', 'fn-mask']
  n = 16 if not thorough else 1200
  for i in range(n):
    B, T, F, H, D = rng.choice(pal)
    mode = modes[i % 4]
    api = APIS[(i // 4) % 2]
    if mode == 'causal':
      p = rng.randrange(1, T)
      ignored = [[t >= p for t in range(T)] for _ in range(B)]
    else:
      ignored = [[rng.random() < 0.35 for _ in range(T)] for _ in range(B)]
      for row in ignored:
        if all(row):
          row[rng.randrange(T)] = False
        if not any(row):
          row[rng.randrange(T)] = True
    # user mask [B][T][T]: ignored columns are masked for every compared query; every compared query keeps >= 1 key
    mask = []
    for b in range(B):
      keep = [j for j in range(T) if not ignored[b][j]]
      rows = []
      for i_ in range(T):
        if mode == 'causal':
          row = [1 if (j == i_ or rng.random() < 0.8) else 0 for j in range(T)]
        else:
          must = i_ if (mode == 'self-mask' and not ignored[b][i_]) else rng.choice(keep)
          row = [0 if ignored[b][j] else (1 if (j == must or rng.random() < 0.7) else 0) for j in range(T)]
        rows.append(row)
      mask.append(rows)
    cases.append({
      'kind': 'attn-inert', 'api': api, 'mode': mode, 'B': B, 'T': T, 'F': F, 'H': H, 'D': D, 'pseed': rng.randrange(10**6),
      'x': [[[round(rng.uniform(-1.5, 1.5), 3) for _ in range(F)] for _ in range(T)] for _ in range(B)],
      'ignored': ignored, 'mask': mask, 'use_bias': rng.random() < 0.5,
      'pert': [[[rng.choice(PERT) if ignored[b][t] else None for _ in range(F)] for t in range(T)] for b in range(B)],
    })
  return cases


def _mha_run(api, F, H, D, params, inputs, **kw):
  """inputs: tuple of arrays (q[,k[,v]]); returns the layer output"""
  if api == 'linen':
    return _linen_mha(H, D, params).apply({'params': params}, *inputs, **kw)
  return _nnx_mha(F, H, D, params, decode=False)(*inputs, **kw)


def check_attn(ctx, batch, cases):
  for case in cases:
    api, mode, B, T, F, H, D = case['api'], case['mode'], case['B'], case['T'], case['F'], case['H'], case['D']
    am = attn_mod(api)
    x = np.array(case['x'], np.float32)
    x2 = _apply_pert(case['x'], case['pert'])
    ign = np.array(case['ignored'], bool)
    user = np.array(case['mask'], np.float32)[:, None]  # [B,1,T,T]
    rs = np.random.default_rng(case['pseed'])
    bias = rs.normal(0, 1, (B, H, T, T)).astype(np.float32) if case['use_bias'] else None
    ctx.case(case, nontrivial=True)
    ctx.count('attn_inert', f"{api}-{mode}{'-bias' if bias is not None else ''}-H{H}")
    if mode == 'causal':
      mask = am.combine_masks(jnp.asarray(user), am.make_causal_mask(jnp.ones((B, T))))
    else:
      mask = jnp.asarray(user)
    if mode == 'fn-mask':
      q = rs.normal(0, 1, (B, T, H, D)).astype(np.float32)
      k = rs.normal(0, 1, (B, T, H, D)).astype(np.float32)
      v = rs.normal(0, 1, (B, T, H, D)).astype(np.float32)
      k2, v2 = k.copy(), v.copy()
      bias2 = None if bias is None else bias.copy()
      for b in range(B):
        for j in range(T):
          if ign[b, j]:
            k2[b, j] = rs.choice(PERT, (H, D))
            v2[b, j] = rs.choice(PERT, (H, D))
            if bias2 is not None:
              bias2[b, :, :, j] = rs.choice(PERT, (H, T))
      f = lambda kk, vv, bb: np.asarray(am.dot_product_attention(jnp.asarray(q), jnp.asarray(kk), jnp.asarray(vv), None if bb is None else jnp.asarray(bb), mask))
      r1, r2 = call(f, k, v, bias), call(f, k2, v2, bias2)
      compare = np.ones((B, T), bool)
      what = 'dot_product_attention'
    else:
      params = _mha_params(F, H, D, case['pseed'], integer=False)
      kw = {'mask': mask}
      if bias is not None:
        kw['attention_bias'] = jnp.asarray(bias)
      if mode == 'cross-mask':
        qin = rs.normal(0, 1, (B, T, F)).astype(np.float32)
        f = lambda z: np.asarray(_mha_run(api, F, H, D, params, (jnp.asarray(qin), jnp.asarray(z)), **kw))
        compare = np.ones((B, T), bool)
      else:
        f = lambda z: np.asarray(_mha_run(api, F, H, D, params, (jnp.asarray(z),), **kw))
        compare = ~ign
      r1, r2 = call(f, x), call(f, x2)
      what = 'MultiHeadDotProductAttention' if api == 'linen' else 'nnx.MultiHeadAttention'
    if r1[0] != 'ok' or r2[0] != 'ok':
      ctx.violation('attn-raises', f'{api} {what} raised {r1[1] if r1[0] != "ok" else r2[1]} (mode {mode}, B={B} T={T} H={H})', case)
      continue
    ya, yb = r1[1], r2[1]
    if not np.all(np.isfinite(ya)):
      continue
    bad = [(b, i) for b in range(B) for i in range(T) if compare[b, i] and not np.array_equal(ya[b, i], yb[b, i])]
    if bad:
      b, i = bad[0]
      ctx.violation(
        'attn-masked-not-inert' if mode != 'causal' else 'attn-future-not-inert',
        f'{api} {what} ({mode}): output at batch {b} position {i} changed ({ya[b, i].ravel()[:3]} -> {yb[b, i].ravel()[:3]}) when only positions '
        f'{[j for j in range(T) if ign[b, j]]} (masked for every compared query{" / after the causal position" if mode == "causal" else ""}) were changed', case)


def gen_decodef_cases(rng, thorough):
  cases = []
  pal = shared_pal(rng, thorough, 'attn')
  for i in range(6 if not thorough else 250):
    B, T, F, H, D = rng.choice(pal)
    cases.append({
      'kind': 'decode-float', 'api': APIS[i % 2], 'B': B, 'T': T, 'F': F, 'H': H, 'D': D, 'pseed': rng.randrange(10**6),
      'x': [[[round(rng.uniform(-1.5, 1.5), 3) for _ in range(F)] for _ in range(T)] for _ in range(B)],
      'user': _user_step_masks(rng, MASK_STYLES[(i // 2) % len(MASK_STYLES)], B, T),
      'use_bias': rng.random() < 0.5, 'p': rng.randrange(1, T), 'qk_norm': D >= 2 and (i // 2) % 2 == 0,
    })
  return cases


def check_decodef(ctx, batch, cases):
  for case in cases:
    api, B, T, F, H, D = case['api'], case['B'], case['T'], case['F'], case['H'], case['D']
    am = attn_mod(api)
    x = np.array(case['x'], np.float32)
    rs = np.random.default_rng(case['pseed'])
    qk = case.get('qk_norm', False)
    params = _mha_params(F, H, D, case['pseed'], integer=False, qk_norm=qk)
    tol = TOL
    if qk:  # judged only on well-conditioned inputs (regenerated if needed; all attempts bad: normalize_qk=False, counted)
      mk = lambda a: (x if a == 0 else np.random.default_rng(case['pseed'] + 7919 * a).uniform(-1.5, 1.5, x.shape).astype(np.float32),)
      got, cond = _qk_wellconditioned_inputs(ctx, params, D, mk, 'decode')
      if got is None:
        qk = False
        params = _mha_params(F, H, D, case['pseed'], integer=False, qk_norm=False)
      else:
        x = got[0]
        tol = TOL + 2 * cond['obound']
    user = None if case['user'] is None else np.array(case['user'], np.float32)  # [T,B,L]
    bias = rs.normal(0, 1, (T, B, H, T)).astype(np.float32) if case['use_bias'] else None
    p = case['p']
    x2 = x.copy()
    x2[:, p:] = rs.choice(PERT, x2[:, p:].shape)
    ctx.case(case, nontrivial=T >= 2)
    ctx.count('decode_float', f"{api}{'-mask' if user is not None else ''}{'-exposes-unwritten' if user is not None and any(user[t][b][j] for t in range(T) for b in range(B) for j in range(t + 1, T)) else ''}{'-bias' if bias is not None else ''}{'-qknorm' if qk else ''}")

    def step_kw(t):
      kw = {}
      if user is not None:
        kw['mask'] = jnp.asarray(user[t][:, None, None, :])
      if bias is not None:
        kw['attention_bias'] = jnp.asarray(bias[t][:, :, None, :])
      return kw

    jitted = {}

    def decode(xx, junk_seed=None):
      return _mha_decode(api, F, H, D, params, xx, step_kw, jitted, junk_seed=junk_seed)

    def whole(xx):
      causal4 = am.make_causal_mask(jnp.ones((B, T)))
      m = causal4 if user is None else am.combine_masks(jnp.asarray(np.transpose(user, (1, 0, 2))[:, None]), causal4)
      kw = {'mask': m}
      if bias is not None:
        kw['attention_bias'] = jnp.asarray(np.transpose(bias, (1, 2, 0, 3)))
      return np.asarray(_mha_run(api, F, H, D, params, (jnp.asarray(xx),), **kw))

    rd, rw, rd2, rdj = call(decode, x), call(whole, x), call(decode, x2), call(decode, x, case['pseed'] + 17)
    if any(r[0] != 'ok' for r in (rd, rw, rd2, rdj)):
      ctx.violation('decode-raises', f'{api} attention decode/whole raised {[r[1] for r in (rd, rw, rd2, rdj) if r[0] != "ok"][0]} (B={B} T={T} H={H})', case)
      continue
    yd, yw, yd2, ydj = rd[1], rw[1], rd2[1], rdj[1]
    mdesc = 'no user mask' if user is None else 'a per-step user mask [B,1,1,max_length]'
    # stepwise decoding = whole-sequence attention under (causal AND user mask), row by row
    err = float(np.abs(yd - yw).max()) if yd.shape == yw.shape else float('inf')
    if not err <= tol:
      t_bad = int(np.argmax(np.abs(yd - yw).max(axis=(0, 2)) > tol)) if yd.shape == yw.shape else -1
      ctx.violation('decode-not-causal-float', f'{api}: decode step {t_bad} with {mdesc} differs from row {t_bad} of the whole-sequence run under (causal AND user mask) by {err:.3g} (float tolerance {tol:.3g})', case)
    # not-yet-written cache slots are inert: junk in cached_key / cached_value before decoding changes nothing
    if not np.array_equal(yd, ydj):
      t_bad = int(np.argmax((yd != ydj).any(axis=(0, 2))))
      ctx.violation('decode-unwritten-cache-not-inert', f'{api}: with {mdesc}, the output of decode step {t_bad} changes by {float(np.abs(yd - ydj).max()):.3g} when the not-yet-written cache slots hold junk instead of zeros (cache_index = 0 in both runs)', case)
      continue
    if not np.array_equal(yd[:, :p], yd2[:, :p]):
      ctx.violation('decode-future-not-inert', f'{api}: decode outputs before position {p} changed when only inputs at positions >= {p} were changed', case)


def gen_weights_cases(rng, thorough):
  cases = []
  pal = [(rng.randrange(1, 3), rng.randrange(1, 6), rng.randrange(1, 6), rng.randrange(1, 3), rng.randrange(1, 4)) for _ in range(3 if not thorough else 15)]
  pal[0] = (pal[0][0], max(2, pal[0][1]), max(2, pal[0][1]), pal[0][3], max(2, pal[0][4]))  # square, head_dim >= 2: module / normalize_qk cases
  for i in range(24 if not thorough else 600):
    B, Lq, Lk, H, D = pal[0] if i % 3 == 0 else rng.choice(pal)
    cases.append({
      'kind': 'attn-weights', 'api': APIS[(i // 3) % 2] if i % 3 == 0 else APIS[i % 2], 'B': B, 'Lq': Lq, 'Lk': Lk, 'H': H, 'D': D, 'pseed': rng.randrange(10**6),
      'mask': None if rng.random() < 0.2 else [[[1 if (j == i_ % Lk or rng.random() < 0.6) else 0 for j in range(Lk)] for i_ in range(Lq)] for _ in range(B)],
      'use_bias': rng.random() < 0.5, 'via_module': i % 3 == 0, 'qk_norm': D >= 2 and i % 3 == 0 and (i // 3) % 4 < 2,
    })
  return cases


def check_weights(ctx, batch, cases):
  for case in cases:
    api, B, Lq, Lk, H, D = case['api'], case['B'], case['Lq'], case['Lk'], case['H'], case['D']
    am = attn_mod(api)
    rs = np.random.default_rng(case['pseed'])
    mask = None if case['mask'] is None else np.array(case['mask'], np.float32)[:, None]
    bias = rs.normal(0, 1, (B, H, Lq, Lk)).astype(np.float32) if case['use_bias'] else None
    via_module = case['via_module'] and Lq == Lk
    ctx.case(case, nontrivial=mask is not None)
    ctx.count('attn_weights', f"{api}{'-module' if via_module else ''}{'-qknorm' if via_module and case.get('qk_norm') else ''}{'-mask' if mask is not None else ''}{'-bias' if bias is not None else ''}")
    jm = None if mask is None else jnp.asarray(mask)
    jb = None if bias is None else jnp.asarray(bias)
    tol = TOL
    if via_module:
      F = 3
      qk = case.get('qk_norm', False)
      params = _mha_params(F, H, D, case['pseed'], integer=False, qk_norm=qk)
      xin = rs.normal(0, 1, (B, Lq, F)).astype(np.float32)
      cond = None
      if qk:
        # normalize_qk is only judged on inputs whose float32 LayerNorm is well conditioned; the tolerance is the
        # float tolerance plus the rounding bound of this very case
        mk = lambda a: (xin if a == 0 else np.random.default_rng(case['pseed'] + 7919 * a).normal(0, 1, (B, Lq, F)).astype(np.float32),)
        got, cond = _qk_wellconditioned_inputs(ctx, params, D, mk, 'weights')
        if got is None:
          continue
        xin = got[0]
        tol = TOL + cond['wbound']
      kw = {'mask': jm, 'attention_bias': jb, 'sow_weights': True}

      def run():
        if api == 'linen':
          _, st = _linen_mha(H, D, params).apply({'params': params}, jnp.asarray(xin), mutable=['intermediates'], **kw)
          return np.asarray(st['intermediates']['attention_weights'][0])
        m = _nnx_mha(F, H, D, params, decode=False)
        m(jnp.asarray(xin), **kw)
        return np.asarray(m.attention_weights.value[0])

      if cond is not None:  # queries through query_ln, keys through key_ln, exact arithmetic
        q, k = cond['q'], cond['k']
      else:
        P = {n_: (np.asarray(v['kernel'], np.float64), np.asarray(v['bias'], np.float64)) for n_, v in params.items() if 'kernel' in v}
        q = np.einsum('btf,fhd->bthd', xin.astype(np.float64), P['query'][0]) + P['query'][1]
        k = np.einsum('btf,fhd->bthd', xin.astype(np.float64), P['key'][0]) + P['key'][1]
      r = call(run)
    else:
      q = rs.normal(0, 1, (B, Lq, H, D)).astype(np.float32)
      k = rs.normal(0, 1, (B, Lk, H, D)).astype(np.float32)
      r = call(lambda: np.asarray(am.dot_product_attention_weights(jnp.asarray(q), jnp.asarray(k), jb, jm)))
    if r[0] != 'ok':
      ctx.violation('attn-weights-raises', f'{api} attention weights raised {r[1]}', case)
      continue
    w = r[1]
    logits = np.einsum('bqhd,bkhd->bhqk', q.astype(np.float64), k.astype(np.float64)) / math.sqrt(D)
    if bias is not None:
      logits = logits + bias
    allowed = np.ones((B, H, Lq, Lk), bool) if mask is None else np.broadcast_to(mask != 0, (B, H, Lq, Lk))
    e = np.where(allowed, np.exp(logits - np.where(allowed, logits, -np.inf).max(axis=-1, keepdims=True)), 0.0)
    want = e / e.sum(axis=-1, keepdims=True)
    if w.shape != want.shape:
      ctx.violation('attn-weights-wrong', f'{api} attention weights have shape {w.shape}, expected {want.shape}', case)
      continue
    err = float(np.abs(w - want).max())
    leak = bool((w[~allowed] != 0).any())
    if leak or not err <= tol:
      ctx.violation('attn-weights-wrong', f'{api} attention weights: {"non-zero weight at a masked position; " if leak else ""}max deviation {err:.3g} from softmax(q.k/sqrt(d)+bias) over the allowed positions{' (q, k through query_ln / key_ln)' if via_module and case.get('qk_norm') else ''} (tolerance {tol:.3g} = float tolerance + rounding bound of the case)', case)


def gen_mhaagree_cases(rng, thorough):
  cases = []
  pal = shared_pal(rng, thorough, 'attn')
  for i in range(8 if not thorough else 300):
    B, T, F, H, D = rng.choice([p_ for p_ in pal if p_[4] >= 2]) if i % 2 == 0 else rng.choice(pal)
    cases.append({'kind': 'mha-agree', 'B': B, 'T': T, 'F': F, 'H': H, 'D': D, 'pseed': rng.randrange(10**6),
                  'mask': [[[1 if (j == i_ or rng.random() < 0.6) else 0 for j in range(T)] for i_ in range(T)] for _ in range(B)],
                  'use_bias': rng.random() < 0.5, 'cross': i % 4 == 1, 'qk_norm': D >= 2 and i % 2 == 0, 'decode': i % 4 == 2})
  return cases


def check_mhaagree(ctx, batch, cases):
  """Linen MultiHeadDotProductAttention vs nnx.MultiHeadAttention with the same, fully randomised parameters
  (incl. distinct query_ln / key_ln scales when normalize_qk), whole-sequence and step-by-step decode."""
  for case in cases:
    B, T, F, H, D = case['B'], case['T'], case['F'], case['H'], case['D']
    rs = np.random.default_rng(case['pseed'])
    qk, dec = case.get('qk_norm', False), case.get('decode', False)
    params = _mha_params(F, H, D, case['pseed'], integer=False, qk_norm=qk)
    x = rs.normal(0, 1, (B, T, F)).astype(np.float32)
    z = rs.normal(0, 1, (B, T, F)).astype(np.float32)
    mask = np.array(case['mask'], np.float32)[:, None]  # [B,1,T,T]
    bias = rs.normal(0, 1, (B, H, T, T)).astype(np.float32) if case['use_bias'] else None
    ctx.case(case, nontrivial=True)
    ctx.count('mha_agree', f"{'decode' if dec else 'cross' if case['cross'] else 'self'}{'-bias' if bias is not None else ''}{'-qknorm' if qk else ''}")
    tol = TOL
    if qk:
      def mk(a):
        r_ = rs if a == 0 else np.random.default_rng(case['pseed'] + 7919 * a)
        xa = x if a == 0 else r_.normal(0, 1, (B, T, F)).astype(np.float32)
        za = z if a == 0 else r_.normal(0, 1, (B, T, F)).astype(np.float32)
        return (xa, za) if (case['cross'] and not dec) else (xa,)
      got, cond = _qk_wellconditioned_inputs(ctx, params, D, mk, 'agree')
      if got is None:
        continue
      x, z = got[0], got[-1]
      tol = TOL + 2 * cond['obound']  # two float32 evaluations, each within the bound of exact arithmetic
    if dec:
      def step_kw(t):
        kw = {'mask': jnp.asarray(mask[:, :, t : t + 1, :])}
        if bias is not None:
          kw['attention_bias'] = jnp.asarray(bias[:, :, t : t + 1, :])
        return kw
      ra = call(lambda: _mha_decode('linen', F, H, D, params, x, step_kw))
      rb = call(lambda: _mha_decode('nnx', F, H, D, params, x, step_kw))
    else:
      kw = {'mask': jnp.asarray(mask)}
      if bias is not None:
        kw['attention_bias'] = jnp.asarray(bias)
      inputs = (jnp.asarray(x), jnp.asarray(z)) if case['cross'] else (jnp.asarray(x),)
      ra = call(lambda: np.asarray(_mha_run('linen', F, H, D, params, inputs, **kw)))
      rb = call(lambda: np.asarray(_mha_run('nnx', F, H, D, params, inputs, **kw)))
    if ra[0] != 'ok' or rb[0] != 'ok':
      ctx.violation('mha-agree-raises', f'attention layer raised {ra[1] if ra[0] != "ok" else rb[1]} (normalize_qk={qk}, decode={dec})', case)
      continue
    err = float(np.abs(ra[1] - rb[1]).max()) if ra[1].shape == rb[1].shape else float('inf')
    if not err <= tol:
      ctx.violation('linen-nnx-attention-disagree', f'Linen MultiHeadDotProductAttention and nnx.MultiHeadAttention with the same parameters (normalize_qk={qk}, {"decode" if dec else "whole sequence"}) differ by {err:.3g} (tolerance {tol:.3g})', case)


# ------------------------------------------------------------------------------------------------
# C4. ConvLSTMCell (Linen only, 1-d spatial): documented recurrence (tolerance), padding inert (==), loop vs RNN
# ------------------------------------------------------------------------------------------------


def gen_convlstm_cases(rng, thorough):
  cases = []
  pal = [(rng.randrange(1, 3), rng.randrange(2, 6), rng.randrange(2, 5), rng.randrange(1, 3), rng.randrange(1, 3), rng.randrange(1, 4)) for _ in range(1 if not thorough else 8)]
  for _ in range(4 if not thorough else 120):
    B, T, W, C, H, K = rng.choice(pal)
    lens = [rng.randrange(1, T + 1) for _ in range(B)]
    lens[0] = rng.randrange(1, T)
    cases.append({'kind': 'convlstm', 'B': B, 'T': T, 'W': W, 'C': C, 'H': H, 'K': K, 'pseed': rng.randrange(10**6), 'lens': lens,
                  'reverse': rng.random() < 0.5, 'keep_order': rng.random() < 0.5})
  return cases


def _np_convlstm_step(kih, bih, khh, bhh, c, h, x):
  def conv(v, k, b):  # v [B,W,Ci], k [K,Ci,Co], SAME padding, stride 1
    K = k.shape[0]
    lo = (K - 1) // 2
    vp = np.pad(v, ((0, 0), (lo, K - 1 - lo), (0, 0)))
    out = sum(np.einsum('bwc,co->bwo', vp[:, j : j + v.shape[1]], k[j]) for j in range(K))
    return out + b
  sig = lambda v: 1.0 / (1.0 + np.exp(-v))
  gates = conv(x, kih, bih) + conv(h, khh, bhh)
  i, g, f, o = np.split(gates, 4, axis=-1)
  f = sig(f + 1)
  nc = f * c + sig(i) * np.tanh(g)
  nh = sig(o) * np.tanh(nc)
  return nc, nh


def check_convlstm(ctx, batch, cases):
  for case in cases:
    B, T, W, C, H, K = case['B'], case['T'], case['W'], case['C'], case['H'], case['K']
    lens = np.array(case['lens'], np.int32)
    rev, keep = case['reverse'], case['keep_order']
    rs = np.random.default_rng(case['pseed'])
    x = rs.normal(0, 1, (B, T, W, C)).astype(np.float32)
    x2 = x.copy()
    for b in range(B):
      x2[b, lens[b]:] = rs.choice(PERT, x2[b, lens[b]:].shape)
    p = {'ih': {'kernel': rs.normal(0, 0.5, (K, C, 4 * H)).astype(np.float32), 'bias': rs.normal(0, 0.5, (4 * H,)).astype(np.float32)},
         'hh': {'kernel': rs.normal(0, 0.5, (K, H, 4 * H)).astype(np.float32), 'bias': rs.normal(0, 0.5, (4 * H,)).astype(np.float32)}}
    params = jax.tree_util.tree_map(jnp.asarray, p)
    cell = nn.ConvLSTMCell(features=H, kernel_size=(K,))
    layer = nn.RNN(cell, return_carry=True, reverse=rev, keep_order=keep)
    ctx.case(case, nontrivial=True)
    ctx.count('convlstm', f"{'rev' if rev else 'fwd'}{'-keep' if keep else ''}")
    f = jax.jit(lambda xx: layer.apply({'params': {'cell': params}}, xx, seq_lengths=jnp.asarray(lens)))
    step = jax.jit(lambda c, xt: cell.apply({'params': params}, c, xt))
    r1, r2 = call(lambda: _carry_to_np(f(jnp.asarray(x)))), call(lambda: _carry_to_np(f(jnp.asarray(x2))))
    if r1[0] != 'ok' or r2[0] != 'ok':
      ctx.violation('convlstm-raises', f'RNN(ConvLSTMCell) raised {r1[1] if r1[0] != "ok" else r2[1]}', case)
      continue
    (ca, ya), (cb_, yb) = r1[1], r2[1]
    bad = [b for b in range(B) if not np.array_equal(ya[b, : lens[b]], yb[b, : lens[b]]) or any(not np.array_equal(u[b], v[b]) for u, v in zip(ca, cb_))]
    if bad and np.all(np.isfinite(ya)):
      ctx.violation('rnn-padding-not-inert', f'RNN(ConvLSTMCell) rev={rev} keep={keep} lens={case["lens"]}: valid outputs / carry of rows {bad} changed when only padding was changed', case)
      continue
    worst = 0.0
    for b in range(B):
      l = int(lens[b])
      seq = x[b, :l][::-1] if rev else x[b, :l]
      c = (jnp.zeros((1, W, H)), jnp.zeros((1, W, H)))
      cn = (np.zeros((1, W, H)), np.zeros((1, W, H)))
      ys = []
      for v in seq:
        c, y = step(c, jnp.asarray(v)[None])
        cn = _np_convlstm_step(*(np.asarray(a, np.float64) for a in (p['ih']['kernel'], p['ih']['bias'], p['hh']['kernel'], p['hh']['bias'])), cn[0], cn[1], v[None].astype(np.float64))
        ys.append(np.asarray(y)[0])
        worst = max(worst, float(np.abs(np.asarray(c[0]) - cn[0]).max()), float(np.abs(np.asarray(c[1]) - cn[1]).max()))
      want = np.stack(ys[::-1] if (rev and keep) else ys)
      worst = max(worst, float(np.abs(ya[b, :l] - want).max()), float(np.abs(ca[0][b] - np.asarray(c[0])[0]).max()), float(np.abs(ca[1][b] - np.asarray(c[1])[0]).max()))
    if not worst <= 5 * TOL:
      ctx.violation('convlstm-wrong', f'RNN(ConvLSTMCell) rev={rev} keep={keep} lens={case["lens"]}: differs from the Python loop / documented recurrence by {worst:.3g}', case)


# ------------------------------------------------------------------------------------------------
# entry points
# ------------------------------------------------------------------------------------------------

SECTIONS = [
  # (generator, checker, kinds handled)
  (gen_flip_cases, check_flip, ('flip',)),
  (gen_mask_cases, check_masks, ('causal-mask', 'attention-mask', 'combine-masks')),
  (gen_intrnn_cases, check_intrnn, ('int-rnn', 'int-bidir')),
  (gen_decode_trace_cases, check_decode_trace, ('decode-trace',)),
  (gen_cellstep_cases, check_cellstep, ('cell-step',)),
  (gen_cellrnn_cases, check_cellrnn, ('cell-rnn',)),
  (gen_lstmagree_cases, check_lstmagree, ('lstm-agree',)),
  (gen_convlstm_cases, check_convlstm, ('convlstm',)),
  (gen_attn_cases, check_attn, ('attn-inert',)),
  (gen_decodef_cases, check_decodef, ('decode-float',)),
  (gen_weights_cases, check_weights, ('attn-weights',)),
  (gen_mhaagree_cases, check_mhaagree, ('mha-agree',)),
]


def _run_case(ctx, batch, obj):
  case = obj
  while isinstance(case, dict) and 'kind' not in case and isinstance(case.get('case'), dict):
    case = case['case']  # replay files wrap the case (common.finish may wrap it twice)
  case = {k: v for k, v in case.items() if k not in ('origin', 'got')}
  kind = case.get('kind')
  for _, chk, kinds in SECTIONS:
    if kind in kinds:
      chk(ctx, batch, [case])
      batch.flush()
      return
  ctx.notes.append(f'unknown corpus case kind {kind}')


def run(ctx):
  import time

  drv = LeanDriver('drv_c13')
  batch = Batch(drv)
  thorough = ctx.tier == 'thorough'
  for fn, obj in load_corpus('C13'):
    ctx.corpus_replayed += 1
    _run_case(ctx, batch, obj)
  timing = {}
  for gen, chk, kinds in SECTIONS:
    t0 = time.time()
    cases = gen(ctx.rng, thorough)
    chk(ctx, batch, cases)
    batch.flush()
    timing[kinds[0]] = round(time.time() - t0, 1)
    for c in cases[:1]:
      ctx.sample(_abbrev(c), cap=len(SECTIONS))
  ctx.extra['section_wall_s'] = timing
  ctx.extra.setdefault('skipped_ill_conditioned', 0)
  ctx.extra['qk_norm_tolerance_rule'] = (
    'normalize_qk comparisons: float64 reference; tolerance = 1e-5 + first-order float32 rounding bound of the case '
    f'(LayerNorm fast-variance cancellation propagated through rsqrt, logits, softmax, output projection); a case is used only '
    f'if the bound is <= {QK_WCAP} on weights and <= {QK_OCAP} on outputs, otherwise inputs are regenerated (6 attempts) or the case is skipped')
  ctx.extra['driver_calls'] = drv.calls
  ctx.extra['exhaustive'] = False
  ctx.extra['exhaustive_scope'] = 'flip_sequences: every T<=4 (5 thorough) x every seq_length in [1,T] x {batch-major,time-major} x {Linen,NNX}; make_causal_mask: every n<=6'
  ctx.extra['float_tolerance'] = TOL


def _abbrev(c):
  out = {}
  for k, v in c.items():
    s = repr(v)
    out[k] = v if len(s) <= 160 else s[:157] + '...'
  return out


def replay(ctx, obj):
  drv = LeanDriver('drv_c13')
  _run_case(ctx, Batch(drv), obj)
  for v in ctx.violations:
    print('  ', v['key'], '-', v['what'][:300])
  return bool(ctx.violations)
