"""C08 — NNX vmap / scan / grad match the loop, the stack and jax.grad of the functional form.

Theorems: lean/Flax/Props/C08.lean over lean/Flax/Model/NnxLoop.lean.

Three voices per case:
  * the real `nnx.vmap / nnx.scan / nnx.grad / nnx.value_and_grad` from $VERIF_REPO (default /repo),
  * the property oracle: an explicit Python loop / `jnp.stack` of per-index *eager* calls of the untransformed function
    on objects rebuilt from the same recipe with the per-index slices as values (aliasing preserved), resp. `jax.grad`
    of the same loss written as a function of the selected Variables' values,
  * the Lean model (drv_c08), which is handed the traced function as the finite table of (inputs → outputs) the
    oracle run observed: the model only finds a row when it routes, slices and threads exactly the values the oracle
    did, and its final store / results must equal the real transform's.
Values are small integers held in float32 (exactly representable; losses are polynomials), compared exactly.
"""
from __future__ import annotations

import itertools

from harness import compat  # noqa: F401  (must precede flax)
from harness.common import LeanDriver, load_corpus, load_findings

import numpy as np
import jax
import jax.numpy as jnp
from flax import nnx
from flax.nnx import extract, filterlib

SPEC = {
  'exes': ['drv_c08'],
  'rule': (
    'one case = (1-3 arguments: graph nodes of 1-5 Variables of 4 types in 1-2 levels, with Variables / sub-modules '
    'shared between arguments and between paths; integer arrays) x (in_axes entry per argument: int in [-r, r), None, '
    'Carry, or a StateAxes of 1-4 (filter -> axis/None/Carry) items over OfType / PathContains / Not / Any / Everything) '
    'x (traced function = 0-3 Variable updates + 1-3 results incl. fresh graph nodes) x out_axes (ints, None, StateAxes; '
    'uniform or per result) x length 1-4 x reverse x argnums / DiffState filters x has_aux x grad / value_and_grad. '
    'A case is non-trivial when a StateAxes / DiffState filter or an alias decides the routing of some Variable, or it is '
    'a deliberate error case; distinct = distinct canonical JSON of the case.'
  ),
  'trusted_base': [
    'hand-written Lean model lean/Flax/Model/NnxLoop.lean (tied to the checked tree by this correspondence run)',
    'harness/props/c08.py (generators, eager reference loop, canonicalisation), harness/compat.py (JAX shim)',
    'A-VMAP / A-SCAN: jax.vmap = one call per index + stack along out_axes (None results unbatched); lax.scan = left fold with stacking and reverse',
    'A-CONV: jnp.take / jnp.stack / jnp.moveaxis meet the index-level specification of LiftLoop.Arr',
    'A-AD: jax.value_and_grad depends only on the extension of the function it is given, returns its value/aux, and gradients of the structure of the primals',
    'A-PY: Python object identity and attribute dictionaries as rendered by (VarId, path) entries',
  ],
  'assumptions': [
    'the traced function keeps the graph structure of its arguments (it updates Variable values; it does not add, remove or rewire Variables of its inputs) and returns arrays, fresh graph nodes, or - as the scan carry - the carry argument itself',
    'C04 refinement taken as a named hypothesis: the outer from_tree(is_inner=False) writes the returned states into the caller\'s Variables by identity (Model: updateStore)',
    'jax.vmap\'s unbatchedness check of results declared None enters by its verdict (computed by the harness as data dependence on a mapped input)',
    'nnx.scan bodies do not write Variables routed to None (broadcast): the implementation silently drops such writes (known finding F33 scan-broadcast-write-dropped); the model follows the code and the reference scanSpecN of scan_eq_loop_nnx leaves broadcast Variables at their original values',
    'gradient *values* are JAX\'s (A-AD): they are compared real-vs-jax.grad-of-the-functional-form only; the model decides which leaves are differentiated, the value, the aux and the side effects',
    'transform options are a record: the two public spellings T(f, **opts) and T(**opts)(f) denote the same option record (in_axes, out_axes, axis_size / length, reverse, unroll / argnums, has_aux), so the model takes the record; every vmap / scan / grad / value_and_grad case is constructed in one of the two spellings at random (distribution construction_form), the oracle (Python loop in processing order) is unchanged',
    'in_axes / out_axes prefix trees of depth one (one entry for all, or one per argument / result); pmap, shard_map, custom_vjp do not run in this sandbox',
  ],
  'model_partial': [
    'scan Carry argument holding SEVERAL distinct graph nodes (tuple / list / dict of 2-3 modules mixed with arrays): the Lean model has one carried node; the FIFO hand-back of carry NodeDefs (_insert_nodedefs popleft - the same deque discipline as scan_broadcast_leaves_fifo) is tied by the two-voice stream scan_carry_tree only (real nnx.scan vs Python loop: final state of EACH carried object, out[i] is m_i, carried arrays, ys, both succeed), not by a theorem',
    'scan_eq_loop_nnx: soundness direction, with n = the common size of every scanned leaf along its axis (and `length` if given). Converse: proved up to the calls (scan_no_rejection_before_loop: consistent aliasing + equal scanned sizes => _scan_split_in accepts, lax.scan finds n, every index can be sliced, and by scan_iteration_sees every iteration calls the function on the Python loop\'s values); scan_rejects_iff is NOT proved for the causes arising inside / after the loop: the traced function failing, _check_carry_same_references (characterised exactly on its own: scan_carry_refs_checked), lax.scan\'s carry-structure check (a carried Variable or the array carry changing shape - a rejection the reference loop does not have), out_axes arity / missing axis on results, jnp.stack of per-iteration values of unequal shapes; those are tied by the correspondence run (error kinds carry_refs, out_none, multiple_carry, carry_mismatch, length_mismatch, arity) only',
    'vmap_eq_per_index + vmap_accepts_iff / vmap_rejects_iff: complete on the model - nnx.vmap returns iff VmapAccepts (no Carry / bare StateAxes in the axes, positive unbatchedness verdict, in_axes matching the arguments, every occurrence of every Variable an axis and the same one, all mapped leaves of one size n with axis_size = n if given and something mapped if not, vmapSpecN n defined), and then returns the reference\'s result. Remaining assumptions only: jax\'s unbatchedness check enters by its verdict; the single-trace hypothesis TraceUniform (all indices return equally many results of the same kinds, fresh nodes with the same Variables and distinct paths); foreign JAX error classes are compared by the correspondence run',
    'grad_value_aux_effects_once / grad_depends_on_extension_only: everything up to the call of jax.value_and_grad and after it is proved; that the returned numbers are the derivative is assumption A-AD (label: partial); the identification of GradFn\'s merged input with "selected leaves from the argument, unselected closed over" is by definition of gradFn/gradMergeAll and checked by correspondence, not restated per Variable',
  ],
}


class MyParam(nnx.Param):
  pass


class Mod(nnx.Module):
  pass


VT = {'Param': nnx.Param, 'BatchStat': nnx.BatchStat, 'Cache': nnx.Cache, 'MyParam': MyParam}
VT_NAMES = list(VT)
ATTRS = ['a', 'b', 'k', 'w', 'x']


# ------------------------------------------------------------------------------------------------
# recipes: arguments as data
# ------------------------------------------------------------------------------------------------
# node  := {'mod': mid, 'attrs': {name: node}} | {'var': vid}
# vars  := {vid: {'type': name, 'value': np.ndarray(float32, integer-valued)}}
# arg   := node | {'arr': np.ndarray}


def build(args, vars_, values=None):
  """Fresh Python objects for the recipe; `values` overrides Variable values (vid -> array).
  Returns (python args, {vid: Variable})."""
  mods, vobjs = {}, {}

  def mk(node):
    if 'var' in node:
      vid = node['var']
      if vid not in vobjs:
        val = vars_[vid]['value'] if values is None or vid not in values else values[vid]
        vobjs[vid] = VT[vars_[vid]['type']](jnp.asarray(val))
      return vobjs[vid]
    mid = node['mod']
    if mid in mods:
      return mods[mid]
    m = Mod()
    mods[mid] = m
    for name in sorted(node['attrs']):
      setattr(m, name, mk(node['attrs'][name]))
    return m

  out = []
  for a in args:
    out.append(jnp.asarray(a['arr']) if 'arr' in a else mk(a))
  return out, vobjs


def entries(node):
  """Independent rendering of what `graph.iter_graph` yields for Variables: DFS over sorted attribute names, graph
  nodes visited once, Variables yielded at every path."""
  out, seen = [], set()

  def walk(n, path):
    if 'var' in n:
      out.append((path, n['var']))
      return
    if n['mod'] in seen:
      return
    seen.add(n['mod'])
    for name in sorted(n['attrs']):
      walk(n['attrs'][name], path + (name,))

  walk(node, ())
  return out


def reach_order(args):
  """Variables in the order of their first occurrence over all arguments (the order `ref_index` numbers them)."""
  order = []
  for a in args:
    if 'arr' in a:
      continue
    for _, vid in entries(a):
      if vid not in order:
        order.append(vid)
  return order


def info_json(tname):
  return {'types': [c.__name__ for c in VT[tname].__mro__], 'tag': None}


# ------------------------------------------------------------------------------------------------
# filters and prefixes as data
# ------------------------------------------------------------------------------------------------


def nf_python(j):
  if j == 'everything':
    return filterlib.Everything()
  if j == 'nothing':
    return filterlib.Nothing()
  if 'type' in j:
    return filterlib.OfType(VT[j['type']])
  if 'contains' in j:
    return filterlib.PathContains(j['contains'])
  if 'any' in j:
    return filterlib.Any(*[nf_python(x) for x in j['any']])
  if 'all' in j:
    return filterlib.All(*[nf_python(x) for x in j['all']])
  if 'not' in j:
    return filterlib.Not(nf_python(j['not']))
  raise ValueError(j)


def nf_sugar(j, last):
  """the literal forms users write (type objects, `...` in last position)"""
  if j == 'everything' and last:
    return ...
  if isinstance(j, dict) and 'type' in j:
    return VT[j['type']]
  return nf_python(j)


def nf_eval(j, path, tname):
  """independent reading of the documented meaning of each filter form"""
  if j == 'everything':
    return True
  if j == 'nothing':
    return False
  if 'type' in j:
    return issubclass(VT[tname], VT[j['type']])
  if 'contains' in j:
    return j['contains'] in path
  if 'any' in j:
    return any(nf_eval(x, path, tname) for x in j['any'])
  if 'all' in j:
    return all(nf_eval(x, path, tname) for x in j['all'])
  if 'not' in j:
    return not nf_eval(j['not'], path, tname)
  raise ValueError(j)


def ax_python(a):
  return nnx.Carry if a == 'carry' else a


def prefix_python(p, sugar=False):
  if isinstance(p, dict):
    items = p['sa']
    n = len(items)
    pairs = [((nf_sugar(f, i == n - 1) if sugar else nf_python(f)), ax_python(a)) for i, (f, a) in enumerate(items)]
    return nnx.StateAxes(pairs)
  return ax_python(p)


def axes_python(spec, sugar=False):
  if 'u' in spec:
    return prefix_python(spec['u'], sugar)
  return tuple(prefix_python(p, sugar) for p in spec['t'])


def prefix_at(p, path, tname):
  """the axis a prefix gives one Variable (first matching filter); 'noaxis' when none matches"""
  if isinstance(p, dict):
    for f, a in p['sa']:
      if nf_eval(f, path, tname):
        return a
    return 'noaxis'
  return p


def expand(spec, n):
  if 'u' in spec:
    return [spec['u']] * n
  return list(spec['t']) if len(spec['t']) == n else None


# ------------------------------------------------------------------------------------------------
# traced functions as data
# ------------------------------------------------------------------------------------------------
# ref  := ['v', argi, [path]] | ['a', argi]
# stmt := ['set', ref_v, c0, ref|None, c1, c2]      target = c0*target + c1*total(src) + c2
# out  := ['tot', ref, c] | ['val', ref, c] | ['node', [[name, tname, ref, c], …]] | ['carry']


def _get(ref, args):
  if ref[0] == 'a':
    return args[ref[1]]
  o = args[ref[1]]
  for name in ref[2]:
    o = getattr(o, name)
  return o.value


def _var(ref, args):
  o = args[ref[1]]
  for name in ref[2]:
    o = getattr(o, name)
  return o


def make_fn(prog, carry_arg=None, single=False):
  """The Python function for a program.  `carry_arg`: index of the argument returned at a ['carry'] result."""

  def f(*args):
    for st in prog['stmts']:
      _, tgt, c0, src, c1, c2 = st
      v = _var(tgt, args)
      new = v.value * c0 + c2
      if src is not None:
        new = new + jnp.sum(_get(src, args)) * c1
      v.value = new
    outs = []
    for o in prog['outs']:
      if o[0] == 'tot':
        outs.append(jnp.sum(_get(o[1], args)) * o[2])
      elif o[0] == 'val':
        outs.append(_get(o[1], args) * o[2])
      elif o[0] == 'carry':
        outs.append(args[carry_arg])
      else:
        m = Mod()
        for name, tname, ref, c in o[1]:
          setattr(m, name, VT[tname](_get(ref, args) * c))
        outs.append(m)
    if single:
      assert len(outs) == 1
      return outs[0]
    return tuple(outs)

  return f


# ------------------------------------------------------------------------------------------------
# canonical forms
# ------------------------------------------------------------------------------------------------


def arr_json(a):
  a = np.asarray(a)
  return {'s': list(a.shape), 'd': [int(x) for x in a.reshape(-1).tolist()]}


def is_integral(a):
  a = np.asarray(a, dtype=np.float64)
  return bool(np.all(np.isfinite(a)) and np.all(a == np.round(a)) and np.all(np.abs(a) < 2**24))


def out_json(o, carry_ref=None):
  """canonical form of one result of a transform / of the eager function"""
  if isinstance(o, Mod):
    if carry_ref is not None and o is carry_ref[0]:
      return {'ref': carry_ref[1]}
    flat = []
    for name in sorted(n for n in vars(o) if n != '_object__state'):
      v = getattr(o, name)
      flat.append([[name], info_json(type(v).__name__), arr_json(v.value)])
    return {'node': flat}
  return {'arr': arr_json(o)}


def exc_class(e):
  return type(e).__name__


def store_json(order, vals):
  return [[vid, arr_json(vals[vid])] for vid in order]


def args_json(args, vars_):
  out = []
  for a in args:
    if 'arr' in a:
      out.append({'arr': arr_json(a['arr'])})
    else:
      out.append({'node': [[list(p), vid, info_json(vars_[vid]['type'])] for p, vid in entries(a)]})
  return out


def recipe_json(case):
  """JSON-able copy of a case (numpy arrays → lists)"""

  def conv(x):
    if isinstance(x, np.ndarray):
      return {'__nd__': x.astype(int).tolist(), 'shape': list(x.shape)}
    if isinstance(x, dict):
      return {str(k): conv(v) for k, v in x.items()}
    if isinstance(x, (list, tuple)):
      return [conv(v) for v in x]
    return x

  return conv(case)


def recipe_unjson(x):
  if isinstance(x, dict):
    if '__nd__' in x:
      return np.asarray(x['__nd__'], dtype=np.float32).reshape(x['shape'])
    out = {}
    for k, v in x.items():
      out[int(k) if k.lstrip('-').isdigit() else k] = recipe_unjson(v)
    return out
  if isinstance(x, list):
    return [recipe_unjson(v) for v in x]
  return x


# ------------------------------------------------------------------------------------------------
# roles: what every Variable is, decided independently of flax
# ------------------------------------------------------------------------------------------------


def roles_of(case_args, vars_, prefixes):
  """vid -> axis/None/'carry' by the first matching filter at the path of each occurrence.
  Returns (roles, status) with status in 'ok' | 'noaxis' | 'inconsistent' (in the order flax meets them)."""
  seen = {}
  for a, p in zip(case_args, prefixes):
    if 'arr' in a:
      continue
    for path, vid in entries(a):
      ax = prefix_at(p, path, vars_[vid]['type'])
      if ax == 'noaxis':
        return seen, 'noaxis'
      seen.setdefault(vid, []).append(ax)
    if any(len(set(map(repr, v))) > 1 for v in seen.values()):
      return seen, 'inconsistent'
  return {vid: v[0] for vid, v in seen.items()}, 'ok'


def take(v, i, ax):
  return jnp.take(v, i, axis=ax)


# ------------------------------------------------------------------------------------------------
# generators
# ------------------------------------------------------------------------------------------------


class _Ctx:
  def __init__(self):
    self.mods = []
    self.vids = []
    self.types = {}


def gen_node(rng, depth, g, share_p, max_vars):
  m = {'mod': len(g.mods), 'attrs': {}}
  g.mods.append(m)
  for name in rng.sample(ATTRS, rng.randint(1, 3)):
    r = rng.random()
    if depth < 1 and r < 0.3:
      if len(g.mods) > 1 and rng.random() < share_p:
        m['attrs'][name] = rng.choice(g.mods[:-1])  # a shared sub-module (never an ancestor: ids grow downwards)
      else:
        m['attrs'][name] = gen_node(rng, depth + 1, g, share_p, max_vars)
    else:
      if g.vids and (rng.random() < share_p or len(g.vids) >= max_vars):
        m['attrs'][name] = {'var': rng.choice(g.vids)}
      else:
        vid = len(g.vids)
        g.vids.append(vid)
        g.types[vid] = rng.choice(VT_NAMES)
        m['attrs'][name] = {'var': vid}
  return m


def _acyclic(node, stack=()):
  if 'var' in node:
    return True
  if node['mod'] in stack:
    return False
  return all(_acyclic(c, stack + (node['mod'],)) for c in node['attrs'].values())


def gen_filter(rng):
  atoms = [{'type': t} for t in VT_NAMES] + [{'contains': n} for n in ATTRS]
  r = rng.random()
  if r < 0.6:
    return rng.choice(atoms)
  if r < 0.75:
    return {'not': rng.choice(atoms)}
  if r < 0.9:
    return {'any': [rng.choice(atoms), rng.choice(atoms)]}
  return {'all': [rng.choice(atoms), {'not': rng.choice(atoms)}]}


def gen_state_axes(rng, axes_pool, total_p=0.8):
  n = rng.randint(1, 3)
  items = [[gen_filter(rng), rng.choice(axes_pool)] for _ in range(n)]
  if rng.random() < total_p:
    items.append(['everything', rng.choice(axes_pool)])
  return {'sa': items}


def gen_values(rng, shape):
  return np.asarray([rng.randint(-3, 3) for _ in range(int(np.prod(shape)))], dtype=np.float32).reshape(shape)


def gen_shape_for(rng, ax, n):
  """a shape whose axis `ax` (int in [-r, r)) has size n; any small shape for None / 'carry'"""
  if isinstance(ax, int):
    need = ax + 1 if ax >= 0 else -ax
    r = rng.choice([need, max(need, 2), max(need, 3), max(need, 3)])
    shape = [rng.choice([1, 2, 2, 3]) for _ in range(r)]  # distinct-looking dims: a wrong permutation shows
    shape[ax] = n
    return tuple(shape)
  return tuple(rng.randint(1, 3) for _ in range(rng.randint(0, 2)))


def var_refs(args):
  return [['v', i, list(p)] for i, a in enumerate(args) if 'arr' not in a for p, _ in entries(a)]


def ref_vid(ref, args):
  node = args[ref[1]]
  for name in ref[2]:
    node = node['attrs'][name]
  return node['var']


def gen_prog(rng, args, tainted, frozen, n_stmts, n_outs, allow_node=True):
  """tainted(ref) -> bool (depends on a mapped input); frozen(vid) -> must not receive tainted data / be written"""
  vrefs = var_refs(args)
  arefs = [['a', i] for i, a in enumerate(args) if 'arr' in a]
  allrefs = vrefs + arefs
  taint = {}

  def is_t(ref):
    if ref[0] == 'a':
      return tainted(ref)
    return taint.get(ref_vid(ref, args), tainted(ref))

  stmts = []
  for _ in range(n_stmts):
    if not vrefs:
      break
    tgt = rng.choice(vrefs)
    vid = ref_vid(tgt, args)
    fr = frozen(vid)
    if fr == 'nowrite':
      continue
    cands = [r for r in allrefs if not (fr == 'untainted' and is_t(r))]
    src = rng.choice(cands) if cands and rng.random() < 0.7 else None
    stmts.append(['set', tgt, rng.choice([1, 1, 2, -1, 0]), src, rng.choice([1, -1, 2]), rng.choice([0, 1, 3])])
    taint[vid] = is_t(tgt) or (src is not None and is_t(src))
  outs = []
  for _ in range(n_outs):
    r = rng.random()
    if r < 0.4 or not allrefs:
      outs.append(['tot', rng.choice(allrefs), rng.choice([1, 2, -1])] if allrefs else ['tot', ['a', 0], 1])
    elif r < 0.8 or not allow_node:
      outs.append(['val', rng.choice(allrefs), rng.choice([1, 2, -1])])
    else:
      names = rng.sample(ATTRS, rng.randint(1, 2))
      outs.append(['node', [[nm, rng.choice(VT_NAMES), rng.choice(allrefs), rng.choice([1, 2])] for nm in names]])
  return {'stmts': stmts, 'outs': outs}, taint


def final_taint(prog, args, base):
  """data dependence on a mapped input, the way jax's batching sees it (x*0 stays batched)"""
  taint = {}

  def is_t(ref):
    if ref[0] == 'a':
      return base(ref)
    return taint.get(ref_vid(ref, args), base(ref))

  for st in prog['stmts']:
    _, tgt, c0, src, c1, c2 = st
    taint[ref_vid(tgt, args)] = is_t(tgt) or (src is not None and is_t(src))
  return is_t


def out_rank(o, rank_of):
  if o[0] == 'tot':
    return 0
  return rank_of(o[1])


def gen_vmap_case(rng, kind):
  """kind: 'ok' or one of the deliberate error kinds"""
  for _ in range(200):
    n = rng.randint(1, 4)
    g = _Ctx()
    nargs = rng.randint(1, 3)
    share_p = 0.3 if kind in ('ok', 'inconsistent') else 0.1
    args = []
    for _i in range(nargs):
      if rng.random() < 0.72 or not any('arr' not in a for a in args) and _i == nargs - 1:
        args.append(gen_node(rng, 0, g, share_p, 5))
      else:
        args.append({'arr': None})
    if not all(_acyclic(a) for a in args if 'arr' not in a):
      continue
    pool = [0, 0, 1, -1, -2, 2, None, None]
    prefixes = []
    for a in args:
      if 'arr' in a:
        prefixes.append(rng.choice([0, 0, 1, -1, 2, None]))
      elif rng.random() < 0.65:
        prefixes.append(gen_state_axes(rng, pool))
      else:
        prefixes.append(rng.choice([0, 1, -1, None]))
    vars_ = {vid: {'type': g.types[vid]} for vid in g.vids}
    roles, status = roles_of(args, vars_, prefixes)
    want = kind if kind in ('noaxis', 'inconsistent') else 'ok'
    if status != want:
      continue
    if status == 'ok' and not any(isinstance(a, int) for a in list(roles.values()) + [p for a, p in zip(args, prefixes) if 'arr' in a]):
      if rng.random() < 0.8:
        continue  # nothing mapped: keep a few (axis_size decides)
    # shapes and values
    for vid in g.vids:
      ax = roles.get(vid) if status == 'ok' else None
      if isinstance(ax, list):
        ax = None
      vars_[vid]['value'] = gen_values(rng, gen_shape_for(rng, ax, n))
    for a, p in zip(args, prefixes):
      if 'arr' in a:
        a['arr'] = gen_values(rng, gen_shape_for(rng, p, n))
    mapped_any = any(isinstance(a, int) for a in roles.values()) or any(isinstance(p, int) for a, p in zip(args, prefixes) if 'arr' in a)
    axis_size = None if mapped_any and rng.random() < 0.8 else n
    if status != 'ok':
      prog = {'stmts': [], 'outs': [['tot', var_refs(args)[0], 1]]}
      out_axes = {'u': 0}
      case = {'t': 'vmap', 'kind': kind, 'n': n, 'args': args, 'vars': vars_, 'in_axes': {'t': prefixes}, 'out_axes': out_axes, 'axis_size': axis_size, 'prog': prog}
      return case

    def base(ref):
      if ref[0] == 'a':
        return isinstance(prefixes[ref[1]], int)
      return isinstance(roles[ref_vid(ref, args)], int)

    def frozen(vid):
      return 'untainted' if roles[vid] is None and kind != 'batched_none' else None

    prog, _ = gen_prog(rng, args, base, frozen, rng.randint(0, 3), rng.randint(1, 3))
    is_t = final_taint(prog, args, base)

    def rank_of(ref):
      if ref[0] == 'a':
        return args[ref[1]]['arr'].ndim - (1 if isinstance(prefixes[ref[1]], int) else 0)
      vid = ref_vid(ref, args)
      return vars_[vid]['value'].ndim - (1 if isinstance(roles[vid], int) else 0)

    outp = []
    for o in prog['outs']:
      if o[0] == 'node':
        ranks = [rank_of(x[2]) for x in o[1]]
        lo = min(ranks) + 1
        pool_o = [k for k in (0, 1, -1, -2, 2) if -lo <= k < lo]
        if all(not is_t(x[2]) for x in o[1]) and rng.random() < 0.3:
          pool_o = pool_o + [None]
        if rng.random() < 0.6:
          p = gen_state_axes(rng, pool_o, total_p=1.0)
          # None only where the value is unbatched
          outp.append(p)
        else:
          outp.append(rng.choice(pool_o))
      else:
        rk = out_rank(o, rank_of) + 1
        pool_o = [k for k in (0, 0, 1, -1, -2, 2, 2) if -rk <= k < rk]
        untainted = not is_t(o[1])
        outp.append(None if untainted and rng.random() < 0.4 else rng.choice(pool_o))
    if len(set(map(repr, outp))) == 1 and rng.random() < 0.5 and (not isinstance(outp[0], dict) or len(outp) == 1):
      out_axes = {'u': outp[0]}
    else:
      out_axes = {'t': outp}
    in_axes = {'u': prefixes[0]} if len(set(map(repr, prefixes))) == 1 and rng.random() < 0.5 and not isinstance(prefixes[0], dict) else {'t': prefixes}
    case = {'t': 'vmap', 'kind': kind, 'n': n, 'args': args, 'vars': vars_, 'in_axes': in_axes, 'out_axes': out_axes, 'axis_size': axis_size, 'prog': prog}
    # deliberate error kinds derived from a valid case
    if kind == 'arity':
      case['in_axes'] = {'t': prefixes + [0]}
    elif kind == 'out_arity':
      case['out_axes'] = {'t': outp + [0]}
    elif kind == 'sa_on_array':
      idx = [i for i, a in enumerate(args) if 'arr' in a]
      if not idx:
        continue
      prefixes = list(prefixes)
      prefixes[idx[0]] = {'sa': [['everything', 0]]}
      case['in_axes'] = {'t': prefixes}
    elif kind == 'bare_state_axes':
      if not (len(args) == 1 and isinstance(prefixes[0], dict)):
        continue
      case['in_axes'] = {'u': prefixes[0]}
    elif kind == 'carry_axis':
      idx = [i for i, a in enumerate(args) if 'arr' not in a]
      prefixes = list(prefixes)
      prefixes[idx[0]] = {'sa': [['everything', 'carry']]}
      case['in_axes'] = {'t': prefixes}
    elif kind == 'size_mismatch':
      cand = [vid for vid in roles if isinstance(roles[vid], int)]
      if not cand or len([1 for a in roles.values() if isinstance(a, int)]) + sum(isinstance(p, int) for a, p in zip(args, prefixes) if 'arr' in a) < 2:
        continue
      vid = cand[0]
      shape = list(vars_[vid]['value'].shape)
      shape[roles[vid]] = n + 1
      vars_[vid]['value'] = gen_values(rng, tuple(shape))
      case['axis_size'] = None
    elif kind == 'batched_none':
      # some None-routed Variable (or None result) must receive mapped data
      none_bad = any(roles[v] is None and is_t(r) for r in var_refs(args) for v in [ref_vid(r, args)])
      if not none_bad:
        continue
    return case
  return None


# ------------------------------------------------------------------------------------------------
# vmap: reference, real run, model
# ------------------------------------------------------------------------------------------------


def _slice_values(args, vars_, roles, prefixes, i):
  vals = {}
  for vid, ax in roles.items():
    v = jnp.asarray(vars_[vid]['value'])
    vals[vid] = take(v, i, ax) if isinstance(ax, int) else v
  arrs = {}
  for k, (a, p) in enumerate(zip(args, prefixes)):
    if 'arr' in a:
      v = jnp.asarray(a['arr'])
      arrs[k] = take(v, i, p) if isinstance(p, int) else v
  return vals, arrs


def eager_call(case, vals, arrs, carry_arg=None, single=False):
  """one eager call of the untransformed function on objects rebuilt from the recipe with the given values.
  Returns (row for the model's table, {vid: value after}, outs)"""
  args, vars_ = case['args'], case['vars']
  a2 = [({'arr': np.asarray(arrs[k])} if 'arr' in a else a) for k, a in enumerate(args)]
  objs, vobjs = build(a2, vars_, vals)
  order = reach_order(args)
  in_store = store_json(order, {vid: vobjs[vid].value for vid in order})
  in_arrs = [arr_json(arrs[k]) for k, a in enumerate(args) if 'arr' in a]
  f = make_fn(case['prog'], carry_arg=carry_arg, single=False)
  try:
    outs = f(*objs)
  except Exception as e:  # the traced function itself failed: a row that raises
    return [[in_store, in_arrs], exc_class(e)], None, None
  after = {vid: vobjs[vid].value for vid in order}
  cref = (objs[carry_arg], carry_arg) if carry_arg is not None and isinstance(objs[carry_arg], Mod) else None
  outs_j = [out_json(o, cref) for o in outs]
  row = [[in_store, in_arrs], [store_json(order, after), outs_j]]
  return row, after, outs


def node_out_roles(o, p):
  """axis of every Variable of a fresh result node under out prefix p"""
  return {name: prefix_at(p, (name,), tname) for name, tname, _, _ in o[1]}


def ref_vmap(case):
  """explicit per-index calls + jnp.stack; returns dict(rows, store, outs) or None when the reference is undefined"""
  args, vars_ = case['args'], case['vars']
  prefixes = expand(case['in_axes'], len(args))
  roles, status = roles_of(args, vars_, prefixes)
  assert status == 'ok'
  n = case['n']
  rows, afters, outss = [], [], []
  for i in range(n):
    vals, arrs = _slice_values(args, vars_, roles, prefixes, i)
    row, after, outs = eager_call(case, vals, arrs)
    rows.append(row)
    if after is None:
      return {'rows': rows, 'raises': row[1]}
    afters.append(after)
    outss.append(outs)
  store = {}
  shared_ok = True
  for vid in vars_:
    if vid not in roles:
      store[vid] = jnp.asarray(vars_[vid]['value'])
    elif isinstance(roles[vid], int):
      store[vid] = jnp.stack([a[vid] for a in afters], axis=roles[vid])
    else:
      store[vid] = afters[0][vid]
      shared_ok = shared_ok and all(np.array_equal(a[vid], afters[0][vid]) for a in afters)
  outp = expand(case['out_axes'], len(case['prog']['outs']))
  outs = []
  for k, (o, p) in enumerate(zip(case['prog']['outs'], outp)):
    col = [os[k] for os in outss]
    if o[0] == 'node':
      r = node_out_roles(o, p)
      flat = []
      for name in sorted(r):
        tname = [x[1] for x in o[1] if x[0] == name][0]
        vs = [getattr(m, name).value for m in col]
        if isinstance(r[name], int):
          v = jnp.stack(vs, axis=r[name])
        else:
          v = vs[0]
          shared_ok = shared_ok and all(np.array_equal(x, vs[0]) for x in vs)
        flat.append([[name], info_json(tname), arr_json(v)])
      outs.append({'node': flat})
    elif isinstance(p, int):
      outs.append({'arr': arr_json(jnp.stack(col, axis=p))})
    else:
      outs.append({'arr': arr_json(col[0])})
      shared_ok = shared_ok and all(np.array_equal(x, col[0]) for x in col)
  return {'rows': rows, 'store': {vid: arr_json(v) for vid, v in store.items()}, 'outs': outs, 'shared_ok': shared_ok}


def vmap_verdict(case):
  """would jax find every None-declared state / result unbatched?  (data dependence on a mapped input)"""
  args, vars_ = case['args'], case['vars']
  prefixes = expand(case['in_axes'], len(args))
  roles, _ = roles_of(args, vars_, prefixes)

  def base(ref):
    if ref[0] == 'a':
      return isinstance(prefixes[ref[1]], int)
    return isinstance(roles[ref_vid(ref, args)], int)

  is_t = final_taint(case['prog'], args, base)
  for r in var_refs(args):
    if roles[ref_vid(r, args)] is None and is_t(r):
      return False
  outp = expand(case['out_axes'], len(case['prog']['outs']))
  if outp is None:
    return True
  for o, p in zip(case['prog']['outs'], outp):
    if o[0] == 'node':
      rr = node_out_roles(o, p)
      for name, _, ref, _ in o[1]:
        if rr[name] is None and is_t(ref):
          return False
    elif p is None and is_t(o[1]):
      return False
  return True


def run_real(case, transform):
  """the real transform on fresh objects; returns ('ok', outs_json, {vid: arr_json}) or ('err', cls, {vid: arr_json})"""
  objs, vobjs = build(case['args'], case['vars'])
  try:
    outs = transform(objs)
    res = ('ok', outs)
  except Exception as e:
    res = ('err', exc_class(e))
  store = {}
  for vid in case['vars']:
    if vid in vobjs:
      try:
        store[vid] = arr_json(vobjs[vid].value)
      except Exception:
        store[vid] = 'unreadable'
    else:
      store[vid] = arr_json(case['vars'][vid]['value'])
  return res, store, objs


def model_req_common(case):
  return {
    'args': args_json(case['args'], case['vars']),
    'store': [[vid, arr_json(case['vars'][vid]['value'])] for vid in sorted(case['vars'])],
  }


def model_store(m):
  return {p[0]: p[1] for p in m['store']}


def check_vmap(ctx, drv, cases):
  reqs, recs = [], []
  for case in cases:
    args, vars_ = case['args'], case['vars']
    prefixes = expand(case['in_axes'], len(args))
    status = 'arity' if prefixes is None else roles_of(args, vars_, prefixes)[1]
    ref = None
    if case['kind'] in ('ok', 'batched_none', 'out_arity') and status == 'ok':
      try:
        ref = ref_vmap(case) if case['kind'] != 'out_arity' else {'rows': ref_vmap(dict(case, out_axes={'u': 0}, prog=dict(case['prog'], outs=[['tot', o[1] if o[0] != 'node' else o[1][0][2], 1] for o in case['prog']['outs']])))['rows']}
      except Exception as e:
        ref = {'rows': [], 'ref_failed': exc_class(e)}
    verdict = vmap_verdict(case) if status == 'ok' else True
    single = isinstance(case['out_axes'].get('u'), dict) and len(case['prog']['outs']) == 1
    f = make_fn(case['prog'], single=single)
    sugar = ctx.rng.random() < 0.5
    form = pick_form(ctx, case, 'vmap')

    def transform(objs, case=case, f=f, sugar=sugar, single=single, form=form):
      r = construct(nnx.vmap, f, form, in_axes=axes_python(case['in_axes'], sugar), out_axes=axes_python(case['out_axes'], sugar), axis_size=case['axis_size'])(*objs)
      return (r,) if single else r

    res, store, _ = run_real(case, transform)
    req = dict(model_req_common(case), in_axes=case['in_axes'], out_axes=case['out_axes'], axis_size=case['axis_size'], verdict=verdict, body=(ref or {}).get('rows', []))
    reqs.append(('vmap', req))
    recs.append((case, ref, verdict, res, store))
  outs = drv.run(reqs)
  for (case, ref, verdict, res, store), m in zip(recs, outs):
    cj = recipe_json(case)
    nontrivial = case['kind'] != 'ok' or any(isinstance(p, dict) for p in case['in_axes'].get('t', [case['in_axes'].get('u')]))
    ctx.case(cj, nontrivial=nontrivial)
    ctx.count('vmap_kind', case['kind'])
    ctx.count('vmap_n', case['n'])
    ctx.count('vmap_result', res[0] if res[0] == 'ok' else res[1])
    orig = {vid: arr_json(case['vars'][vid]['value']) for vid in case['vars']}
    if res[0] == 'ok':
      real_outs = [out_json(o) for o in res[1]]
    # ---- property oracle on the implementation
    if case['kind'] == 'ok' and ref is not None and 'store' in ref and ref.get('shared_ok') and verdict:
      if res[0] != 'ok':
        ctx.violation('vmap-raises-on-valid', f'nnx.vmap raised {res[1]} where the per-index reference is defined', cj)
        continue
      if store != ref['store']:
        bad = sorted(v for v in store if store[v] != ref['store'][v])
        ctx.violation('vmap-state-differs', f'after nnx.vmap the Variables {bad} differ from stack-of-per-index-updates / shared value: got {[store[v] for v in bad]}, reference {[ref["store"][v] for v in bad]}', cj)
        continue
      if real_outs != ref['outs']:
        ctx.violation('vmap-output-differs', f'nnx.vmap results {real_outs} differ from the stack of per-index results {ref["outs"]}', cj)
        continue
    elif case['kind'] in ('noaxis', 'inconsistent', 'arity', 'out_arity', 'sa_on_array', 'carry_axis', 'bare_state_axes', 'size_mismatch', 'batched_none') or not verdict:
      if res[0] == 'ok':
        key = {'inconsistent': 'vmap-inconsistent-aliasing-accepted', 'noaxis': 'vmap-no-axis-accepted'}.get(case['kind'], 'vmap-invalid-accepted-' + case['kind'])
        ctx.violation(key, f'nnx.vmap accepted a {case["kind"]} configuration and returned {real_outs}', cj)
        continue
      if store != orig:
        ctx.violation('vmap-rejected-but-mutated', f'nnx.vmap raised {res[1]} but changed the arguments', cj)
        continue
    # ---- correspondence with the model
    if m[0] == 'ok':
      mm = (('ok', m[1]['outs']), {int(k): v for k, v in model_store(m[1]).items()})
      rr = (('ok', real_outs), store) if res[0] == 'ok' else (res, store)
    else:
      mm = (('err', m[1]), orig)
      rr = ((res[0], res[1]) if res[0] == 'err' else ('ok', real_outs), store)
    if mm != rr:
      ctx.disagreements_checked += 1
      ctx.violation('vmap-model-mismatch-' + case['kind'], f'model {str(mm)[:400]} vs implementation {str(rr)[:400]}', cj, concrete=False)


# ------------------------------------------------------------------------------------------------
# scan
# ------------------------------------------------------------------------------------------------
# extra result kinds: ['carry'] (the carry argument itself, a graph node), ['acarry', c0, ref|None, c1, c2] (new value
# of an array carry: c0*carry + c1*total(ref) + c2), ['fresh'] (a *new* graph node where the carry is expected)


def make_scan_fn(prog, carry_arg, single):
  base = make_fn({'stmts': prog['stmts'], 'outs': []})

  def f(*args):
    base(*args)
    outs = []
    for o in prog['outs']:
      if o[0] == 'carry':
        outs.append(args[carry_arg])
      elif o[0] == 'acarry':
        new = args[carry_arg] * o[1] + o[4]
        if o[2] is not None:
          new = new + jnp.sum(_get(o[2], args)) * o[3]
        outs.append(new)
      elif o[0] == 'fresh':
        m = Mod()
        m.a = nnx.Param(jnp.zeros(()))
        outs.append(m)
      elif o[0] == 'tot':
        outs.append(jnp.sum(_get(o[1], args)) * o[2])
      elif o[0] == 'val':
        outs.append(_get(o[1], args) * o[2])
      else:
        m = Mod()
        for name, tname, ref, c in o[1]:
          setattr(m, name, VT[tname](_get(ref, args) * c))
        outs.append(m)
    return outs[0] if single else tuple(outs)

  return f


def carry_pos(spec):
  """independent reading of `_get_carry_argnum`: 'all' | None | int | 'multiple'"""
  if 'u' in spec:
    return 'all' if spec['u'] == 'carry' else None
  idx = [i for i, p in enumerate(spec['t']) if p == 'carry']
  if not idx:
    return None
  return idx[0] if len(idx) == 1 else 'multiple'


def out_axes_problem(spec):
  """independent reading of `_check_out_axes`: None anywhere, or None / Carry inside a StateAxes"""
  ps = [spec['u']] if 'u' in spec else spec['t']
  for p in ps:
    if p is None:
      return True
    if isinstance(p, dict) and any(a is None or a == 'carry' for _, a in p['sa']):
      return True
  return False


def gen_scan_case(rng, kind):
  # 'ok_bcast': a valid case with two or three in_axes=None non-graph leaves of distinct values (separate arguments, or
  # one None prefix over a dict / tuple of arrays), each used differently by the function
  bc2 = kind == 'ok_bcast'
  if bc2:
    kind = 'ok'
  for _ in range(300):
    n = rng.randint(1, 4)
    g = _Ctx()
    form = rng.choice(['at', 'at', 'at', 'none', 'all']) if not bc2 else rng.choice(['at', 'at', 'none'])
    if kind in ('carry_refs', 'multiple_carry', 'carry_mismatch'):
      form = 'at'
    if kind == 'carry_all_arity':
      form = 'all'
    nargs = 1 if form == 'all' and kind != 'carry_all_arity' else rng.randint(1, 3)
    if kind == 'carry_all_arity':
      nargs = 2
    share_p = 0.25 if kind in ('ok', 'inconsistent') else 0.1
    cpos = rng.randrange(nargs) if form == 'at' else (0 if form == 'all' else None)
    args, prefixes = [], []
    pool = [0, 0, 1, -1, 2, -2, None, 'carry']
    for i in range(nargs):
      is_node = rng.random() < 0.7
      if kind == 'carry_refs' and i == cpos:
        is_node = True
      if kind == 'sa_on_array' and i != cpos and not any('arr' in a for a in args):
        is_node = False
      args.append(gen_node(rng, 0, g, share_p, 5) if is_node else {'arr': None})
      if i == cpos:
        prefixes.append('carry')
      elif not is_node:
        prefixes.append(rng.choice([0, 0, 1, -1, 2, None]))
      elif rng.random() < 0.7:
        prefixes.append(gen_state_axes(rng, pool))
      else:
        prefixes.append(rng.choice([0, 1, -1, 2, None]))
    group = []
    if bc2:
      kb = rng.choice([2, 2, 3])
      pos = rng.randrange(len(args) + 1)
      args[pos:pos] = [{'arr': None} for _ in range(kb)]
      prefixes[pos:pos] = [None] * kb
      if cpos is not None and pos <= cpos:
        cpos += kb
      nargs += kb
      group = list(range(pos, pos + kb))
    if not all(_acyclic(a) for a in args if 'arr' not in a):
      continue
    vars_ = {vid: {'type': g.types[vid]} for vid in g.vids}
    roles, status = roles_of(args, vars_, prefixes)
    want = kind if kind in ('noaxis', 'inconsistent') else 'ok'
    if status != want:
      continue
    for vid in g.vids:
      ax = roles.get(vid) if status == 'ok' else None
      vars_[vid]['value'] = gen_values(rng, gen_shape_for(rng, ax if isinstance(ax, int) else None, n))
    for a, p in zip(args, prefixes):
      if 'arr' in a:
        a['arr'] = gen_values(rng, gen_shape_for(rng, p if isinstance(p, int) else None, n))
    if group:
      same_shape = rng.random() < 0.5
      shape0 = tuple(rng.randint(1, 3) for _ in range(rng.randint(1, 2)))
      for _try in range(50):
        for j in group:
          args[j]['arr'] = gen_values(rng, shape0 if same_shape else tuple(rng.randint(1, 3) for _ in range(rng.randint(0, 2))))
        sums = [float(args[j]['arr'].sum()) for j in group]
        if len(set(sums)) == len(sums):
          break
    scanned_any = status == 'ok' and (any(isinstance(a, int) for a in roles.values()) or any(isinstance(p, int) for a, p in zip(args, prefixes) if 'arr' in a))
    length = None if scanned_any and rng.random() < 0.7 else n
    reverse = rng.random() < 0.4
    in_axes = {'u': 'carry'} if form == 'all' else {'t': prefixes}
    if form == 'none' and len(set(map(repr, prefixes))) == 1 and not isinstance(prefixes[0], dict) and rng.random() < 0.5:
      in_axes = {'u': prefixes[0]}
    if status != 'ok':
      outs = ([['carry']] if cpos is not None and 'arr' not in args[cpos] else ([['acarry', 1, None, 0, 0]] if cpos is not None else [])) + [['tot', var_refs(args)[0], 1]]
      out_axes = {'t': (['carry'] if cpos is not None else []) + [0]}
      return {'t': 'scan', 'kind': kind, 'n': n, 'args': args, 'vars': vars_, 'in_axes': in_axes, 'out_axes': out_axes, 'length': length, 'reverse': reverse, 'prog': {'stmts': [], 'outs': outs}, 'cpos': cpos, 'single': False}

    def base(ref):
      return True

    def frozen(vid):
      return 'nowrite' if roles[vid] is None and kind != 'bcast_write' else None

    prog, _ = gen_prog(rng, args, base, frozen, rng.randint(0, 3), rng.randint(0 if cpos is not None else 1, 2))
    for c, j in zip([1, 2, -1], group):
      prog['outs'].append(['tot', ['a', j], c])
    if group and rng.random() < 0.5:
      prog['outs'].append(['val', ['a', group[0]], 1])
    if kind == 'bcast_write':
      cand = [r for r in var_refs(args) if roles[ref_vid(r, args)] is None]
      if not cand:
        continue
      prog['stmts'].append(['set', rng.choice(cand), 1, None, 0, 1])

    def rank_of(ref):
      if ref[0] == 'a':
        return args[ref[1]]['arr'].ndim - (1 if isinstance(prefixes[ref[1]], int) else 0)
      vid = ref_vid(ref, args)
      return vars_[vid]['value'].ndim - (1 if isinstance(roles[vid], int) else 0)

    outp = []
    for o in prog['outs']:
      if o[0] == 'node':
        lo = min(rank_of(x[2]) for x in o[1]) + 1
        pool_o = [k for k in (0, 1, -1, -2, 2) if -lo <= k < lo]
        outp.append(gen_state_axes(rng, pool_o, total_p=1.0) if rng.random() < 0.6 else rng.choice(pool_o))
      else:
        rk = out_rank(o, rank_of) + 1
        outp.append(rng.choice([k for k in (0, 0, 1, -1, -2, 2, 2) if -rk <= k < rk]))
    outs = list(prog['outs'])
    single = False
    if cpos is not None:
      cout = rng.randrange(len(outs) + 1)
      if 'arr' in args[cpos]:
        refs = var_refs(args) + [['a', i] for i, a in enumerate(args) if 'arr' in a]
        centry = ['acarry', rng.choice([1, 1, 2, -1]), rng.choice(refs) if rng.random() < 0.7 else None, rng.choice([1, -1]), rng.choice([0, 1])]
      else:
        centry = ['carry'] if kind != 'carry_refs' else ['fresh']
      outs.insert(cout, centry)
      outp.insert(cout, 'carry')
      if form == 'all' and len(outs) == 1 and rng.random() < 0.6:
        out_axes = {'u': 'carry'}
        single = True
      else:
        out_axes = {'t': outp}
    else:
      if len(set(map(repr, outp))) == 1 and rng.random() < 0.5:
        out_axes = {'u': outp[0]}
      else:
        out_axes = {'t': outp}
    prog = {'stmts': prog['stmts'], 'outs': outs}
    case = {'t': 'scan', 'kind': kind, 'n': n, 'args': args, 'vars': vars_, 'in_axes': in_axes, 'out_axes': out_axes, 'length': length, 'reverse': reverse, 'prog': prog, 'cpos': cpos, 'single': single}
    if group:
      case['bcast_leaves'] = len(group)
      # the None leaves as separate arguments, or as one dict / tuple argument under a single None prefix
      case['group'] = [group, rng.choice(['dict', 'tuple'])] if 't' in in_axes and rng.random() < 0.6 else None
    if kind == 'out_none':
      if 't' not in out_axes or len(outp) < 2 and cpos is not None and len(outp) < 2:
        continue
      idx = [i for i, p in enumerate(outp) if p != 'carry']
      if not idx:
        continue
      outp = list(outp)
      outp[rng.choice(idx)] = rng.choice([None, {'sa': [[{'type': 'Param'}, 0], ['everything', None]]}, {'sa': [['everything', 'carry']]}])
      case['out_axes'] = {'t': outp}
    elif kind == 'multiple_carry':
      if nargs < 2:
        continue
      j = rng.choice([i for i in range(nargs) if i != cpos])
      prefixes = list(prefixes)
      prefixes[j] = 'carry'
      case['in_axes'] = {'t': prefixes}
    elif kind == 'carry_mismatch':
      if rng.random() < 0.5:
        case['out_axes'] = {'t': [p for p in outp if p != 'carry'] or [0]}
        case['prog'] = {'stmts': prog['stmts'], 'outs': [o for o in outs if o[0] not in ('carry', 'acarry')] or [['tot', (var_refs(args) + [['a', i] for i, a in enumerate(args) if 'arr' in a])[0], 1]]}
      else:
        prefixes = list(prefixes)
        prefixes[cpos] = 0 if 'arr' in args[cpos] else rng.choice([0, None])
        case['in_axes'] = {'t': prefixes}
    elif kind == 'sa_on_array':
      idx = [i for i, a in enumerate(args) if 'arr' in a and i != cpos]
      if not idx or form == 'all':
        continue
      prefixes = list(prefixes)
      prefixes[idx[0]] = {'sa': [['everything', 0]]}
      case['in_axes'] = {'t': prefixes}
    elif kind == 'length_mismatch':
      if not scanned_any:
        continue
      case['length'] = n + 1
    elif kind == 'arity':
      if form == 'all':
        continue
      case['in_axes'] = {'t': prefixes + [0]}
    return case
  return None


def ref_scan(case, rows=None):
  """the explicit Python loop; returns dict(rows, store, outs, bcast_written)"""
  rows = [] if rows is None else rows
  args, vars_ = case['args'], case['vars']
  prefixes = expand(case['in_axes'], len(args))
  roles, status = roles_of(args, vars_, prefixes)
  assert status == 'ok'
  n, cpos = case['n'], case['cpos']
  order = list(range(n))
  if case['reverse']:
    order.reverse()
  cvals = {vid: jnp.asarray(vars_[vid]['value']) for vid, a in roles.items() if a == 'carry'}
  carr = jnp.asarray(args[cpos]['arr']) if cpos is not None and 'arr' in args[cpos] else None
  outs_spec = case['prog']['outs']
  cout = [k for k, o in enumerate(outs_spec) if o[0] in ('carry', 'acarry', 'fresh')]
  cout = cout[0] if cout else None
  recs = {}
  bcast_written = False
  for i in order:
    vals = {}
    for vid, ax in roles.items():
      v = jnp.asarray(vars_[vid]['value'])
      vals[vid] = take(v, i, ax) if isinstance(ax, int) else (cvals[vid] if ax == 'carry' else v)
    arrs = {}
    for k, (a, p) in enumerate(zip(args, prefixes)):
      if 'arr' in a:
        v = jnp.asarray(a['arr'])
        arrs[k] = take(v, i, p) if isinstance(p, int) else (carr if p == 'carry' else v)
    a2 = [({'arr': np.asarray(arrs[k])} if 'arr' in a else a) for k, a in enumerate(args)]
    objs, vobjs = build(a2, vars_, vals)
    order_ids = reach_order(args)
    in_store = store_json(order_ids, {vid: vobjs[vid].value for vid in order_ids})
    in_arrs = [arr_json(arrs[k]) for k, a in enumerate(args) if 'arr' in a]
    f = make_scan_fn(case['prog'], cpos, False)
    outs = f(*objs)
    after = {vid: vobjs[vid].value for vid in order_ids}
    cref = (objs[cpos], cpos) if cpos is not None and isinstance(objs[cpos], Mod) else None
    rows.append([[in_store, in_arrs], [store_json(order_ids, after), [out_json(o, cref) for o in outs]]])
    for vid, ax in roles.items():
      if ax is None and not np.array_equal(after[vid], vals[vid]):
        bcast_written = True
    cvals = {vid: after[vid] for vid in cvals}
    if carr is not None:
      carr = outs[cout]
    recs[i] = (after, outs)
  store = {}
  for vid in vars_:
    if vid not in roles:
      store[vid] = jnp.asarray(vars_[vid]['value'])
    elif isinstance(roles[vid], int):
      store[vid] = jnp.stack([recs[i][0][vid] for i in range(n)], axis=roles[vid])
    elif roles[vid] == 'carry':
      store[vid] = cvals[vid]
    else:
      store[vid] = jnp.asarray(vars_[vid]['value'])
  outp = expand(case['out_axes'], len(outs_spec)) if not ('u' in case['out_axes'] and case['out_axes']['u'] == 'carry') else ['carry']
  outs = []
  for k, (o, p) in enumerate(zip(outs_spec, outp)):
    col = [recs[i][1][k] for i in range(n)]
    if o[0] == 'carry':
      outs.append({'ref': cpos})
    elif o[0] == 'acarry':
      outs.append({'arr': arr_json(carr)})
    elif o[0] == 'node':
      r = node_out_roles(o, p)
      flat = []
      for name in sorted(r):
        tname = [x[1] for x in o[1] if x[0] == name][0]
        flat.append([[name], info_json(tname), arr_json(jnp.stack([getattr(m, name).value for m in col], axis=r[name]))])
      outs.append({'node': flat})
    else:
      outs.append({'arr': arr_json(jnp.stack(col, axis=p))})
  return {'rows': rows, 'store': {vid: arr_json(v) for vid, v in store.items()}, 'outs': outs, 'bcast_written': bcast_written}


def _group_wrapper(f0, lo, k, tkind):
  def g(*gargs):
    t = gargs[lo]
    flat = [t[f'k{j}'] for j in range(k)] if tkind == 'dict' else list(t)
    return f0(*gargs[:lo], *flat, *gargs[lo + 1 :])

  return g


SCAN_ERR_KINDS = ('noaxis', 'inconsistent', 'out_none', 'multiple_carry', 'carry_mismatch', 'carry_all_arity', 'carry_refs', 'sa_on_array', 'length_mismatch', 'arity')


def check_scan(ctx, drv, cases):
  reqs, recs = [], []
  for case in cases:
    args, vars_ = case['args'], case['vars']
    prefixes = expand(case['in_axes'], len(args))
    status = 'arity' if prefixes is None else roles_of(args, vars_, prefixes)[1]
    ref = None
    if case['kind'] in ('ok', 'length_mismatch', 'bcast_write', 'carry_refs') and status == 'ok':
      rows_out = []
      try:
        ref = ref_scan(case, rows_out)
      except Exception as e:
        ref = {'rows': rows_out, 'ref_failed': exc_class(e)}
    sugar = ctx.rng.random() < 0.5
    form = pick_form(ctx, case, 'scan')
    if 'unroll' not in case:
      case['unroll'] = ctx.rng.choice([1, 1, 2])  # semantically irrelevant; must travel with the other options
    ctx.count('construction_form', f"scan:reverse={bool(case['reverse'])}:{form}")

    def transform(objs, case=case, sugar=sugar, form=form):
      f = make_scan_fn(case['prog'], case['cpos'], case['single'])
      in_ax = axes_python(case['in_axes'], sugar)
      call_args = list(objs)
      if case.get('group'):
        # present the None leaves as ONE pytree argument with a single None prefix (broadcast_prefix spreads it)
        idx, tkind = case['group']
        lo, hi = idx[0], idx[-1] + 1
        leaves = call_args[lo:hi]
        tree = {f'k{j}': v for j, v in enumerate(leaves)} if tkind == 'dict' else tuple(leaves)
        call_args[lo:hi] = [tree]
        in_ax = tuple(in_ax[:lo]) + (None,) + tuple(in_ax[hi:])
        f = _group_wrapper(f, lo, hi - lo, tkind)

      r = construct(nnx.scan, f, form, in_axes=in_ax, out_axes=axes_python(case['out_axes'], sugar), length=case['length'], reverse=case['reverse'], unroll=case['unroll'])(*call_args)
      r = (r,) if case['single'] else tuple(r)
      cp = case['cpos']
      cref = (objs[cp], cp) if cp is not None and isinstance(objs[cp], Mod) else None
      return [out_json(o, cref) for o in r]

    res, store, _ = run_real(case, transform)
    n_outs = len([o for o in case['prog']['outs'] if o[0] not in ('carry', 'acarry', 'fresh')])
    req = dict(model_req_common(case), in_axes=case['in_axes'], out_axes=case['out_axes'], length=case['length'], reverse=case['reverse'], n_outs=n_outs, body=(ref or {}).get('rows', []))
    reqs.append(('scan', req))
    recs.append((case, ref, res, store))
  outs = drv.run(reqs)
  for (case, ref, res, store), m in zip(recs, outs):
    cj = recipe_json(case)
    ctx.case(cj, nontrivial=case['kind'] != 'ok' or any(isinstance(p, dict) for p in case['in_axes'].get('t', [])))
    ctx.count('scan_kind', case['kind'])
    ctx.count('scan_n', case['n'])
    ctx.count('scan_form', 'all' if 'u' in case['in_axes'] and case['in_axes']['u'] == 'carry' else ('carry' if case['cpos'] is not None else 'nocarry'))
    ctx.count('scan_reverse', case['reverse'])
    ctx.count('scan_none_leaves', str(case.get('bcast_leaves', sum(1 for a, p in zip(case['args'], expand(case['in_axes'], len(case['args'])) or []) if 'arr' in a and p is None))) + ('/' + case['group'][1] if case.get('group') else ''))
    ctx.count('scan_result', res[0] if res[0] == 'ok' else res[1])
    orig = {vid: arr_json(case['vars'][vid]['value']) for vid in case['vars']}
    if case['kind'] == 'ok' and ref is not None and 'store' in ref and not ref['bcast_written']:
      if res[0] != 'ok':
        ctx.violation('scan-raises-on-valid', f'nnx.scan raised {res[1]} where the Python loop is defined', cj)
        continue
      if store != ref['store']:
        bad = sorted(v for v in store if store[v] != ref['store'][v])
        ctx.violation('scan-state-differs', f'after nnx.scan the Variables {bad} differ from the Python loop: got {[store[v] for v in bad]}, loop {[ref["store"][v] for v in bad]}', cj)
        continue
      if res[1] != ref['outs']:
        ctx.violation('scan-output-differs', f'nnx.scan results {res[1]} differ from the Python loop {ref["outs"]}', cj)
        continue
    elif case['kind'] == 'bcast_write' and ref is not None and 'store' in ref:
      # the loop with the broadcast objects really shared: every write survives; nnx.scan drops them
      if res[0] == 'ok' and ref['bcast_written']:
        ctx.violation('scan-broadcast-write-dropped', 'nnx.scan silently discards writes of the body to Variables routed to None (broadcast): later iterations and the caller see the old value, the Python loop over the shared object does not', cj)
    elif case['kind'] in SCAN_ERR_KINDS:
      if res[0] == 'ok':
        key = {'inconsistent': 'scan-inconsistent-aliasing-accepted', 'out_none': 'scan-out-axes-none-or-carry-accepted', 'carry_refs': 'scan-new-carry-reference-accepted'}.get(case['kind'], 'scan-invalid-accepted-' + case['kind'])
        ctx.violation(key, f'nnx.scan accepted a {case["kind"]} configuration and returned {res[1]}', cj)
        continue
      if store != orig:
        ctx.violation('scan-rejected-but-mutated', f'nnx.scan raised {res[1]} but changed the arguments', cj)
        continue
    if m[0] == 'ok':
      mm = (('ok', m[1]['outs']), {int(k): v for k, v in model_store(m[1]).items()})
    else:
      mm = (('err', m[1]), orig)
    rr = (res, store)
    if mm != rr:
      ctx.disagreements_checked += 1
      ctx.violation('scan-model-mismatch-' + case['kind'], f'model {str(mm)[:400]} vs implementation {str(rr)[:400]}', cj, concrete=False)


# ------------------------------------------------------------------------------------------------
# grad / value_and_grad
# ------------------------------------------------------------------------------------------------
# loss result: ['loss', [[c, ref_a, ref_b|None], …]]  =  Σ c · total(ref_a) · total(ref_b)      (a polynomial)


def make_grad_fn(prog, has_aux):
  base = make_fn({'stmts': prog['stmts'], 'outs': prog['outs'][1:]})

  def f(*args):
    aux = base(*args)
    loss = jnp.zeros((), jnp.float32)
    for c, ra, rb in prog['outs'][0][1]:
      t = jnp.sum(_get(ra, args)) * c
      if rb is not None:
        t = t * jnp.sum(_get(rb, args))
      loss = loss + t
    return (loss, aux) if has_aux else loss

  return f


def owned_by_arg(args):
  """[(argi, path, vid)] for the first occurrence of every Variable (what each argument's State holds)"""
  seen, out = set(), []
  for i, a in enumerate(args):
    if 'arr' in a:
      continue
    for path, vid in entries(a):
      if vid not in seen:
        seen.add(vid)
        out.append((i, path, vid))
  return out


def grad_filters(case):
  """arg index -> filter JSON (DiffState filter, nnx.Param for a bare int) for the differentiated positions"""
  out = {}
  for d in case['argnums']:
    i = d if isinstance(d, int) else d['diff'][0]
    if i in out:
      return None
    out[i] = {'type': 'Param'} if isinstance(d, int) else d['diff'][1]
  return out


def grad_status(case):
  fl = grad_filters(case)
  if fl is None:
    return 'repeated'
  pre = {}
  for i, a in enumerate(case['args']):
    if 'arr' in a:
      continue
    for _, vid in entries(a):
      pre.setdefault(vid, set()).add(repr(fl.get(i)))
    if any(len(v) > 1 for v in pre.values()):
      return 'inconsistent'
  return 'ok'


def gen_grad_case(rng, kind):
  for _ in range(300):
    g = _Ctx()
    nargs = rng.randint(1, 3)
    share_p = 0.3 if kind in ('ok', 'inconsistent') else 0.1
    args = []
    for i in range(nargs):
      if rng.random() < 0.7 or (i == nargs - 1 and not any('arr' not in a for a in args)):
        args.append(gen_node(rng, 0, g, share_p, 5))
      else:
        args.append({'arr': None})
    if not all(_acyclic(a) for a in args if 'arr' not in a):
      continue
    vars_ = {vid: {'type': g.types[vid], 'value': gen_values(rng, tuple(rng.randint(1, 3) for _ in range(rng.randint(0, 2))))} for vid in g.vids}
    for a in args:
      if 'arr' in a:
        a['arr'] = gen_values(rng, tuple(rng.randint(1, 3) for _ in range(rng.randint(0, 2))))
    k = rng.randint(1, nargs)
    idxs = sorted(rng.sample(range(nargs), k))
    if rng.random() < 0.3:
      rng.shuffle(idxs)
    argnums = []
    for i in idxs:
      if rng.random() < 0.55:
        argnums.append({'diff': [i, gen_filter(rng) if rng.random() < 0.8 else 'everything']})
      else:
        argnums.append(i)
    bare = len(argnums) == 1 and rng.random() < 0.5
    case = {'t': 'grad', 'kind': kind, 'args': args, 'vars': vars_, 'argnums': argnums, 'bare': bare, 'has_aux': rng.random() < 0.5, 'value': rng.random() < 0.5}
    if kind == 'repeated':
      case['argnums'] = argnums + [argnums[0] if isinstance(argnums[0], int) else argnums[0]['diff'][0]]
      case['bare'] = False
    st = grad_status(case)
    if st != (kind if kind in ('inconsistent', 'repeated') else 'ok'):
      continue
    refs = var_refs(args) + [['a', i] for i, a in enumerate(args) if 'arr' in a]
    if not refs:
      continue
    prog, _ = gen_prog(rng, args, lambda r: False, lambda v: None, rng.randint(0, 3), rng.randint(0, 2) if case['has_aux'] else 0)
    terms = [[rng.choice([1, 2, -1, 3]), rng.choice(refs), rng.choice(refs) if rng.random() < 0.6 else None] for _ in range(rng.randint(1, 3))]
    case['prog'] = {'stmts': prog['stmts'], 'outs': [['loss', terms]] + prog['outs']}
    return case
  return None


def argnums_python(case):
  out = []
  for d in case['argnums']:
    # a type filter is written the way users write it (`nnx.DiffState(0, nnx.Param)`): the class itself, which is also what
    # a bare integer argnum stands for; every other filter form compares by value
    out.append(d if isinstance(d, int) else nnx.DiffState(d['diff'][0], nf_sugar(d['diff'][1], False)))
  return out[0] if case['bare'] else tuple(out)


def state_flat(st):
  """{path: value} of an nnx.State (public API only)"""
  out = {}
  for path, v in st.flat_state():
    out[tuple(path)] = v.value if hasattr(v, 'value') else v
  return out


def ref_grad(case):
  """jax.value_and_grad of the same loss written as a function of the selected Variables' values"""
  args, vars_ = case['args'], case['vars']
  fl = grad_filters(case)
  own = owned_by_arg(args)
  diff = {}  # vid -> (argi, path)
  for i, path, vid in own:
    if i in fl and nf_eval(fl[i], path, vars_[vid]['type']):
      diff[vid] = (i, path)
  diff_arrs = [i for i in fl if 'arr' in args[i]]
  f = make_grad_fn(case['prog'], case['has_aux'])
  orig = {vid: jnp.asarray(vars_[vid]['value']) for vid in vars_}

  def loss_fn(dv, da):
    a2 = [({'arr': da[k]} if k in da else a) for k, a in enumerate(args)]
    objs, _ = build(a2, vars_, {**orig, **dv})
    # build() converts with jnp.asarray: tracers pass through
    r = f(*objs)
    return r[0] if case['has_aux'] else r

  dv0 = {vid: orig[vid] for vid in diff}
  da0 = {k: jnp.asarray(args[k]['arr']) for k in diff_arrs}
  loss, (gv, ga) = jax.value_and_grad(loss_fn, argnums=(0, 1))(dv0, da0)
  # the forward pass once, eagerly, for the side effects / aux / the model's table
  arrs = {k: jnp.asarray(a['arr']) for k, a in enumerate(args) if 'arr' in a}
  objs, vobjs = build(args, vars_)
  order = reach_order(args)
  in_store = store_json(order, {vid: vobjs[vid].value for vid in order})
  in_arrs = [arr_json(arrs[k]) for k in sorted(arrs)]
  r = f(*objs)
  aux = list(r[1]) if case['has_aux'] else []
  after = {vid: vobjs[vid].value for vid in order}
  outs_j = [{'arr': arr_json(r[0] if case['has_aux'] else r)}] + [out_json(o) for o in aux]
  row = [[in_store, in_arrs], [store_json(order, after), outs_j]]
  store = {vid: arr_json(after[vid]) if vid in after else arr_json(vars_[vid]['value']) for vid in vars_}
  grads = []
  for d in case['argnums']:
    i = d if isinstance(d, int) else d['diff'][0]
    if 'arr' in args[i]:
      grads.append({'arr': arr_json(ga[i])})
    else:
      grads.append({'state': sorted([[list(p), arr_json(gv[vid])] for vid, (ai, p) in diff.items() if ai == i])})
  return {'rows': [row], 'store': store, 'loss': arr_json(loss), 'grads': grads, 'aux': [out_json(o) for o in aux],
          'exact': is_integral(loss) and all(is_integral(x) for x in list(gv.values()) + list(ga.values()))}


FORMS = ('direct', 'decorator')


def pick_form(ctx, case, name):
  """Both public spellings denote the same option record: T(f, **opts) and T(**opts)(f)
  (the `f is Missing` branch re-dispatches through functools.partial).  Chosen once per case, stored in the case
  so a replay rebuilds the same spelling."""
  if 'form' not in case:
    case['form'] = ctx.rng.choice(FORMS)
  ctx.count('construction_form', f"{name}:{case['form']}")
  return case['form']


def construct(T, f, form, **opts):
  if form == 'decorator':
    return T(**opts)(f)
  return T(f, **opts)


def check_grad(ctx, drv, cases):
  reqs, recs = [], []
  for case in cases:
    st = grad_status(case)
    ref = None
    if st == 'ok':
      try:
        ref = ref_grad(case)
      except Exception as e:
        ref = {'rows': [], 'ref_failed': exc_class(e) + ':' + str(e)[:200]}
    f = make_grad_fn(case['prog'], case['has_aux'])
    form = pick_form(ctx, case, 'value_and_grad' if case['value'] else 'grad')

    def transform(objs, case=case, f=f, form=form):
      tr = nnx.value_and_grad if case['value'] else nnx.grad
      r = construct(tr, f, form, argnums=argnums_python(case), has_aux=case['has_aux'])(*objs)
      if case['value']:
        (lo, grads) = r
        loss, aux = (lo if case['has_aux'] else (lo, ()))
      else:
        loss = None
        grads, aux = (r if case['has_aux'] else (r, ()))
      grads = [grads] if case['bare'] else list(grads)
      gj = []
      for gr in grads:
        if isinstance(gr, nnx.State):
          gj.append({'state': sorted([[list(p), arr_json(v)] for p, v in state_flat(gr).items()])})
        else:
          gj.append({'arr': arr_json(gr)})
      return {'loss': None if loss is None else arr_json(loss), 'grads': gj, 'aux': [out_json(o) for o in aux]}

    res, store, _ = run_real(case, transform)
    req = dict(model_req_common(case), argnums=case['argnums'], has_aux=case['has_aux'], body=(ref or {}).get('rows', []))
    reqs.append(('grad', req))
    recs.append((case, st, ref, res, store))
  outs = drv.run(reqs)
  for (case, st, ref, res, store), m in zip(recs, outs):
    cj = recipe_json(case)
    ctx.case(cj, nontrivial=case['kind'] != 'ok' or any(isinstance(d, dict) for d in case['argnums']) or len(case['args']) > 1)
    ctx.count('grad_kind', case['kind'])
    ctx.count('grad_form', ('value_and_grad' if case['value'] else 'grad') + ('+aux' if case['has_aux'] else ''))
    ctx.count('grad_result', res[0] if res[0] == 'ok' else res[1])
    orig = {vid: arr_json(case['vars'][vid]['value']) for vid in case['vars']}
    if case['kind'] == 'ok' and ref is not None and 'store' in ref and ref['exact']:
      if res[0] != 'ok':
        ctx.violation('grad-raises-on-valid', f'nnx.grad raised {res[1]} where jax.grad of the functional form is defined', cj)
        continue
      r = res[1]
      paths_real = [sorted(tuple(x[0]) for x in g['state']) if 'state' in g else 'arr' for g in r['grads']]
      paths_ref = [sorted(tuple(x[0]) for x in g['state']) if 'state' in g else 'arr' for g in ref['grads']]
      if paths_real != paths_ref:
        ctx.violation('grad-paths-differ', f'gradient paths {paths_real} are not the selected Variables {paths_ref} (unselected state must be absent, selected present)', cj)
        continue
      if r['grads'] != ref['grads']:
        ctx.violation('grad-values-differ', f'nnx gradients {r["grads"]} differ from jax.grad of the functional form {ref["grads"]}', cj)
        continue
      if case['value'] and r['loss'] != ref['loss']:
        ctx.violation('grad-value-differs', f'value_and_grad value {r["loss"]} vs {ref["loss"]}', cj)
        continue
      if r['aux'] != ref['aux']:
        ctx.violation('grad-aux-differs', f'aux {r["aux"]} vs {ref["aux"]}', cj)
        continue
      if store != ref['store']:
        bad = sorted(v for v in store if store[v] != ref['store'][v])
        ctx.violation('grad-side-effects-differ', f'after nnx.grad the Variables {bad} are {[store[v] for v in bad]}; one forward pass leaves {[ref["store"][v] for v in bad]}', cj)
        continue
    elif case['kind'] in ('inconsistent', 'repeated'):
      if res[0] == 'ok':
        ctx.violation('grad-inconsistent-aliasing-accepted' if case['kind'] == 'inconsistent' else 'grad-repeated-argnum-accepted', f'nnx.grad accepted a {case["kind"]} configuration: {res[1]}', cj)
        continue
      if store != orig:
        ctx.violation('grad-rejected-but-mutated', f'nnx.grad raised {res[1]} but changed the arguments', cj)
        continue
    # model: store, value, aux, and the *structure* of the gradients
    def shape_only(gs):
      return [sorted([[x[0], x[1]['s']] for x in g['state']]) if 'state' in g else g['arr']['s'] for g in gs]

    if m[0] == 'ok':
      mm = ('ok', shape_only(m[1]['grads']), m[1]['aux'], {int(k): v for k, v in model_store(m[1]).items()}, m[1]['loss'] if case['value'] else None)
    else:
      mm = ('err', m[1], orig)
    if res[0] == 'ok':
      rr = ('ok', shape_only(res[1]['grads']), res[1]['aux'], store, res[1]['loss'])
    else:
      rr = ('err', res[1], store)
    if mm != rr:
      ctx.disagreements_checked += 1
      ctx.violation('grad-model-mismatch-' + case['kind'], f'model {str(mm)[:500]} vs implementation {str(rr)[:500]}', cj, concrete=False)


# ------------------------------------------------------------------------------------------------
# small-scope checks that need no tracing: map_prefix, check_consistent_aliasing, the scan set-up checks
# ------------------------------------------------------------------------------------------------

_PATHS = [('a',), ('b',), ('k', 'a'), ('k', 'w'), ('x', 'b')]


def check_map_prefix(ctx, drv, rng, n_random):
  atoms = [{'type': t} for t in VT_NAMES] + [{'contains': n} for n in ('a', 'k', 'w')] + ['everything', 'nothing', {'not': {'type': 'Param'}}]
  axes = [0, -1, None, 'carry']
  sas = [[[f, a]] for f in atoms for a in axes]
  sas += [[[f, a], [g, b]] for f in atoms for g in atoms for a, b in ((0, None), (None, 'carry'), (1, 0))]
  sas += [gen_state_axes(rng, [0, 1, -1, None, 'carry'], total_p=0.5)['sa'] for _ in range(n_random)]
  items = [(p, t) for p in _PATHS for t in VT_NAMES]
  variables = {t: VT[t](jnp.zeros(())) for t in VT_NAMES}
  items_j = [[list(p), info_json(t)] for p, t in items]
  outs = drv.run([('map_prefix', [{'sa': sa}, items_j]) for sa in sas])
  for sa, m in zip(sas, outs):
    case = {'t': 'map_prefix', 'sa': sa}
    ctx.case(case, nontrivial=len(sa) >= 2)
    ctx.count('map_prefix_items', len(sa))
    real_sa = nnx.StateAxes([(nf_python(f), ax_python(a)) for f, a in sa])
    got, want = [], []
    for p, t in items:
      try:
        r = real_sa.map_prefix(p, variables[t])
        got.append('carry' if r is nnx.Carry else r)
      except Exception as e:
        got.append({'err': exc_class(e)})
      w = prefix_at({'sa': sa}, p, t)
      want.append({'err': 'ValueError'} if w == 'noaxis' else w)
    if got != want:
      bad = [i for i in range(len(items)) if got[i] != want[i]]
      ctx.violation('map-prefix-not-first-match', f'StateAxes({sa}).map_prefix at {[items[i] for i in bad[:3]]}: {[got[i] for i in bad[:3]]}, first matching filter gives {[want[i] for i in bad[:3]]}', case)
    elif m != ('ok', got):
      ctx.disagreements_checked += 1
      ctx.violation('map-prefix-model-mismatch', f'model {m} vs implementation {got} for {sa}', case, concrete=False)


def check_aliasing(ctx, drv, rng, n):
  reqs, recs = [], []
  for _ in range(n):
    g = _Ctx()
    nargs = rng.randint(1, 3)
    args = [gen_node(rng, 0, g, 0.45, 4) for _ in range(nargs)]
    if not all(_acyclic(a) for a in args):
      continue
    vars_ = {vid: {'type': g.types[vid], 'value': np.zeros((), np.float32)} for vid in g.vids}
    pool = [0, 1, None, 'carry']
    prefixes = [gen_state_axes(rng, pool, total_p=0.85) if rng.random() < 0.7 else rng.choice(pool) for _ in args]
    objs, _ = build(args, vars_)
    np_ = {}
    got = True
    try:
      for o, p in zip(objs, prefixes):
        extract.check_consistent_aliasing(o, prefix_python(p), node_prefixes=np_)
    except ValueError as e:
      got = False if 'nconsistent' in str(e) else {'err': 'ValueError'}
    except Exception as e:
      got = {'err': exc_class(e)}
    _, status = roles_of(args, vars_, prefixes)
    want = {'ok': True, 'inconsistent': False, 'noaxis': {'err': 'ValueError'}}[status]
    case = {'t': 'aliasing', 'args': args, 'vars': {k: {'type': v['type']} for k, v in vars_.items()}, 'prefixes': prefixes}
    reqs.append(('aliasing', [[p, [[list(pa), vid, info_json(vars_[vid]['type'])] for pa, vid in entries(a)]] for a, p in zip(args, prefixes)]))
    recs.append((case, got, want))
  outs = drv.run(reqs)
  for (case, got, want), m in zip(recs, outs):
    ctx.case(case, nontrivial=True)
    ctx.count('aliasing_verdict', 'consistent' if want is True else ('inconsistent' if want is False else 'noaxis'))
    # the verdict "error, but which one" may legitimately differ in order between voices only when both apply
    if (got is True) != (want is True):
      ctx.violation('aliasing-check-wrong', f'check_consistent_aliasing says {got}; by first-match prefixes per occurrence the configuration is {want}', case)
    elif m != ('ok', got):
      ctx.disagreements_checked += 1
      ctx.violation('aliasing-model-mismatch', f'model {m} vs implementation {got}', case, concrete=False)


def check_scan_setup(ctx, drv, rng, thorough):
  sa_ok = {'sa': [[{'type': 'Param'}, 0], ['everything', 1]]}
  sa_none = {'sa': [[{'type': 'Param'}, 0], ['everything', None]]}
  sa_carry = {'sa': [[{'type': 'Param'}, 'carry'], ['everything', 0]]}
  entries_ = [0, 1, None, 'carry', sa_ok, sa_none, sa_carry]
  specs = [{'u': p} for p in entries_]
  specs += [{'t': list(c)} for k in (1, 2) for c in itertools.product(entries_, repeat=k)]
  specs += [{'t': list(c)} for c in itertools.product([0, None, 'carry', sa_none], repeat=3)]
  pairs = list(itertools.product(specs, specs))
  if not thorough:
    pairs = rng.sample(pairs, 2500)
  outs = drv.run([('scan_setup', [i, o]) for i, o in pairs])
  for k_, ((i, o), m) in enumerate(zip(pairs, outs)):
    case = {'t': 'scan_setup', 'in_axes': i, 'out_axes': o, 'form': FORMS[k_ % 2]}
    ctx.case(case, nontrivial=True)
    ctx.count('construction_form', f"scan_setup:{case['form']}")
    try:
      construct(nnx.scan, lambda *a: None, case['form'], in_axes=axes_python(i), out_axes=axes_python(o))
      got = 'ok'
    except Exception as e:
      got = exc_class(e)
    ci, co = carry_pos(i), carry_pos(o)
    bad = out_axes_problem(o) or ci == 'multiple' or co == 'multiple' or ((ci is None) != (co is None))
    ctx.count('scan_setup', 'rejected' if bad else 'accepted')
    if out_axes_problem(o) and got == 'ok':
      ctx.violation('scan-out-axes-none-or-carry-accepted', f'nnx.scan(in_axes={i}, out_axes={o}) was accepted although out_axes broadcasts / carries output state', case)
    elif (got == 'ok') == bad:
      ctx.violation('scan-setup-check-wrong', f'nnx.scan(in_axes={i}, out_axes={o}) -> {got}; expected {"rejection" if bad else "acceptance"}', case)
    elif (m[1] == 'ok') != (got == 'ok'):
      ctx.disagreements_checked += 1
      ctx.violation('scan-setup-model-mismatch', f'model {m} vs implementation {got}', case, concrete=False)


# ------------------------------------------------------------------------------------------------
# split_rngs + vmap: per-index keys (oracle only; the key algebra is C09's model)
# ------------------------------------------------------------------------------------------------


def check_split_rngs(ctx, rng, n_cases):
  for _ in range(n_cases):
    n = rng.randint(1, 4)
    seed = rng.randrange(1000)
    pre = rng.randint(0, 2)
    draws = rng.randint(1, 2)
    only = rng.choice([None, 'params', 'dropout'])
    case = {'t': 'split_rngs', 'n': n, 'seed': seed, 'pre': pre, 'draws': draws, 'only': only}
    ctx.case(case, nontrivial=True)
    ctx.count('split_rngs_only', only)
    rngs = nnx.Rngs(params=seed, dropout=seed + 1)
    for _i in range(pre):
      rngs.params()
      rngs.dropout()
    kw = {} if only is None else {'only': only}
    try:
      backups = nnx.split_rngs(rngs, splits=n, **kw)
      split = [s for s in ('params', 'dropout') if only in (None, s)]
      sa = nnx.StateAxes({filterlib.Any(*split): 0, ...: None}) if len(split) < 2 else nnx.StateAxes({nnx.RngState: 0})

      @nnx.vmap(in_axes=(sa,), out_axes=0, axis_size=n)
      def f(r):
        return jnp.stack([jax.random.key_data(getattr(r, split[0])()) for _ in range(draws)])

      got = np.asarray(f(rngs))
      nnx.restore_rngs(backups)
      after = {s: (np.asarray(jax.random.key_data(getattr(rngs, s).key.value)).tolist(), int(getattr(rngs, s).count.value)) for s in ('params', 'dropout')}
      nxt = np.asarray(jax.random.key_data(getattr(rngs, split[0])())).tolist()
    except Exception as e:
      ctx.violation('split-rngs-raises', f'split_rngs/vmap/restore_rngs raised {exc_class(e)}: {str(e)[:200]}', case)
      continue
    # reference: the stream's key at count `pre` is consumed by the split; lane i draws fold_in(split(k)[i], t)
    base = {'params': jax.random.key(seed), 'dropout': jax.random.key(seed + 1)}
    s0 = split[0]
    lanes = jax.random.split(jax.random.fold_in(base[s0], pre), n)
    want = np.asarray([[jax.random.key_data(jax.random.fold_in(lanes[i], t)) for t in range(draws)] for i in range(n)])
    want_after = {s: (np.asarray(jax.random.key_data(base[s])).tolist(), pre + (1 if s in split else 0)) for s in ('params', 'dropout')}
    want_next = np.asarray(jax.random.key_data(jax.random.fold_in(base[s0], pre + 1))).tolist()
    if not np.array_equal(got, want):
      ctx.violation('split-rngs-lane-keys', f'keys drawn inside vmap differ from fold_in(split(fold_in(k, c), n)[i], t)', case)
    elif after != want_after or nxt != want_next:
      ctx.violation('split-rngs-restore-replays', f'after restore_rngs the streams are {after}, next key {nxt}; expected the original keys one draw later {want_after}, {want_next}', case)
    elif len({tuple(np.asarray(x).reshape(-1).tolist()) for x in got.reshape(n * draws, -1)} | {tuple(nxt)}) != n * draws + 1:
      ctx.violation('split-rngs-key-reuse', 'a key was handed out twice', case)


# ------------------------------------------------------------------------------------------------
# scan: Carry argument that is a pytree holding several distinct graph nodes (and arrays)
# ------------------------------------------------------------------------------------------------
# _scan_split_out pushes one NodeDef per carried node on a deque; _insert_nodedefs hands them back in the
# same order (FIFO) so that every carried object receives ITS final state and the returned carry holds the
# caller's objects at their positions.  Two voices here (real nnx.scan vs the Python loop): the Lean model has
# a single carried node (documented in model_partial).


def gen_carry_tree_case(rng):
  k = rng.choice([2, 2, 3])
  same = rng.random() < 0.5
  base_attrs = sorted(rng.sample(ATTRS, rng.randint(1, 2)))
  base_types = [rng.choice(VT_NAMES) for _ in base_attrs]
  nodes = []
  for j in range(k):
    if same or j == 0:
      attrs, types = base_attrs, base_types
    else:
      while True:
        attrs = sorted(rng.sample(ATTRS, rng.randint(1, 3)))
        types = [rng.choice(VT_NAMES) for _ in attrs]
        if (attrs, types) != (base_attrs, base_types):
          break
    nodes.append({'attrs': [[a, t, rng.randint(-4, 4) + 10 * j] for a, t in zip(attrs, types)], 'coef': [rng.choice([1, 1, 2]), rng.randint(-2, 2), 3 * j + rng.randint(0, 2)]})
  n_arr = rng.choice([0, 0, 1, 2])
  elems = [['node', j] for j in range(k)] + [['arr', rng.randint(-3, 3)] for _ in range(n_arr)]
  if n_arr:
    rng.shuffle(elems)
  n = rng.randint(2, 4)
  return {
    't': 'scan_carry_tree', 'nodes': nodes, 'elems': elems, 'container': rng.choice(['tuple', 'list', 'dict']),
    'xs': [rng.randint(-3, 3) for _ in range(n)], 'reverse': rng.random() < 0.4, 'carry_first': rng.random() < 0.7,
    'same_structure': same,
  }


def _carry_tree_objs(case):
  mods = []
  for nd in case['nodes']:
    m = Mod()
    for a, t, v in nd['attrs']:
      setattr(m, a, VT[t](jnp.asarray(float(v), jnp.float32)))
    mods.append(m)
  elems = [mods[e[1]] if e[0] == 'node' else jnp.asarray(float(e[1]), jnp.float32) for e in case['elems']]
  return mods, _carry_tree_pack(case, elems)


def _carry_tree_pack(case, elems):
  c = case['container']
  if c == 'tuple':
    return tuple(elems)
  if c == 'list':
    return list(elems)
  return {f'k{i}': e for i, e in enumerate(elems)}


def _carry_tree_unpack(case, carry):
  if case['container'] == 'dict':
    return [carry[f'k{i}'] for i in range(len(case['elems']))]
  return list(carry)


def _carry_tree_body(case):
  def body(carry, x):
    elems = _carry_tree_unpack(case, carry)
    out, y = [], jnp.asarray(0.0, jnp.float32)
    for i, (e, spec) in enumerate(zip(elems, case['elems'])):
      if spec[0] == 'node':
        nd = case['nodes'][spec[1]]
        mul, bx, c = nd['coef']
        for t_, (a, _t, _v) in enumerate(nd['attrs']):
          var = getattr(e, a)
          var.value = var.value * mul + x * bx + (c + t_)
        y = y + getattr(e, nd['attrs'][0][0]).value * (i + 1)
        out.append(e)
      else:
        e = e * 2 + x * (i + 1)
        y = y + e
        out.append(e)
    return _carry_tree_pack(case, out), y

  if case['carry_first']:
    return body
  return lambda x, carry: body(carry, x)


def _carry_tree_states(case, mods):
  return [[int(np.asarray(getattr(m, a).value)) for a, _t, _v in nd['attrs']] for m, nd in zip(mods, case['nodes'])]


def check_scan_carry_tree(ctx, rng, n_cases, cases=None):
  cases = cases if cases is not None else [gen_carry_tree_case(rng) for _ in range(n_cases)]
  for case in cases:
    form = pick_form(ctx, case, 'scan_carry_tree')
    ctx.case(case, nontrivial=True)
    k = len(case['nodes'])
    n_arr = len(case['elems']) - k
    ctx.count('scan_carry_tree', f"nodes={k}:{'same' if case['same_structure'] else 'different'}-structure:arrays={n_arr}:{case['container']}")
    body = _carry_tree_body(case)
    xs = jnp.asarray(case['xs'], jnp.float32)
    n = len(case['xs'])
    # reference: the Python loop in processing order on fresh objects of the same recipe
    rmods, rc = _carry_tree_objs(case)
    want_ys = [None] * n
    for i in (range(n - 1, -1, -1) if case['reverse'] else range(n)):
      rc, y = body(rc, xs[i]) if case['carry_first'] else body(xs[i], rc)
      want_ys[i] = int(np.asarray(y))
    want_states = _carry_tree_states(case, rmods)
    want_arrs = [int(np.asarray(e)) for e, sp in zip(_carry_tree_unpack(case, rc), case['elems']) if sp[0] == 'arr']
    # real
    mods, c0 = _carry_tree_objs(case)
    ax = (nnx.Carry, 0) if case['carry_first'] else (0, nnx.Carry)
    try:
      tr = construct(nnx.scan, body, form, in_axes=ax, out_axes=(nnx.Carry, 0), reverse=case['reverse'])
      out_c, ys = tr(c0, xs) if case['carry_first'] else tr(xs, c0)
    except Exception as e:
      ctx.violation('scan-carry-tree-raises-on-valid', f'nnx.scan with a Carry {case["container"]} holding {k} graph nodes ({"same" if case["same_structure"] else "different"} structure) and {n_arr} arrays raised {exc_class(e)}: {str(e)[:200]}; the Python loop runs and leaves node states {want_states}', case)
      continue
    got_states = _carry_tree_states(case, mods)
    got_elems = _carry_tree_unpack(case, out_c)
    ident = [next((j for j, m in enumerate(mods) if e is m), None) if sp[0] == 'node' else None for e, sp in zip(got_elems, case['elems'])]
    want_ident = [sp[1] if sp[0] == 'node' else None for sp in case['elems']]
    got_arrs = [int(np.asarray(e)) for e, sp in zip(got_elems, case['elems']) if sp[0] == 'arr']
    got_ys = [int(v) for v in np.asarray(ys).tolist()]
    if got_states != want_states:
      ctx.violation('scan-carry-tree-state-differs', f'after nnx.scan over xs={case["xs"]} (reverse={case["reverse"]}) with Carry {case["container"]} of {k} nodes the carried objects hold {got_states}; the Python loop leaves {want_states}', case)
    elif ident != want_ident:
      ctx.violation('scan-carry-tree-identity', f'returned carry holds the caller\'s nodes at positions {ident}, expected {want_ident} (out[i] is m_i)', case)
    elif got_ys != want_ys or got_arrs != want_arrs:
      ctx.violation('scan-carry-tree-output-differs', f'ys={got_ys} carried arrays={got_arrs}; the Python loop gives ys={want_ys} arrays={want_arrs}', case)
    else:
      ctx.count('scan_carry_tree_result', 'ok')


# ------------------------------------------------------------------------------------------------
# entry points
# ------------------------------------------------------------------------------------------------

VMAP_ERR_KINDS = ('noaxis', 'inconsistent', 'arity', 'out_arity', 'sa_on_array', 'carry_axis', 'bare_state_axes', 'size_mismatch', 'batched_none')


def _gen_many(gen, rng, kinds):
  out = []
  for k in kinds:
    c = gen(rng, k)
    if c is not None:
      out.append(c)
  return out


def run(ctx):
  drv = LeanDriver('drv_c08')
  thorough = ctx.tier == 'thorough'
  rng = ctx.rng
  known = {e.get('key') for e in load_findings('C08') if e.get('status') == 'finding'}

  for fn, obj in load_corpus('C08'):
    ctx.corpus_replayed += 1
    _run_case(ctx, drv, obj)

  # cheap, no tracing
  check_map_prefix(ctx, drv, rng, 150 if not thorough else 3000)
  check_aliasing(ctx, drv, rng, 400 if not thorough else 8000)
  check_scan_setup(ctx, drv, rng, thorough)

  # traced: the three transforms
  mult = 1 if not thorough else 50
  vm = _gen_many(gen_vmap_case, rng, ['ok'] * (34 * mult) + list(VMAP_ERR_KINDS) * mult)
  sc = _gen_many(gen_scan_case, rng, ['ok'] * (30 * mult) + ['ok_bcast'] * (10 * mult) + list(SCAN_ERR_KINDS) * mult + (['bcast_write'] * (2 * mult) if 'scan-broadcast-write-dropped' in known else []))
  gr = _gen_many(gen_grad_case, rng, ['ok'] * (40 * mult) + ['inconsistent', 'repeated'] * (3 * mult))
  for i in range(0, len(vm), 60):
    check_vmap(ctx, drv, vm[i : i + 60])
  for i in range(0, len(sc), 60):
    check_scan(ctx, drv, sc[i : i + 60])
  for i in range(0, len(gr), 60):
    check_grad(ctx, drv, gr[i : i + 60])
  check_split_rngs(ctx, rng, 6 if not thorough else 60)
  check_scan_carry_tree(ctx, rng, 12 if not thorough else 300)

  for c in (vm[:1] + sc[:1] + gr[:1]):
    ctx.sample(recipe_json(c))
  if sc:
    ctx.sample(recipe_json(sc[-1]))
  ctx.extra['transformed_calls'] = len(vm) + len(sc) + len(gr)
  ctx.extra['driver_calls'] = drv.calls
  ctx.extra['exhaustive'] = False
  ok_share = ctx.dist.get('vmap_result', {}).get('ok', 0) + ctx.dist.get('scan_result', {}).get('ok', 0)
  if ok_share < (len(vm) + len(sc)) * 0.4:
    from harness.common import InfraError

    raise InfraError(f'generator degenerated: only {ok_share} of {len(vm) + len(sc)} vmap/scan cases ran to completion')


def _run_case(ctx, drv, obj):
  case = obj.get('case', obj)
  case = recipe_unjson(case)
  t = case.get('t')
  if t == 'vmap':
    check_vmap(ctx, drv, [case])
  elif t == 'scan':
    check_scan(ctx, drv, [case])
  elif t == 'grad':
    check_grad(ctx, drv, [case])
  elif t == 'scan_carry_tree':
    check_scan_carry_tree(ctx, None, 0, cases=[case])
  elif t in ('map_prefix', 'aliasing', 'scan_setup', 'split_rngs'):
    import random as _r

    r = _r.Random(0)
    if t == 'map_prefix':
      check_map_prefix(ctx, drv, r, 0)
    elif t == 'aliasing':
      check_aliasing(ctx, drv, r, 400)
    elif t == 'scan_setup':
      check_scan_setup(ctx, drv, r, True)
    else:
      check_split_rngs(ctx, r, 12)
  else:
    ctx.notes.append(f'unknown corpus case kind {t}')


def replay(ctx, obj):
  drv = LeanDriver('drv_c08')
  _run_case(ctx, drv, obj)
  for v in ctx.violations:
    print('  ', v['key'], '-', v['what'][:300])
  return bool(ctx.violations)
