"""C12 — Feed-forward layers compute their documented formulas; Linen and NNX agree.

Theorems: lean/Flax/Props/C12.lean over lean/Flax/Model/Layers.lean (index / shape logic that is flax's own,
around specifications of the lax primitives).
Correspondence, four voices per case: real Linen layer, real NNX layer (same parameters loaded), an independent
NumPy direct-sum reference (the property oracle) and the compiled Lean model.  All ring-only layers run on
small-integer float32 data (every intermediate exactly representable: the bound is computed per case), so the
comparison is exact.  Normalisation layers: Lean returns the exact rational statistics and affine pieces, the
harness applies 1/sqrt in float64 and compares with a per-element, computed float32 error bound (a float
comparison, stated as such).  The implementation is evaluated in worker processes (XLA compile time dominates).
"""
from __future__ import annotations

import itertools
import json
import math
import os
import subprocess
import sys
import warnings
from concurrent.futures import ThreadPoolExecutor
from fractions import Fraction

from harness.common import InfraError, LeanDriver, VERIF, load_corpus

SPEC = {
  'exes': ['drv_c12'],
  'rule': (
    'One case = one layer configuration + integer-valued float32 input/parameters (|x|<=6, |w|<=3; the exactness bound '
    'terms*max|x|*max|w|+max|b| < 2^24 is computed and enforced per case). Families: Dense, DenseGeneral/LinearGeneral '
    '(axis incl. negative/unsorted, batch_dims, feature tuples), Einsum (incl. ellipsis), Conv/ConvLocal (1-3 spatial dims, '
    'kernel 1-4, stride 1-3, kernel dilation 1-3, input dilation with explicit pads, groups, masks, SAME/VALID/CIRCULAR/'
    'REFLECT/CAUSAL/int/pairs, 0-2 batch dims), ConvTranspose (SAME/VALID/CIRCULAR/pairs, transpose_kernel), Embed/attend '
    '(negative and out-of-range indices), avg/max/min pool (count_include_pad, explicit pads), LayerNorm/RMSNorm/GroupNorm/'
    'InstanceNorm/BatchNorm sequences (axes incl. negative, masks, fast/slow variance, momentum, train/eval interleaving), '
    'Dropout (rates 0, .25, .5, .75, 1, broadcast_dims, deterministic). A case is non-trivial when its output has >= 2 '
    'elements and the contraction / window / reduction has >= 2 terms; distinct = distinct canonical JSON of the case.'
  ),
  'trusted_base': [
    'hand-written Lean model lean/Flax/Model/Layers.lean (tied to /repo by this correspondence run)',
    'harness/props/c12.py (generators, NumPy direct-sum oracles, canonicalisation, float error bound), harness/compat.py',
    'A-CONV: lax.conv_general_dilated / conv_transpose / dot_general / reduce_window / jnp.pad / take / einsum meet the '
    'index-level specifications in Model/Layers.lean (checked against the NumPy oracle on every run, not proved)',
  ],
  'assumptions': [
    'floating point is outside the theorems: exact comparisons are on integer-valued float32 data below 2^24; '
    'normalisation outputs and running statistics are compared as floats within a computed error bound',
    'the Bernoulli mask of Dropout is an uninterpreted function of (key, keep probability, mask shape)',
    'dtype promotion is compared as a dtype string only (float32 in, float32 out)',
    'CPython iterates a set of small non-negative ints in increasing order (_canonicalize_axes; ranks < 8)',
    'A-CONV is checked, not assumed blindly: when a conv-family output differs from the direct-sum reference the lax primitive is '
    're-run directly with the arguments flax passes; if lax itself disagrees the case is recorded under a_conv_assumption_failed '
    'and is not a verdict. Observation (jax 0.11.2 / XLA:CPU): lax.conv_general_dilated with a NEGATIVE explicit pad combined with '
    'feature_group_count > 1 returns wrong (even non-integer, run-dependent) values, e.g. x[2,7,4], k[4,2,2], stride 3, '
    'padding [(-1,3)], groups 2; negative pads stay in the generator (they are legal). Second observation: lax.reduce_window(x, inf, lax.min, ...) '
    'with explicit padding on two window axes returns a wrong row on XLA:CPU (x[1,3,2,1], window (1,3,1,1), padding ((0,0),(1,1),(3,2),(0,0))), '
    'with and without jit. The direct-primitive probe covers every thin-wrapper family: conv (conv_general_dilated[_local], '
    'conv_transpose, jnp.pad), pooling (reduce_window), Embed (jnp.take / dot), Dense / DenseGeneral (dot_general), Einsum (jnp.einsum). XLA can also abort the worker process inside '
    'Compile() on such inputs: the worker is restarted after the case, which is listed under xla_process_abort (at most 3 per worker, '
    'otherwise exit 2); neither is ever reported as a violation',
  ],
  'model_partial': [
    'ConvTranspose: output lengths (conv_transpose_out_len_same/_valid), the odd-number-of-periods padding and the CIRCULAR wrap-sum '
    'index formula (wrap_sum_total_odd_periods, wrap_sum_get) are proved; the one-axis scatter (direct-sum) form of '
    'convTransposeLayer as a whole (incl. the transpose_kernel flip/swap) is tied by correspondence only',
    'conv_layer_formula covers Conv / nnx.Conv (shared weights) for any number of spatial axes; ConvLocal (patch ordering) has no theorem',
    'no theorem (correspondence only): Einsum bias-shape inference, the avg_pool div_shape broadcast (the divisor itself is proved: '
    'avg_pool_divisor), dtype promotion',
  ],
}

_J = {}


def jx():
  """Lazy import of jax / flax (through the compat shim)."""
  if not _J:
    from harness import compat  # noqa: F401

    import jax
    import jax.numpy as jnp
    import numpy as np
    import flax.linen as nn
    from flax import nnx

    _J.update(jax=jax, jnp=jnp, np=np, nn=nn, nnx=nnx)
  return _J


# ------------------------------------------------------------------------------------------------
# encoding
# ------------------------------------------------------------------------------------------------


def prod(xs):
  r = 1
  for v in xs:
    r *= v
  return r


def T(shape, data):
  return {'s': list(shape), 'd': list(data)}


def rand_T(rng, shape, lo, hi):
  return T(shape, [rng.randint(lo, hi) for _ in range(prod(shape))])


def np_of(t, dtype=None):
  np = jx()['np']
  if t is None:
    return None
  return np.array(t['d'], dtype=dtype or np.float32).reshape(t['s'])


def enc(arr):
  """Payload of an implementation / oracle output: exact ints when integer-valued, floats otherwise."""
  np = jx()['np']
  dt = str(getattr(arr, 'dtype', 'float64'))
  a = np.asarray(arr, dtype=np.float64)
  flat = a.reshape(-1)
  if flat.size == 0 or (np.all(np.isfinite(flat)) and np.all(flat == np.round(flat))):
    return {'s': list(a.shape), 'd': [int(v) for v in flat], 'dt': dt}
  out = []
  for v in flat:
    if np.isnan(v):
      out.append(None)
    elif np.isinf(v):
      out.append('inf' if v > 0 else '-inf')
    else:
      out.append(float(v))
  return {'s': list(a.shape), 'f': out, 'dt': dt}


def call(fn):
  try:
    return ['ok', fn()]
  except Exception as e:  # every exception raised by flax/jax is an observation
    return ['err', type(e).__name__]


# ------------------------------------------------------------------------------------------------
# NumPy direct-sum references (property oracles; float64 arithmetic on integer data = exact)
# ------------------------------------------------------------------------------------------------


def dilated_k(k, d):
  return (k - 1) * d + 1


def same_pads(n, w, s):
  out = -(-n // s)
  total = max((out - 1) * s + w - n, 0)
  return total // 2, total - total // 2


def reflect_index(q, n):
  """index of a reflected (no edge repeat) infinite extension of range(n)"""
  if n == 1:
    return 0
  p = 2 * (n - 1)
  j = q % p
  return j if j < n else p - j


def bcast(v, rank):
  if v is None:
    return [1] * rank
  if isinstance(v, int):
    return [v] * rank
  return list(v)


def canon_padding(padding, rank):
  if isinstance(padding, str):
    return padding
  if isinstance(padding, int):
    return [(padding, padding)] * rank
  return [(p, p) if isinstance(p, int) else (p[0], p[1]) for p in padding]


def conv_axis_plan(case_padding, n, k, s, ld, rd):
  """per axis: (out_len, src(p)) with p = o*s + kk*rd in padded coordinates; src -> index or None."""
  kd = dilated_k(k, rd)
  if case_padding == 'CIRCULAR':
    lo = (kd - 1) // 2
    m = n + lo + kd // 2
    return (0 if m < kd else (m - kd) // s + 1), (lambda p: (p - lo) % n)
  if case_padding == 'REFLECT':
    lo = (kd - 1) // 2
    m = n + lo + kd // 2
    return (0 if m < kd else (m - kd) // s + 1), (lambda p: reflect_index(p - lo, n))
  if case_padding == 'CAUSAL':
    lo = rd * (k - 1)
    m = n + lo
    return (0 if m < kd else (m - kd) // s + 1), (lambda p: (p - lo) if 0 <= p - lo < n else None)
  if case_padding == 'VALID':
    lo, hi = 0, 0
  elif case_padding == 'SAME':
    lo, hi = same_pads(n, kd, s)
  else:
    lo, hi = case_padding
  nd = (n - 1) * ld + 1 if n > 0 else 0
  m = nd + lo + hi

  def src(p):
    q = p - lo
    if q < 0 or q % ld != 0 or q // ld >= n:
      return None
    return q // ld

  return (0 if m < kd else (m - kd) // s + 1), src


def np_conv(c, x, k, bias, mask, local=False):
  """Direct-sum reference of Conv / ConvLocal (channels last)."""
  np = jx()['np']
  ks = list(c['kernel_size'])
  nsp = len(ks)
  strides = bcast(c.get('strides', 1), nsp)
  ld = bcast(c.get('input_dilation', 1), nsp)
  rd = bcast(c.get('kernel_dilation', 1), nsp)
  groups = c.get('groups', 1)
  pad = canon_padding(c['padding'], nsp)
  nb = x.ndim - (nsp + 1)
  bshape = x.shape[:nb]
  xf = x.reshape((prod(bshape),) + x.shape[nb:]).astype(np.float64)
  k = k.astype(np.float64)
  if mask is not None:
    k = k * mask
  insp = xf.shape[1:-1]
  plans = [conv_axis_plan(pad if isinstance(pad, str) else pad[j], insp[j], ks[j], strides[j], ld[j], rd[j]) for j in range(nsp)]
  outsp = [p[0] for p in plans]
  cin = xf.shape[-1]
  f = k.shape[-1]
  y = np.zeros((xf.shape[0],) + tuple(outsp) + (f,))
  kk = prod(ks)
  for o in itertools.product(*[range(n) for n in outsp]):
    for kidx in itertools.product(*[range(n) for n in ks]):
      src = [plans[j][1](o[j] * strides[j] + kidx[j] * rd[j]) for j in range(nsp)]
      if any(v is None for v in src):
        continue
      xv = xf[(slice(None),) + tuple(src)]  # [B, C]
      if local:
        kr = int(np.ravel_multi_index(kidx, ks)) if nsp else 0
        for ch in range(cin):
          y[(slice(None),) + o] += xv[:, ch : ch + 1] * k[o + (ch * kk + kr,)][None, :]
      else:
        cg = cin // groups
        fg = f // groups
        for g in range(groups):
          y[(slice(None),) + o + (slice(g * fg, (g + 1) * fg),)] += xv[:, g * cg : (g + 1) * cg] @ k[kidx][:, g * fg : (g + 1) * fg]
  if bias is not None:
    y = y + bias.reshape((1,) * (y.ndim - bias.ndim) + bias.shape)
  return y.reshape(tuple(bshape) + y.shape[1:])


def conv_out_spatial(c, insp):
  ks = list(c['kernel_size'])
  nsp = len(ks)
  strides = bcast(c.get('strides', 1), nsp)
  ld = bcast(c.get('input_dilation', 1), nsp)
  rd = bcast(c.get('kernel_dilation', 1), nsp)
  pad = canon_padding(c['padding'], nsp)
  return [conv_axis_plan(pad if isinstance(pad, str) else pad[j], insp[j], ks[j], strides[j], ld[j], rd[j])[0] for j in range(nsp)]


def transpose_pads(kd, s, mode):
  if mode == 'SAME':
    pad_len = kd + s - 2
    pa = kd - 1 if s > kd - 1 else -(-pad_len // 2)
  else:
    pad_len = kd + s - 2 + max(kd - s, 0)
    pa = kd - 1
  return pa, pad_len - pa


def np_conv_transpose(c, x, k, bias, mask):
  """Scatter-form reference of ConvTranspose (fractionally strided convolution, Keras output-size convention)."""
  np = jx()['np']
  ks = list(c['kernel_size'])
  nsp = len(ks)
  strides = bcast(c.get('strides'), nsp)
  rd = bcast(c.get('kernel_dilation'), nsp)
  tk = c['transpose_kernel']
  pad = canon_padding(c['padding'], nsp)
  nb = x.ndim - (nsp + 1)
  bshape = x.shape[:nb]
  xf = x.reshape((prod(bshape),) + x.shape[nb:]).astype(np.float64)
  k = k.astype(np.float64)
  if mask is not None:
    k = k * mask
  insp = xf.shape[1:-1]
  geo = []
  for j in range(nsp):
    kd = dilated_k(ks[j], rd[j])
    if isinstance(pad, str):
      pa, pb = transpose_pads(kd, strides[j], 'SAME' if pad == 'SAME' else 'VALID')
    else:
      pa, pb = pad[j]
    ln = (insp[j] - 1) * strides[j] + 1 + pa + pb - kd + 1 if insp[j] > 0 else 0
    geo.append((kd, pa, max(ln, 0)))
  f = k.shape[-2] if tk else k.shape[-1]
  y = np.zeros((xf.shape[0],) + tuple(g[2] for g in geo) + (f,))
  for i in itertools.product(*[range(n) for n in insp]):
    for kidx in itertools.product(*[range(n) for n in ks]):
      o = []
      for j in range(nsp):
        kd, pa, ln = geo[j]
        kk = kidx[j] if tk else ks[j] - 1 - kidx[j]
        o.append(i[j] * strides[j] + kk * rd[j] - (kd - 1 - pa))
      if any(not (0 <= o[j] < geo[j][2]) for j in range(nsp)):
        continue
      w = k[kidx].T if tk else k[kidx]  # [Cin, F]
      y[(slice(None),) + tuple(o)] += xf[(slice(None),) + i] @ w
  if pad == 'CIRCULAR':
    for j in range(nsp):
      period = insp[j] * strides[j]
      ln = y.shape[1 + j]
      diff = (-(ln - period)) % (2 * period)
      pl = diff // 2 if tk else (diff + 1) // 2
      z = np.zeros(y.shape[: 1 + j] + (period,) + y.shape[2 + j :])
      for p in range(ln):
        idx = (slice(None),) * (1 + j)
        z[idx + ((p + pl) % period,)] += y[idx + (p,)]
      y = z
  if bias is not None:
    y = y + bias.reshape((1,) * (y.ndim - 1) + (-1,))
  return y.reshape(tuple(bshape) + y.shape[1:])


def np_dense_general(x, k, bias, axis, batch_dims):
  np = jx()['np']
  nd = x.ndim
  ax = sorted(a % nd for a in axis)
  bd = sorted(b % nd for b in batch_dims)
  free = [i for i in range(nd) if i not in ax and i not in bd]
  xt = np.transpose(x.astype(np.float64), bd + free + ax)
  nb, nf, na = len(bd), len(free), len(ax)
  L = 'abcdefghijklmnopqrstuvw'
  bl, fl, al = L[:nb], L[nb : nb + nf], L[nb + nf : nb + nf + na]
  ol = L[nb + nf + na : nb + nf + na + (k.ndim - nb - na)]
  out = np.einsum(f'{bl}{fl}{al},{bl}{al}{ol}->{bl}{fl}{ol}', xt, k.astype(np.float64))
  if bias is not None:
    out = out + bias.reshape(bias.shape[:nb] + (1,) * nf + bias.shape[nb:])
  return out


def np_pool(op, x, window, strides, padding, cip):
  """Window reduction reference: returns (values, denominators) for avg, values for max/min (None = empty window)."""
  np = jx()['np']
  nw = len(window)
  strides = list(strides) if strides else [1] * nw
  nb = x.ndim - (nw + 1)
  sp = x.shape[nb : nb + nw]
  geo = []
  for j in range(nw):
    if padding == 'VALID':
      lo, hi = 0, 0
    elif padding == 'SAME':
      lo, hi = same_pads(sp[j], window[j], strides[j])
    else:
      lo, hi = padding[j]
    m = sp[j] + lo + hi
    geo.append((lo, 0 if m < window[j] else (m - window[j]) // strides[j] + 1))
  outsp = [g[1] for g in geo]
  xf = x.astype(np.float64)
  lead = x.shape[:nb]
  vals = np.zeros(tuple(lead) + tuple(outsp) + (x.shape[-1],))
  dens = np.zeros(tuple(outsp))
  empty = np.zeros(tuple(outsp), dtype=bool)
  for o in itertools.product(*[range(n) for n in outsp]):
    srcs = []
    for w in itertools.product(*[range(n) for n in window]):
      s = [o[j] * strides[j] + w[j] - geo[j][0] for j in range(nw)]
      if all(0 <= s[j] < sp[j] for j in range(nw)):
        srcs.append(tuple(s))
    idx = (slice(None),) * nb
    if op == 'avg':
      acc = sum((xf[idx + s] for s in srcs), np.zeros(tuple(lead) + (x.shape[-1],)))
      vals[idx + o] = acc
      dens[o] = prod(window) if cip else len(srcs)
    else:
      if not srcs:
        empty[o] = True
        continue
      st = np.stack([xf[idx + s] for s in srcs])
      vals[idx + o] = st.max(0) if op == 'max' else st.min(0)
  return vals, dens, empty


# ------------------------------------------------------------------------------------------------
# implementation adapters + oracles, one evaluator per family (run in worker processes)
# ------------------------------------------------------------------------------------------------


def _zeros_init():
  return jx()['nn'].initializers.zeros_init()


def _jarr(a):
  return None if a is None else jx()['jnp'].asarray(a)


def _out(fn):
  """runs fn() -> array, returns ['ok', payload] / ['err', name]"""
  np = jx()['np']
  r = call(fn)
  if r[0] == 'ok':
    r[1] = enc(np.asarray(r[1]))
  return r


def _set(var, value):
  var.value = _jarr(value)


def ev_dense(c):
  J = jx()
  nn, nnx, np = J['nn'], J['nnx'], J['np']
  x, k, b = np_of(c['x']), np_of(c['k']), np_of(c.get('bias'))
  feats = k.shape[-1]

  def linen():
    p = {'kernel': _jarr(k)}
    if b is not None:
      p['bias'] = _jarr(b)
    return nn.Dense(feats, use_bias=b is not None, kernel_init=_zeros_init()).apply({'params': p}, _jarr(x))

  def nx():
    m = nnx.Linear(k.shape[0], feats, use_bias=b is not None, kernel_init=_zeros_init(), rngs=nnx.Rngs(0))
    _set(m.kernel, k)
    if b is not None:
      _set(m.bias, b)
    return m(_jarr(x))

  def oracle():
    y = (x.astype(np.float64)[..., :, None] * k.astype(np.float64)).sum(-2)
    return (y + b) if b is not None else y

  def prim():
    got = np.asarray(J['jax'].lax.dot_general(_jarr(x), _jarr(k), (((x.ndim - 1,), (0,)), ((), ()))), dtype=np.float64)
    want = (x.astype(np.float64)[..., :, None] * k.astype(np.float64)).sum(-2)
    return got.shape == want.shape and bool(np.array_equal(got, want))

  res = {'linen': _out(linen), 'nnx': _out(nx), 'oracle': _out(oracle), 'lean': [['dense', {'x': c['x'], 'k': c['k'], 'bias': c.get('bias')}]]}
  return _lax_probe(res, prim)


def ev_dense_general(c):
  J = jx()
  nn, nnx, np = J['nn'], J['nnx'], J['np']
  x, k, b = np_of(c['x']), np_of(c['k']), np_of(c.get('bias'))
  axis, bd, feats = tuple(c['axis']), tuple(c['batch_dims']), tuple(c['features'])

  def linen():
    p = {'kernel': _jarr(k)}
    if b is not None:
      p['bias'] = _jarr(b)
    ax = axis[0] if c.get('axis_int') else axis
    ft = feats[0] if c.get('features_int') else feats
    return nn.DenseGeneral(ft, axis=ax, batch_dims=bd, use_bias=b is not None, kernel_init=_zeros_init()).apply({'params': p}, _jarr(x))

  def nx():
    nd = x.ndim
    sorted_ax = sorted(a % nd for a in axis)
    m = nnx.LinearGeneral(
      tuple(x.shape[a] for a in sorted_ax), feats, axis=axis, batch_axis={d: x.shape[d] for d in bd},
      use_bias=b is not None, kernel_init=_zeros_init(), rngs=nnx.Rngs(0))
    _set(m.kernel, k)
    if b is not None:
      _set(m.bias, b)
    return m(_jarr(x))

  def oracle():
    if bd and set(bd) != set(range(max(bd) + 1)):
      raise ValueError('batch_dims')
    return np_dense_general(x, k, b, axis, bd)

  req = {'x': c['x'], 'k': c['k'], 'bias': c.get('bias'), 'axis': list(axis), 'batch_dims': list(bd), 'nfeat': len(feats)}
  def prim():
    nd = x.ndim
    ax = tuple(sorted(a % nd for a in axis))
    bdn = tuple(sorted(b % nd for b in bd))
    nbd = len(bdn)
    got = np.asarray(J['jax'].lax.dot_general(_jarr(x), _jarr(k), ((ax, tuple(range(nbd, nbd + len(ax)))), (bdn, tuple(range(nbd))))), dtype=np.float64)
    want = np_dense_general(x, k, None, axis, bd)
    return got.shape == want.shape and bool(np.array_equal(got, want))

  res = {'linen': _out(linen), 'nnx': _out(nx), 'oracle': _out(oracle), 'lean': [['dense_general', req]]}
  return _lax_probe(res, prim)


def ev_einsum(c):
  J = jx()
  nn, nnx, np = J['nn'], J['nnx'], J['np']
  x, k, b = np_of(c['x']), np_of(c['k']), np_of(c.get('bias'))
  spec = c['spec']

  def linen():
    p = {'kernel': _jarr(k)}
    if b is not None:
      p['bias'] = _jarr(b)
    if c.get('spec_at_call'):
      return nn.Einsum(k.shape, None, use_bias=b is not None, kernel_init=_zeros_init()).apply({'params': p}, _jarr(x), spec)
    return nn.Einsum(k.shape, spec, use_bias=b is not None, kernel_init=_zeros_init()).apply({'params': p}, _jarr(x))

  def nx():
    m = nnx.Einsum(spec, k.shape, None if b is None else b.shape, kernel_init=_zeros_init(), rngs=nnx.Rngs(0))
    _set(m.kernel, k)
    if b is not None:
      _set(m.bias, b)
    return m(_jarr(x))

  def oracle():
    L = 'abcdefghijklmnopqrstuvwxyz'
    lhs, rhs, out = c['lhs'], c['rhs'], c['out']
    y = np.einsum(''.join(L[i] for i in lhs) + ',' + ''.join(L[i] for i in rhs) + '->' + ''.join(L[i] for i in out),
                  x.astype(np.float64), k.astype(np.float64))
    if b is not None:
      y = y + b.reshape([k.shape[rhs.index(l)] if l in rhs else 1 for l in out])
    return y

  req = {'lhs': c['lhs'], 'rhs': c['rhs'], 'out': c['out'], 'x': c['x'], 'k': c['k'], 'bias': c.get('bias')}
  def prim():
    L = 'abcdefghijklmnopqrstuvwxyz'
    lhs, rhs, out = c['lhs'], c['rhs'], c['out']
    got = np.asarray(J['jnp'].einsum(spec.replace(' ', ''), _jarr(x), _jarr(k)), dtype=np.float64)
    want = np.einsum(''.join(L[i] for i in lhs) + ',' + ''.join(L[i] for i in rhs) + '->' + ''.join(L[i] for i in out),
                     x.astype(np.float64), k.astype(np.float64))
    return got.shape == want.shape and bool(np.array_equal(got, want))

  res = {'linen': _out(linen), 'nnx': _out(nx), 'oracle': _out(oracle), 'lean': [['einsum', req]]}
  return _lax_probe(res, prim)


def _pad_arg(p):
  if isinstance(p, list):
    return [tuple(q) if isinstance(q, list) else q for q in p]
  return p


def _tup(v):
  return tuple(v) if isinstance(v, list) else v



def _differs(r, oracle):
  return not same_exact(r, oracle)


def lax_direct_conv(c, x, k, mask, local):
  """The lax primitive flax is documented to call for Conv / ConvLocal, run directly (batch flattened, numpy pre-padding for
  CIRCULAR / REFLECT / CAUSAL, the same strides / dilations / groups / padding), compared with the direct-sum reference without
  bias.  Returns True when lax itself meets the reference on this input, False when assumption A-CONV fails here."""
  J = jx()
  np, jnp, lax = J['np'], J['jnp'], J['jax'].lax
  ks = list(c['kernel_size'])
  nsp = len(ks)
  strides = bcast(c.get('strides', 1), nsp)
  ld = bcast(c.get('input_dilation', 1), nsp)
  rd = bcast(c.get('kernel_dilation', 1), nsp)
  pad = canon_padding(c['padding'], nsp)
  nb = x.ndim - (nsp + 1)
  xf = x.reshape((prod(x.shape[:nb]),) + x.shape[nb:])
  kk = k * mask if mask is not None else k
  want = np_conv(dict(c, padding=c['padding']), xf, k, None, mask, local)
  if pad in ('CIRCULAR', 'REFLECT'):
    pads = [(0, 0)] + [((dilated_k(ks[j], rd[j]) - 1) // 2, dilated_k(ks[j], rd[j]) // 2) for j in range(nsp)] + [(0, 0)]
    mode = {'CIRCULAR': 'wrap', 'REFLECT': 'reflect'}[pad]
    if not np.array_equal(np.asarray(jnp.pad(jnp.asarray(xf), pads, mode=mode)), np.pad(xf, pads, mode=mode)):
      return False  # jnp.pad itself does not meet the numpy semantics
    xf = np.pad(xf, pads, mode=mode)
    pad = 'VALID'
  elif pad == 'CAUSAL':
    pads = [(0, 0), (rd[0] * (ks[0] - 1), 0), (0, 0)]
    if not np.array_equal(np.asarray(jnp.pad(jnp.asarray(xf), pads)), np.pad(xf, pads)):
      return False
    xf = np.pad(xf, pads)
    pad = 'VALID'
  nd = xf.ndim
  dn = lax.ConvDimensionNumbers((0, nd - 1) + tuple(range(1, nd - 1)), (nd - 1, nd - 2) + tuple(range(0, nd - 2)), (0, nd - 1) + tuple(range(1, nd - 1)))
  lp = pad if isinstance(pad, str) else [tuple(p) for p in pad]
  if local:
    got = lax.conv_general_dilated_local(lhs=jnp.asarray(xf), rhs=jnp.asarray(kk), window_strides=strides, padding=lp, filter_shape=ks,
                                         lhs_dilation=ld, rhs_dilation=rd, dimension_numbers=dn)
  else:
    got = lax.conv_general_dilated(jnp.asarray(xf), jnp.asarray(kk), strides, lp, lhs_dilation=ld, rhs_dilation=rd, dimension_numbers=dn,
                                   feature_group_count=c.get('groups', 1))
  got = np.asarray(got, dtype=np.float64)
  return got.shape == want.shape and bool(np.array_equal(got, want))


def lax_direct_conv_transpose(c, x, k, mask):
  J = jx()
  np, jnp, lax = J['np'], J['jnp'], J['jax'].lax
  ks = list(c['kernel_size'])
  nsp = len(ks)
  nb = x.ndim - (nsp + 1)
  xf = x.reshape((prod(x.shape[:nb]),) + x.shape[nb:])
  kk = k * mask if mask is not None else k
  pad = canon_padding(c['padding'], nsp)
  if pad == 'CIRCULAR':
    pad = 'VALID'
  want = np_conv_transpose(dict(c, padding=pad if isinstance(pad, str) else [list(p) for p in pad]), xf, k, None, mask)
  lp = pad if isinstance(pad, str) else [tuple(p) for p in pad]
  got = np.asarray(lax.conv_transpose(jnp.asarray(xf), jnp.asarray(kk), bcast(c.get('strides'), nsp), lp, rhs_dilation=bcast(c.get('kernel_dilation'), nsp),
                                      transpose_kernel=c['transpose_kernel']), dtype=np.float64)
  return got.shape == want.shape and bool(np.array_equal(got, want))


def _lax_probe(res, fn, differs=None):
  """adds res['lax_ok'] when an implementation voice differs from the reference"""
  o = res['oracle']
  differs = differs or _differs
  if o[0] == 'ok' and any(api in res and differs(res[api], o) for api in ('linen', 'nnx')):
    r = call(fn)
    res['lax_ok'] = r[1] if r[0] == 'ok' else 'err:' + str(r[1])
  return res


def ev_conv(c):
  J = jx()
  nn, nnx, np = J['nn'], J['nnx'], J['np']
  x, k, b, mask = np_of(c['x']), np_of(c['k']), np_of(c.get('bias')), np_of(c.get('mask'))
  local = c.get('local', False)
  ks = c['kernel_size']
  kw = dict(strides=_tup(c.get('strides', 1)), padding=_pad_arg(c['padding']), input_dilation=_tup(c.get('input_dilation', 1)),
            kernel_dilation=_tup(c.get('kernel_dilation', 1)), feature_group_count=c.get('groups', 1), use_bias=b is not None,
            mask=_jarr(mask), kernel_init=_zeros_init())
  ksz = ks[0] if c.get('kernel_int') else tuple(ks)

  def linen():
    p = {'kernel': _jarr(k)}
    if b is not None:
      p['bias'] = _jarr(b)
    cls = nn.ConvLocal if local else nn.Conv
    return cls(c['features'], ksz, **kw).apply({'params': p}, _jarr(x))

  def nx():
    m = nnx.Conv(x.shape[-1], c['features'], ksz, rngs=nnx.Rngs(0), **kw)
    _set(m.kernel, k)
    if b is not None:
      _set(m.bias, b)
    return m(_jarr(x))

  def oracle():
    nsp = len(ks)
    pad = c['padding']
    if pad == 'CAUSAL' and nsp != 1:
      raise ValueError('causal')
    if isinstance(pad, str) and pad not in ('SAME', 'VALID', 'CIRCULAR', 'REFLECT', 'CAUSAL'):
      raise ValueError('padding')
    if isinstance(pad, list) and len(pad) != nsp:
      raise ValueError('padding')
    if mask is not None and mask.shape != k.shape:
      raise ValueError('mask')
    if local and c.get('groups', 1) != 1:
      raise NotImplementedError('groups')
    if x.shape[-1] % c.get('groups', 1) != 0:
      raise ValueError('groups')
    return np_conv(c, x, k, b, mask, local)

  req = {kk: c.get(kk) for kk in ('kernel_size', 'padding', 'x', 'k', 'bias', 'mask')}
  req.update(strides=c.get('strides', 1), input_dilation=c.get('input_dilation', 1), kernel_dilation=c.get('kernel_dilation', 1),
             groups=c.get('groups', 1), local=local)
  res = {'linen': _out(linen), 'oracle': _out(oracle), 'lean': [['conv', req]]}
  if not local:
    res['nnx'] = _out(nx)
  return _lax_probe(res, lambda: lax_direct_conv(c, x, k, mask, local))


def ev_conv_transpose(c):
  J = jx()
  nn, nnx, np = J['nn'], J['nnx'], J['np']
  x, k, b, mask = np_of(c['x']), np_of(c['k']), np_of(c.get('bias')), np_of(c.get('mask'))
  ks = c['kernel_size']
  kw = dict(strides=_tup(c.get('strides')), padding=_pad_arg(c['padding']), kernel_dilation=_tup(c.get('kernel_dilation')),
            use_bias=b is not None, mask=_jarr(mask), kernel_init=_zeros_init(), transpose_kernel=c['transpose_kernel'])
  ksz = ks[0] if c.get('kernel_int') else tuple(ks)

  def linen():
    p = {'kernel': _jarr(k)}
    if b is not None:
      p['bias'] = _jarr(b)
    return nn.ConvTranspose(c['features'], ksz, **kw).apply({'params': p}, _jarr(x))

  def nx():
    m = nnx.ConvTranspose(x.shape[-1], c['features'], ksz, rngs=nnx.Rngs(0), **kw)
    _set(m.kernel, k)
    if b is not None:
      _set(m.bias, b)
    return m(_jarr(x))

  def oracle():
    if mask is not None and mask.shape != k.shape:
      raise ValueError('mask')
    return np_conv_transpose(c, x, k, b, mask)

  req = {kk: c.get(kk) for kk in ('kernel_size', 'padding', 'x', 'k', 'bias', 'mask', 'strides', 'kernel_dilation', 'transpose_kernel')}
  res = {'linen': _out(linen), 'nnx': _out(nx), 'oracle': _out(oracle), 'lean': [['conv_transpose', req]]}
  return _lax_probe(res, lambda: lax_direct_conv_transpose(c, x, k, mask))


def ev_embed(c):
  J = jx()
  nn, nnx, np, jnp = J['nn'], J['nnx'], J['np'], J['jnp']
  table = np_of(c['table'])
  n, f = table.shape
  res = {}
  if c['op'] == 'lookup':
    idx = np.array(c['idx']['d'], dtype=np.int32).reshape(c['idx']['s'])

    def linen():
      return nn.Embed(n, f, embedding_init=_zeros_init()).apply({'params': {'embedding': _jarr(table)}}, jnp.asarray(idx))

    def nx():
      m = nnx.Embed(n, f, embedding_init=_zeros_init(), rngs=nnx.Rngs(0))
      _set(m.embedding, table)
      return m(jnp.asarray(idx))

    def oracle():
      out = np.full(idx.shape + (f,), np.nan)
      for pos in itertools.product(*[range(s) for s in idx.shape]):
        i = int(idx[pos])
        if n == 1:
          out[pos] = table[0]
        elif -n <= i < n:
          out[pos] = table[i]
      return out

    res['lean'] = [['embed', {'table': c['table'], 'idx': c['idx']['d']}]]
  else:
    q = np_of(c['query'])

    def linen():
      m = nn.Embed(n, f, embedding_init=_zeros_init())
      return m.apply({'params': {'embedding': _jarr(table)}}, _jarr(q), method=m.attend)

    def nx():
      m = nnx.Embed(n, f, embedding_init=_zeros_init(), rngs=nnx.Rngs(0))
      _set(m.embedding, table)
      return m.attend(_jarr(q))

    def oracle():
      return (q.astype(np.float64)[..., None, :] * table.astype(np.float64)).sum(-1)

    res['lean'] = [['attend', {'table': c['table'], 'query': c['query']}]]
  def prim():
    if c['op'] == 'lookup':
      if n == 1:
        got = np.asarray(jnp.broadcast_to(_jarr(table)[0], idx.shape + (f,)), dtype=np.float64)
      else:
        got = np.asarray(jnp.take(_jarr(table), jnp.asarray(idx), axis=0), dtype=np.float64)
    else:
      got = np.asarray(jnp.dot(_jarr(q), _jarr(table).T), dtype=np.float64)
    want = np.asarray(oracle(), dtype=np.float64)
    return got.shape == want.shape and bool(np.array_equal(got, want, equal_nan=True))

  res.update(linen=_out(linen), nnx=_out(nx), oracle=_out(oracle))
  return _lax_probe(res, prim)


def ev_pool(c):
  J = jx()
  nn, nnx, np = J['nn'], J['nnx'], J['np']
  x = np_of(c['x'])
  op = c['op']
  window = tuple(c['window'])
  strides = None if c.get('strides') is None else tuple(c['strides'])
  padding = c['padding'] if isinstance(c['padding'], str) else tuple(tuple(p) for p in c['padding'])

  def run(mod):
    def f():
      if op == 'avg':
        return mod.avg_pool(_jarr(x), window, strides, padding, count_include_pad=c['count_include_pad'])
      return (mod.max_pool if op == 'max' else mod.min_pool)(_jarr(x), window, strides, padding)
    return f

  def fl(arr):
    return {'s': list(arr.shape), 'v': [float(v) for v in np.asarray(arr, dtype=np.float64).reshape(-1)], 'dt': str(arr.dtype)}

  def wrap(fn):
    r = call(fn)
    if r[0] == 'ok':
      r[1] = fl(np.asarray(r[1]))
    return r

  def oracle():
    vals, dens, empty = np_pool(op, x, list(window), strides, c['padding'], c.get('count_include_pad', True))
    nb = x.ndim - (len(window) + 1)
    d = np.broadcast_to(dens.reshape((1,) * nb + dens.shape + (1,)), vals.shape)
    e = np.broadcast_to(empty.reshape((1,) * nb + empty.shape + (1,)), vals.shape)
    return {'s': list(vals.shape), 'num': [int(v) for v in vals.reshape(-1)], 'den': [int(v) for v in d.reshape(-1)],
            'empty': [bool(v) for v in e.reshape(-1)]}

  req = {'x': c['x'], 'window': list(window), 'strides': list(strides) if strides else [], 'padding': c['padding']}
  if op == 'avg':
    req['count_include_pad'] = c['count_include_pad']
    lean = [['avg_pool', req]]
  else:
    req['is_max'] = op == 'max'
    lean = [['ext_pool', req]]
  def prim():
    # lax.reduce_window exactly as pooling.pool documents: 1s for the batch / feature dims, (0,0) pads there
    lax, jnp = J['jax'].lax, J['jnp']
    nw = len(window)
    xb = x if x.ndim - (nw + 1) >= 1 else x[None]
    nbd = xb.ndim - (nw + 1)
    dims = (1,) * nbd + window + (1,)
    strd = (1,) * nbd + (strides or (1,) * nw) + (1,)
    pad = padding if isinstance(padding, str) else ((0, 0),) * nbd + padding + ((0, 0),)
    vals, dens, empty = np_pool(op, xb, list(window), strides, c['padding'], c.get('count_include_pad', True))
    if op == 'avg':
      got = np.asarray(lax.reduce_window(jnp.asarray(xb), 0.0, lax.add, dims, strd, pad), dtype=np.float64)
      if got.shape != vals.shape or not np.array_equal(got, vals):
        return False
      if not c['count_include_pad']:
        ones = np.asarray(lax.reduce_window(jnp.ones(xb.shape[:-1] + (1,), np.float32), 0.0, lax.add, dims, strd, pad), dtype=np.float64)
        want = np.broadcast_to(dens.reshape((1,) * nbd + dens.shape + (1,)), ones.shape[:nbd] + dens.shape + (1,))
        return bool(np.array_equal(ones, want))
      return True
    init, fn = (-np.inf, lax.max) if op == 'max' else (np.inf, lax.min)
    got = np.asarray(lax.reduce_window(jnp.asarray(xb), init, fn, dims, strd, pad), dtype=np.float64)
    want = np.where(np.broadcast_to(empty.reshape((1,) * nbd + empty.shape + (1,)), vals.shape), init, vals)
    return got.shape == want.shape and bool(np.array_equal(got, want))

  def pdiff(r, o):
    exp = pool_expected(op, o[1]['num'], o[1]['den'], o[1]['empty'])
    return not pool_matches(r, o[1]['s'], exp)

  from flax.linen import pooling
  res = {'linen': wrap(run(pooling)), 'nnx': wrap(run(nnx)), 'oracle': call(oracle), 'lean': lean}
  return _lax_probe(res, prim, pdiff)


def _fl(arr):
  np = jx()['np']
  a = np.asarray(arr, dtype=np.float64).reshape(-1)
  return {'s': list(np.shape(arr)), 'v': [None if math.isnan(v) else float(v) for v in a], 'dt': str(getattr(arr, 'dtype', 'float64'))}


def _outf(fn):
  np = jx()['np']
  r = call(fn)
  if r[0] == 'ok':
    r[1] = _fl(np.asarray(r[1]))
  return r


def _canon(axes, nd):
  return sorted({a % nd for a in axes})


def np_norm(c, x, scale, bias, mask):
  """float64 reference of LayerNorm / RMSNorm / InstanceNorm / GroupNorm from the documented formulas."""
  np = jx()['np']
  nd = x.ndim
  kind = c['norm']
  eps = c['eps']
  xf = x.astype(np.float64)
  m = None if mask is None else np.broadcast_to(mask != 0, x.shape)
  with np.errstate(all='ignore'), warnings.catch_warnings():
    warnings.simplefilter('ignore')
    if kind == 'group':
      red = _canon(c['reduction_axes'], nd) if c.get('reduction_axes') is not None else sorted(set(list(range(1, nd - 1)) + [nd - 1]))
      if not red or red[-1] != nd - 1:
        raise ValueError('reduction axes')
      ch = x.shape[-1]
      if c.get('group_size') is not None:
        if ch % c['group_size'] != 0:
          raise ValueError('group size')
        g = ch // c['group_size']
      else:
        g = c['num_groups']
      if g <= 0 or ch % g != 0:
        raise ValueError('groups')
      xg = xf.reshape(x.shape[:-1] + (g, ch // g))
      mg = None if m is None else m.reshape(xg.shape)
      axes = tuple(red[:-1]) + (xg.ndim - 1,)
      kw = {} if mg is None else {'where': mg}
      mean = xg.mean(axis=axes, keepdims=True, **kw)
      var = ((xg - mean) ** 2).mean(axis=axes, keepdims=True, **kw)
      y = ((xg - mean) / np.sqrt(var + eps)).reshape(x.shape)
      feat = [nd - 1]
    else:
      if kind == 'instance':
        feat = _canon(c['feature_axes'], nd)
        if 0 in feat:
          raise ValueError('batch axis')
        red = [i for i in range(1, nd) if i not in feat]
      else:
        red = _canon(c['reduction_axes'], nd)
        feat = _canon(c['feature_axes'], nd)
      kw = {} if m is None else {'where': m}
      if kind == 'rms':
        mean = 0.0
        var = (xf**2).mean(axis=tuple(red), keepdims=True, **kw)
      else:
        mean = xf.mean(axis=tuple(red), keepdims=True, **kw)
        var = ((xf - mean) ** 2).mean(axis=tuple(red), keepdims=True, **kw)
      y = (xf - mean) / np.sqrt(var + eps)
    fshape = [x.shape[a] if a in feat else 1 for a in range(nd)]
    if scale is not None:
      y = y * scale.astype(np.float64).reshape(fshape)
    if bias is not None:
      y = y + bias.astype(np.float64).reshape(fshape)
  return y


def ev_norm(c):
  J = jx()
  nn, nnx, np = J['nn'], J['nnx'], J['np']
  x, scale, bias, mask = np_of(c['x']), np_of(c.get('scale')), np_of(c.get('bias')), np_of(c.get('mask'))
  kind = c['norm']
  common = dict(epsilon=c['eps'], use_scale=scale is not None, use_fast_variance=c['fast'])
  jm = None if mask is None else J['jnp'].asarray(mask != 0)

  def axes(v):
    if isinstance(v, list) and c.get('axes_int') and len(v) == 1:
      return v[0]
    return tuple(v) if isinstance(v, list) else v

  def params():
    p = {}
    if scale is not None:
      p['scale'] = _jarr(scale)
    if bias is not None:
      p['bias'] = _jarr(bias)
    return {'params': p}

  def linen():
    if kind == 'layer':
      m = nn.LayerNorm(use_bias=bias is not None, reduction_axes=axes(c['reduction_axes']), feature_axes=axes(c['feature_axes']), **common)
    elif kind == 'rms':
      m = nn.RMSNorm(reduction_axes=axes(c['reduction_axes']), feature_axes=axes(c['feature_axes']), **common)
    elif kind == 'instance':
      m = nn.InstanceNorm(use_bias=bias is not None, feature_axes=axes(c['feature_axes']), **common)
    else:
      ra = c.get('reduction_axes')
      m = nn.GroupNorm(num_groups=c.get('num_groups'), group_size=c.get('group_size'), use_bias=bias is not None,
                       reduction_axes=None if ra is None else tuple(ra), **common)
    return m.apply(params(), _jarr(x), mask=jm)

  def nx():
    nf = prod(scale.shape) if scale is not None else (prod(bias.shape) if bias is not None else x.shape[-1])
    if kind == 'layer':
      m = nnx.LayerNorm(nf, use_bias=bias is not None, reduction_axes=axes(c['reduction_axes']), feature_axes=axes(c['feature_axes']), rngs=nnx.Rngs(0), **common)
    elif kind == 'rms':
      m = nnx.RMSNorm(nf, reduction_axes=axes(c['reduction_axes']), feature_axes=axes(c['feature_axes']), rngs=nnx.Rngs(0), **common)
    else:
      ra = c.get('reduction_axes')
      m = nnx.GroupNorm(x.shape[-1], num_groups=c.get('num_groups'), group_size=c.get('group_size'), use_bias=bias is not None,
                        reduction_axes=None if ra is None else tuple(ra), rngs=nnx.Rngs(0), **common)
    if scale is not None:
      _set(m.scale, scale.reshape(-1))
    if bias is not None and getattr(m, 'bias', None) is not None:
      _set(m.bias, bias.reshape(-1))
    return m(_jarr(x), mask=jm)

  req = {'kind': kind, 'x': c['x'], 'mask': c.get('mask'), 'scale': c.get('scale'), 'bias': c.get('bias'), 'fast': c['fast']}
  if kind in ('layer', 'rms'):
    req.update(reduction_axes=c['reduction_axes'], feature_axes=c['feature_axes'])
  elif kind == 'instance':
    req.update(feature_axes=c['feature_axes'])
  else:
    ch = x.shape[-1]
    gs = c.get('group_size')
    req.update(num_groups=(ch // gs if gs and ch % gs == 0 else 0) if gs is not None else c['num_groups'], reduction_axes=c.get('reduction_axes'))
  res = {'linen': _outf(linen), 'oracle': _outf(lambda: np_norm(c, x, scale, bias, mask)), 'lean': [['norm', req]]}
  if kind != 'instance':
    res['nnx'] = _outf(nx)
  return res


def ev_batch_norm(c):
  J = jx()
  nn, nnx, np, jnp = J['nn'], J['nnx'], J['np'], J['jnp']
  scale, bias = np_of(c.get('scale')), np_of(c.get('bias'))
  mom = c['momentum'][0] / c['momentum'][1]
  ra_m = np.array(c['ra_mean'], dtype=np.float32)
  ra_v = np.array(c['ra_var'], dtype=np.float32)
  kw = dict(axis=c['axis'], momentum=mom, epsilon=c['eps'], use_bias=bias is not None, use_scale=scale is not None, use_fast_variance=c['fast'])

  def stepdata(s):
    x = np_of(s['x'])
    mask = np_of(s.get('mask'))
    return x, (None if mask is None else jnp.asarray(mask != 0)), mask

  def linen():
    p = {}
    if scale is not None:
      p['scale'] = _jarr(scale)
    if bias is not None:
      p['bias'] = _jarr(bias)
    variables = {'params': p, 'batch_stats': {'mean': _jarr(ra_m), 'var': _jarr(ra_v)}}
    m = nn.BatchNorm(**kw)
    out = []
    for s in c['steps']:
      x, jm, _ = stepdata(s)
      y, upd = m.apply(variables, _jarr(x), use_running_average=s['use_running_average'], mask=jm, mutable=['batch_stats'])
      bs = upd['batch_stats']
      variables = {'params': p, 'batch_stats': bs}
      out.append({'y': _fl(np.asarray(y)), 'mean': _fl(np.asarray(bs['mean'])), 'var': _fl(np.asarray(bs['var']))})
    return out

  def nx():
    m = nnx.BatchNorm(len(ra_m), rngs=nnx.Rngs(0), **kw)
    _set(m.mean, ra_m)
    _set(m.var, ra_v)
    if scale is not None:
      _set(m.scale, scale)
    if bias is not None:
      _set(m.bias, bias)
    out = []
    for s in c['steps']:
      x, jm, _ = stepdata(s)
      y = m(_jarr(x), use_running_average=s['use_running_average'], mask=jm)
      out.append({'y': _fl(np.asarray(y)), 'mean': _fl(np.asarray(m.mean.value)), 'var': _fl(np.asarray(m.var.value))})
    return out

  def oracle():
    rm, rv = ra_m.astype(np.float64), ra_v.astype(np.float64)
    out = []
    for s in c['steps']:
      x, _, mask = stepdata(s)
      nd = x.ndim
      a = c['axis'] % nd
      red = tuple(i for i in range(nd) if i != a)
      xf = x.astype(np.float64)
      fshape = [x.shape[a] if i == a else 1 for i in range(nd)]
      with np.errstate(all='ignore'), warnings.catch_warnings():
        warnings.simplefilter('ignore')
        if s['use_running_average']:
          mean, var = rm.reshape(fshape), rv.reshape(fshape)
        else:
          kwm = {} if mask is None else {'where': np.broadcast_to(mask != 0, x.shape)}
          mean = xf.mean(axis=red, keepdims=True, **kwm)
          var = ((xf - mean) ** 2).mean(axis=red, keepdims=True, **kwm)
          rm = mom * rm + (1 - mom) * mean.reshape(-1)
          rv = mom * rv + (1 - mom) * var.reshape(-1)
        y = (xf - mean) / np.sqrt(var + c['eps'])
        if scale is not None:
          y = y * scale.astype(np.float64).reshape(fshape)
        if bias is not None:
          y = y + bias.astype(np.float64).reshape(fshape)
      out.append({'y': _fl(y), 'mean': _fl(rm), 'var': _fl(rv)})
    return out

  req = {'steps': [{'x': s['x'], 'use_running_average': s['use_running_average'], 'mask': s.get('mask')} for s in c['steps']],
         'axis': c['axis'], 'fast': c['fast'], 'momentum': c['momentum'], 'scale': c.get('scale'), 'bias': c.get('bias'),
         'ra_mean': [[v, 1] for v in c['ra_mean']], 'ra_var': [[v, 1] for v in c['ra_var']]}
  return {'linen': call(linen), 'nnx': call(nx), 'oracle': call(oracle), 'lean': [['batch_norm_seq', req]]}


def ev_bn_flags(c):
  """`use_running_average` resolution of BatchNorm: constructor flag x call flag x .eval()/.train() (NNX), constructor x call
  (Linen merge_param).  Data are chosen so that every statistic is a dyadic rational: state updates are compared exactly."""
  J = jx()
  nn, nnx, np, jnp = J['nn'], J['nnx'], J['np'], J['jnp']
  x = np_of(c['x'])
  nf = x.shape[-1]
  mom = c['momentum'][0] / c['momentum'][1]
  ra_m = np.array(c['ra_mean'], dtype=np.float32)
  ra_v = np.array(c['ra_var'], dtype=np.float32)
  kw = dict(momentum=mom, epsilon=c['eps'], use_bias=False, use_scale=False, use_fast_variance=c['fast'])
  callkw = {} if c.get('omit_call') else {'use_running_average': c['call']}

  def nx():
    m = nnx.BatchNorm(nf, use_running_average=c['ctor'], rngs=nnx.Rngs(0), **kw)
    _set(m.mean, ra_m)
    _set(m.var, ra_v)
    if c.get('mode') == 'eval':
      m.eval()
    elif c.get('mode') == 'train':
      m.train()
    y = m(_jarr(x), **callkw)
    return {'y': _fl(np.asarray(y)), 'mean': _fl(np.asarray(m.mean.value)), 'var': _fl(np.asarray(m.var.value))}

  def linen():
    m = nn.BatchNorm(use_running_average=c['ctor'], **kw)
    variables = {'params': {}, 'batch_stats': {'mean': _jarr(ra_m), 'var': _jarr(ra_v)}}
    y, upd = m.apply(variables, _jarr(x), mutable=['batch_stats'], **callkw)
    bs = upd['batch_stats']
    return {'y': _fl(np.asarray(y)), 'mean': _fl(np.asarray(bs['mean'])), 'var': _fl(np.asarray(bs['var']))}

  attr = c['ctor']
  if c.get('mode') == 'eval':
    attr = True
  elif c.get('mode') == 'train':
    attr = False
  res = {'nnx': call(nx), 'lean': [['resolve_flag', {'api': 'nnx', 'call': c['call'], 'attr': attr}]]}
  if c.get('mode') is None:
    res['linen'] = call(linen)
    res['lean'].append(['resolve_flag', {'api': 'linen', 'call': c['call'], 'attr': c['ctor']}])
  return res


def ev_dropout(c):
  J = jx()
  nn, nnx, np, jax = J['nn'], J['nnx'], J['np'], J['jax']
  rate = c['rate'][0] / c['rate'][1]
  bd = tuple(c['broadcast_dims'])
  shape = tuple(c['shape'])
  x, x2 = np_of(c['x']), np_of(c['x2'])
  ones = np.ones(shape, np.float32)
  key = jax.random.key(c['seed'])
  key2 = jax.random.key(c['seed'] + 1)

  def linen(inp, k, det=False, ctor=False):
    def f():
      if ctor:
        return nn.Dropout(rate, broadcast_dims=bd, deterministic=det).apply({}, _jarr(inp), rngs={'dropout': k})
      return nn.Dropout(rate, broadcast_dims=bd).apply({}, _jarr(inp), deterministic=det, rngs={'dropout': k})
    return _outf(f)

  def nx(inp, k, det=False, ctor=False):
    def f():
      if ctor:
        return nnx.Dropout(rate, broadcast_dims=bd, deterministic=det, rngs=nnx.Rngs(dropout=k))(_jarr(inp))
      return nnx.Dropout(rate, broadcast_dims=bd, rngs=nnx.Rngs(dropout=k))(_jarr(inp), deterministic=det)
    return _outf(f)

  def cross():
    # the key NNX draws first from Rngs(dropout=key), handed to Linen explicitly: same key => same mask
    k0 = nnx.Rngs(dropout=key).dropout()
    return nn.Dropout(rate, broadcast_dims=bd, deterministic=False).apply({}, _jarr(x), rng=k0)

  res = {}
  for name, f in (('linen', linen), ('nnx', nx)):
    res[name] = {'ones': f(ones, key), 'x': f(x, key, ctor=True), 'x2': f(x2, key), 'det': f(x, key, det=True),
                 'det_ctor': f(x, key, det=True, ctor=True), 'ones_key2': f(ones, key2), 'ones_again': f(ones, key)}
  res['cross'] = _outf(cross)
  # nnx first_from: an explicit call-time `deterministic=False` on a layer constructed / switched to deterministic=True must drop
  res['nnx']['call_false_over_ctor_true'] = _outf(lambda: nnx.Dropout(rate, broadcast_dims=bd, deterministic=True, rngs=nnx.Rngs(dropout=key))(_jarr(x), deterministic=False))

  def after_eval():
    m = nnx.Dropout(rate, broadcast_dims=bd, rngs=nnx.Rngs(dropout=key))
    m.eval()
    return m(_jarr(x), deterministic=False)

  res['nnx']['call_false_after_eval'] = _outf(after_eval)
  res['lean'] = [['dropout_branch', {'rate_num': c['rate'][0], 'rate_den': c['rate'][1], 'deterministic': False, 'shape': list(shape), 'broadcast_dims': list(bd)}],
                 ['dropout_branch', {'rate_num': c['rate'][0], 'rate_den': c['rate'][1], 'deterministic': True, 'shape': list(shape), 'broadcast_dims': list(bd)}]]
  return res


EVALUATORS = {
  'dense': ev_dense, 'dense_general': ev_dense_general, 'einsum': ev_einsum, 'conv': ev_conv, 'conv_transpose': ev_conv_transpose,
  'embed': ev_embed, 'pool': ev_pool, 'norm': ev_norm, 'batch_norm': ev_batch_norm, 'bn_flags': ev_bn_flags, 'dropout': ev_dropout,
}


def evaluate(case):
  return EVALUATORS[case['kind']](case)


def worker_main():
  """`python -c 'from harness.props import c12; c12.worker_main()'`: cases (JSON list) on stdin, one result line per case."""
  cases = json.load(sys.stdin)
  jx()
  out = sys.stdout
  for c in cases:
    try:
      r = evaluate(c)
    except Exception as e:  # a harness bug, reported as infrastructure by the parent
      import traceback
      r = {'harness_error': f'{type(e).__name__}: {e}', 'tb': traceback.format_exc()[-1500:]}
    out.write(json.dumps(r) + '\n')
  out.flush()


# ------------------------------------------------------------------------------------------------
# generators (parent process, ctx.rng only)
# ------------------------------------------------------------------------------------------------

XR, KR, BR = 6, 3, 9  # value ranges of inputs, kernels, biases


def _shape(rng, rank, lo=1, hi=4):
  return [rng.randint(lo, hi) for _ in range(rank)]


def _check_exact(terms, mb=BR):
  assert terms * XR * KR + mb < 2**24, 'exactness bound exceeded'


def gen_dense(rng):
  rank = rng.choice([1, 2, 2, 3, 4])
  shp = _shape(rng, rank, 1, 4)
  f = rng.randint(1, 4)
  _check_exact(shp[-1])
  c = {'kind': 'dense', 'x': rand_T(rng, shp, -XR, XR), 'k': rand_T(rng, [shp[-1], f], -KR, KR),
       'bias': rand_T(rng, [f], -BR, BR) if rng.random() < 0.7 else None}
  c['_nt'] = shp[-1] >= 2 and prod(shp[:-1]) * f >= 2
  return c


def gen_dense_general(rng):
  rank = rng.choice([1, 2, 3, 3, 4, 4])
  shp = _shape(rng, rank, 1, 3)
  nb = rng.choice([0, 1, 1, 2]) if rank >= 3 else (rng.choice([0, 1]) if rank == 2 else 0)
  nb = min(nb, rank - 1)
  rest = list(range(nb, rank))
  na = rng.randint(1, min(2, len(rest)))
  if nb >= 1 and rank - nb >= 2 and rng.random() < 0.7:
    na = min(na, rank - nb - 1)  # keep at least one free (neither batch nor contracted) axis
    shp[0] = rng.choice([2, 3])  # a real batch, so per-batch kernels / biases differ
  ax = rng.sample(rest, na)  # unsorted on purpose
  axis = [a - rank if rng.random() < 0.5 else a for a in ax]
  bd = list(range(nb))
  if rng.random() < 0.3:
    rng.shuffle(bd)
  feats = [rng.randint(1, 3) for _ in range(rng.choice([1, 1, 2]))]
  sax = sorted(ax)
  kshape = [shp[b] for b in range(nb)] + [shp[a] for a in sax] + feats
  _check_exact(prod(shp[a] for a in sax))
  c = {'kind': 'dense_general', 'x': rand_T(rng, shp, -XR, XR), 'k': rand_T(rng, kshape, -KR, KR),
       'bias': rand_T(rng, [shp[b] for b in range(nb)] + feats, -BR, BR) if rng.random() < (0.85 if nb else 0.7) else None,
       'axis': axis, 'batch_dims': bd, 'features': feats,
       'axis_int': len(axis) == 1 and rng.random() < 0.5, 'features_int': len(feats) == 1 and rng.random() < 0.5}
  c['_nt'] = prod(shp[a] for a in sax) >= 2 and prod(shp) // prod(shp[a] for a in sax) * prod(feats) >= 2
  return c


def gen_einsum(rng):
  L = 'abcdefghijklmnopqrstuvwxyz'
  rl = rng.randint(1, 3)
  lhs = list(range(rl))
  n_shared = rng.randint(1, min(2, rl))
  shared = rng.sample(lhs, n_shared)
  new = list(range(rl, rl + rng.randint(0, 2)))
  rhs = shared + new
  rng.shuffle(rhs)
  dims = {l: rng.randint(1, 3) for l in lhs + new}
  # output: every label kept with prob.; at least one label
  cand = lhs + new
  out = [l for l in cand if rng.random() < 0.7]
  if not out:
    out = [rng.choice(cand)]
  if rng.random() < 0.4:
    rng.shuffle(out)
  ell = False
  spec_l, spec_o = ''.join(L[i] for i in lhs), ''.join(L[i] for i in out)
  # ellipsis form: leading lhs labels not in rhs that also lead the output
  j = 0
  while j < len(lhs) and j < len(out) and lhs[j] == out[j] and lhs[j] not in rhs:
    j += 1
  if j >= 1 and rng.random() < 0.5:
    ell = True
    spec_l, spec_o = '...' + spec_l[j:], '...' + spec_o[j:]
  spec = spec_l + ',' + ''.join(L[i] for i in rhs) + ('->' if rng.random() < 0.8 else ' -> ') + spec_o
  kshape = [dims[l] for l in rhs]
  bshape = [dims[l] for l in out if l in rhs]
  summed = [l for l in cand if l not in out]
  _check_exact(prod(dims[l] for l in summed))
  c = {'kind': 'einsum', 'spec': spec, 'lhs': lhs, 'rhs': rhs, 'out': out, 'ellipsis': ell,
       'x': rand_T(rng, [dims[l] for l in lhs], -XR, XR), 'k': rand_T(rng, kshape, -KR, KR),
       'bias': rand_T(rng, bshape, -BR, BR) if rng.random() < 0.6 else None, 'spec_at_call': rng.random() < 0.3}
  c['_nt'] = prod(dims[l] for l in summed) >= 2 and prod(dims[l] for l in out) >= 2
  return c


def _bform(rng, vals, allow_none=False):
  """int / list / None forms of a per-axis hyper-parameter"""
  if allow_none and all(v == 1 for v in vals) and rng.random() < 0.5:
    return None
  if len(set(vals)) == 1 and rng.random() < 0.5:
    return vals[0]
  return list(vals)


def gen_conv(rng, allow3d=False):
  nsp = rng.choice([1, 1, 1, 2, 2, 3] if allow3d else [1, 1, 1, 2, 2])
  nbd = rng.choice([0, 1, 1, 1, 1, 2])
  bshape = [[], [rng.randint(1, 2)], rng.choice([[2, 1], [1, 2], [2, 2]])][nbd]
  hi_n = {1: 7, 2: 4, 3: 3}[nsp]
  insp = [rng.randint(1, hi_n) for _ in range(nsp)]
  groups = rng.choice([1, 1, 1, 2, 3])
  cin = groups * rng.randint(1, 2)
  feats = groups * rng.randint(1, 2)
  ks = [rng.randint(1, 4 if nsp == 1 else 3) for _ in range(nsp)]
  strides = [rng.choice([1, 1, 2, 3]) for _ in range(nsp)]
  rd = [rng.choice([1, 1, 1, 2, 3]) for _ in range(nsp)]
  ld = [1] * nsp
  mode = rng.choice(['SAME', 'VALID', 'CIRCULAR', 'CIRCULAR', 'REFLECT', 'REFLECT', 'CAUSAL', 'int', 'ints', 'pairs', 'pairs', 'mixed'])
  if mode == 'CAUSAL' and nsp != 1:
    mode = 'CIRCULAR'
  if mode == 'int':
    padding = rng.randint(0, 2)
  elif mode == 'ints':
    padding = [rng.randint(0, 2) for _ in range(nsp)]
  elif mode == 'pairs':
    padding = [[rng.randint(-1 if insp[j] >= 3 else 0, 3), rng.randint(0, 3)] for j in range(nsp)]
  elif mode == 'mixed':
    padding = [rng.randint(0, 2) if rng.random() < 0.5 else [rng.randint(0, 3), rng.randint(0, 3)] for _ in range(nsp)]
  else:
    padding = mode
  if not isinstance(padding, str) and rng.random() < 0.5:
    ld = [rng.choice([1, 2]) for _ in range(nsp)]
  if isinstance(padding, str) and padding not in ('SAME', 'VALID') and rng.random() < 0.5:
    rd = [rng.choice([2, 3]) for _ in range(nsp)]
  local = rng.random() < 0.2
  if local:
    groups, cin, feats = 1, rng.randint(1, 2), rng.randint(1, 2)
  c = {'kind': 'conv', 'local': local, 'features': feats, 'kernel_size': ks, 'kernel_int': nsp == 1 and rng.random() < 0.5,
       'strides': _bform(rng, strides, True), 'padding': padding, 'input_dilation': _bform(rng, ld, True),
       'kernel_dilation': _bform(rng, rd, True), 'groups': groups}
  xshape = bshape + insp + [cin]
  if local:
    outsp = conv_out_spatial(c, insp)
    if any(o == 0 for o in outsp):
      return gen_conv(rng, allow3d)
    kshape = outsp + [prod(ks) * cin, feats]
    bias_shape = outsp + [feats]
  else:
    kshape = ks + [cin // groups, feats]
    bias_shape = [feats]
  _check_exact(prod(ks) * cin)
  c['x'] = rand_T(rng, xshape, -XR, XR)
  c['k'] = rand_T(rng, kshape, -KR, KR)
  c['bias'] = rand_T(rng, bias_shape, -BR, BR) if rng.random() < 0.7 else None
  c['mask'] = rand_T(rng, kshape, 0, 1) if rng.random() < 0.25 else None
  c['_nt'] = prod(ks) * cin // groups >= 2 and prod(conv_out_spatial(c, insp)) * feats * prod(bshape) >= 2
  return c


def gen_conv_transpose(rng):
  nsp = rng.choice([1, 1, 2])
  nbd = rng.choice([0, 1, 1, 1, 2])
  bshape = [[], [rng.randint(1, 2)], rng.choice([[2, 1], [1, 2]])][nbd]
  insp = [rng.randint(1, 4 if nsp == 1 else 3) for _ in range(nsp)]
  cin, feats = rng.randint(1, 2), rng.randint(1, 2)
  ks = [rng.randint(1, 4 if nsp == 1 else 3) for _ in range(nsp)]
  strides = [rng.choice([1, 2, 2, 3]) for _ in range(nsp)]
  rd = [rng.choice([1, 1, 2]) for _ in range(nsp)]
  mode = rng.choice(['SAME', 'VALID', 'CIRCULAR', 'CIRCULAR', 'CIRCULAR', 'pairs', 'int'])
  if mode == 'pairs':
    padding = [[rng.randint(0, 3), rng.randint(0, 3)] for _ in range(nsp)]
  elif mode == 'int':
    padding = rng.randint(0, 2)
  else:
    padding = mode
  tk = rng.random() < 0.5
  kshape = ks + ([feats, cin] if tk else [cin, feats])
  _check_exact(prod(ks) * cin)
  c = {'kind': 'conv_transpose', 'features': feats, 'kernel_size': ks, 'kernel_int': nsp == 1 and rng.random() < 0.5,
       'strides': _bform(rng, strides, True), 'padding': padding, 'kernel_dilation': _bform(rng, rd, True), 'transpose_kernel': tk,
       'x': rand_T(rng, bshape + insp + [cin], -XR, XR), 'k': rand_T(rng, kshape, -KR, KR),
       'bias': rand_T(rng, [feats], -BR, BR) if rng.random() < 0.7 else None,
       'mask': rand_T(rng, kshape, 0, 1) if rng.random() < 0.2 else None}
  c['_nt'] = prod(ks) * cin >= 2 and prod(insp) >= 2
  return c


def gen_embed(rng):
  n, f = rng.choice([1, 2, 3, 4, 5]), rng.randint(1, 3)
  table = rand_T(rng, [n, f], -XR, XR)
  if rng.random() < 0.6:
    ishape = _shape(rng, rng.choice([0, 1, 1, 2]), 1, 3)
    idx = [rng.randint(-n - 1, n) if rng.random() < 0.3 else rng.randint(0, n - 1) for _ in range(prod(ishape))]
    c = {'kind': 'embed', 'op': 'lookup', 'table': table, 'idx': T(ishape, idx)}
    c['_nt'] = n >= 2 and len(idx) >= 1
  else:
    qshape = _shape(rng, rng.choice([0, 1, 2]), 1, 3) + [f]
    _check_exact(f, 0)
    c = {'kind': 'embed', 'op': 'attend', 'table': table, 'query': rand_T(rng, qshape, -XR, XR)}
    c['_nt'] = f >= 2 and n * prod(qshape[:-1]) >= 2
  return c


def gen_pool(rng):
  nw = rng.choice([1, 1, 2])
  nbd = rng.choice([0, 1, 1, 1, 2])
  bshape = [[], [rng.randint(1, 2)], [2, rng.randint(1, 2)]][nbd]
  sp = [rng.randint(1, 6 if nw == 1 else 4) for _ in range(nw)]
  window = [rng.randint(1, 3) for _ in range(nw)]
  strides = [rng.choice([1, 1, 2, 3]) for _ in range(nw)]
  mode = rng.choice(['SAME', 'SAME', 'VALID', 'pairs', 'pairs'])
  padding = [[rng.randint(0, 3), rng.randint(0, 3)] for _ in range(nw)] if mode == 'pairs' else mode
  op = rng.choice(['avg', 'avg', 'avg', 'max', 'min'])
  c = {'kind': 'pool', 'op': op, 'x': rand_T(rng, bshape + sp + [rng.randint(1, 2)], -XR, XR), 'window': window,
       'strides': None if (all(s == 1 for s in strides) and rng.random() < 0.5) else strides, 'padding': padding,
       'count_include_pad': rng.random() < 0.5}
  c['_nt'] = prod(window) >= 2 and prod(sp) >= 2
  return c


EPS = [1e-6, 1e-5, 1e-3, 0.125, 1.0]


def _mask_for(rng, shp, keep_last=False):
  ms = [d if (rng.random() < 0.6 or (keep_last and i == len(shp) - 1)) else 1 for i, d in enumerate(shp)]
  return T(ms, [1 if rng.random() < 0.7 else 0 for _ in range(prod(ms))])


def _axes_sample(rng, rank, k, exclude=()):
  cand = [a for a in range(rank) if a not in exclude]
  ax = rng.sample(cand, min(k, len(cand)))
  return [a - rank if rng.random() < 0.5 else a for a in ax]


def gen_norm(rng):
  kind = rng.choice(['layer', 'layer', 'rms', 'group', 'group', 'group', 'instance'])
  rank = rng.choice([1, 2, 2, 3, 3, 4])
  if kind == 'instance':
    rank = max(rank, 2)
  shp = _shape(rng, rank, 1, 4)
  c = {'kind': 'norm', 'norm': kind, 'eps': rng.choice(EPS), 'fast': rng.random() < 0.5}
  if kind in ('layer', 'rms'):
    red = _axes_sample(rng, rank, rng.randint(1, min(3, rank)))
    feat = _axes_sample(rng, rank, rng.randint(1, min(2, rank)))
    if rng.random() < 0.5:
      red, feat = [-1], [-1]
    if rng.random() < 0.15 and len(red) < 3:
      red = red + [red[0] % rank if red[0] < 0 else red[0] - rank]  # the same axis written twice (set semantics)
    c.update(reduction_axes=red, feature_axes=feat, axes_int=rng.random() < 0.5)
    fshape = [shp[a] for a in _canon_py(feat, rank)]
  elif kind == 'instance':
    feat = _axes_sample(rng, rank, rng.randint(1, min(2, rank - 1)), exclude=(0,))
    c.update(feature_axes=feat, axes_int=rng.random() < 0.5)
    fshape = [shp[a] for a in _canon_py(feat, rank)]
  else:
    g = rng.choice([1, 2, 3])
    s = rng.choice([1, 2, 2, 3])
    shp[-1] = g * s
    if rng.random() < 0.3:
      c.update(num_groups=None, group_size=s)
    else:
      c.update(num_groups=g)
    if rng.random() < 0.5 or rank == 1:
      c['reduction_axes'] = None
    else:
      lead = rng.sample(range(rank - 1), rng.randint(0, rank - 1))
      c['reduction_axes'] = [a - rank if rng.random() < 0.3 else a for a in lead] + [rng.choice([-1, rank - 1])]
    fshape = [shp[-1]]
  c['x'] = rand_T(rng, shp, -XR, XR)
  c['scale'] = rand_T(rng, fshape, -KR, KR) if rng.random() < 0.7 else None
  c['bias'] = rand_T(rng, fshape, -BR, BR) if (kind != 'rms' and rng.random() < 0.7) else None
  c['mask'] = _mask_for(rng, shp, keep_last=(kind == 'group')) if rng.random() < 0.3 else None
  c['_nt'] = prod(shp) >= 2
  return c


def _canon_py(axes, rank):
  return sorted({a % rank for a in axes})


def gen_batch_norm(rng):
  rank = rng.choice([1, 2, 2, 3, 4])
  shp = _shape(rng, rank, 1, 4)
  axis = rng.randrange(-rank, rank)
  nf = shp[axis % rank]
  mom = rng.choice([[1, 2], [3, 4], [7, 8], [9, 10], [99, 100], [0, 1], [1, 1]])
  steps = []
  for _ in range(rng.randint(1, 4)):
    steps.append({'x': rand_T(rng, shp, -XR, XR), 'use_running_average': rng.random() < 0.35,
                  'mask': _mask_for(rng, shp) if rng.random() < 0.25 else None})
  c = {'kind': 'batch_norm', 'axis': axis, 'momentum': mom, 'eps': rng.choice(EPS[1:]), 'fast': rng.random() < 0.5,
       'scale': rand_T(rng, [nf], -KR, KR) if rng.random() < 0.7 else None, 'bias': rand_T(rng, [nf], -BR, BR) if rng.random() < 0.7 else None,
       'ra_mean': [rng.randint(-4, 4) for _ in range(nf)], 'ra_var': [rng.randint(0, 5) for _ in range(nf)], 'steps': steps}
  c['_nt'] = prod(shp) >= 2
  return c


def gen_dropout(rng):
  rank = rng.choice([1, 2, 2, 3])
  shp = _shape(rng, rank, 2, 5)
  rate = rng.choice([[0, 1], [1, 4], [1, 2], [1, 2], [3, 4], [1, 1]])
  bd = [a - rank if rng.random() < 0.5 else a for a in rng.sample(range(rank), rng.choice([0, 0, 1, min(2, rank)]))]
  nz = lambda: [rng.choice([-1, 1]) * rng.randint(1, 24) for _ in range(prod(shp))]
  c = {'kind': 'dropout', 'rate': rate, 'broadcast_dims': bd, 'shape': shp, 'x': T(shp, nz()), 'x2': T(shp, nz()), 'seed': rng.randrange(10**6)}
  c['_nt'] = 0 < rate[0] < rate[1]
  return c


def gen_malformed(rng):
  """error half of the domain: configurations the layers must reject (or that lax rejects)"""
  which = rng.choice(['causal2d', 'mask_shape', 'bad_pad_len', 'batch_dims', 'groups', 'instance_batch', 'group_red', 'group_div', 'bad_pad_name'])
  if which in ('causal2d', 'mask_shape', 'bad_pad_len', 'groups', 'bad_pad_name'):
    c = gen_conv(rng)
    while c['local'] or c['mask'] is not None or len(c['kernel_size']) > 2:
      c = gen_conv(rng)
    nsp = len(c['kernel_size'])
    c['input_dilation'] = 1
    if which == 'causal2d':
      while len(c['kernel_size']) != 2:
        c = gen_conv(rng)
        c['local'], c['mask'], c['input_dilation'] = False, None, 1
        if len(c['kernel_size']) == 3:
          continue
      c['padding'] = 'CAUSAL'
    elif which == 'mask_shape':
      ms = list(c['k']['s'])
      ms[0] += 1
      c['mask'] = rand_T(rng, ms, 0, 1)
    elif which == 'bad_pad_len':
      c['padding'] = [[1, 1]] * (nsp + 1)
    elif which == 'bad_pad_name':
      c['padding'] = 'FULL'
    else:
      c['groups'] = c['x']['s'][-1] + 1
    c['_malformed'] = which
    return c
  if which == 'batch_dims':
    c = gen_dense_general(rng)
    while len(c['x']['s']) < 3:
      c = gen_dense_general(rng)
    c['batch_dims'] = [1]
    c['axis'] = [-1]
    c['axis_int'] = False
    c['_malformed'] = which
    return c
  c = gen_norm(rng)
  if which == 'instance_batch':
    while c['norm'] != 'instance':
      c = gen_norm(rng)
    c['feature_axes'] = [0]
    c['scale'] = c['bias'] = None
  else:
    while c['norm'] != 'group' or len(c['x']['s']) < 2:
      c = gen_norm(rng)
    if which == 'group_red':
      c['reduction_axes'] = [0]
    else:
      c['num_groups'], c['group_size'] = c['x']['s'][-1] + 1, None
      c.pop('group_size')
  c['_malformed'] = which
  return c


# ------------------------------------------------------------------------------------------------
# judging (parent): oracle vs implementations = the property; model vs implementation = correspondence
# ------------------------------------------------------------------------------------------------

U32 = 2.0**-23


def _strip(case):
  return {k: v for k, v in case.items() if not k.startswith('_')}


def _vals(p):
  if 'd' in p:
    return p['d']
  if 'f' in p:
    return p['f']
  return p.get('v')


def same_exact(a, b, need_dtype=None):
  """two ['ok', payload] / ['err', name] results agree (errors agree at status level)"""
  if a[0] != b[0]:
    return False
  if a[0] == 'err':
    return True
  if list(a[1]['s']) != list(b[1]['s']):
    return False
  return _vals(a[1]) == _vals(b[1])


def _short(r):
  if r is None:
    return None
  if r[0] == 'err':
    return r
  v = _vals(r[1]) if isinstance(r[1], dict) else r[1]
  return ['ok', r[1].get('s') if isinstance(r[1], dict) else None, (v[:24] if isinstance(v, list) else v)]


def _record_aconv(ctx, kind, case, ev, oracle):
  """the primitive flax wraps, called directly with the arguments flax passes, does not meet the reference on this input:
  assumption A-CONV fails here (JAX/XLA), not flax's plumbing.  Counted and listed, never a violation."""
  ctx.count('a_conv_assumption_failed', kind)
  lst = ctx.extra.setdefault('a_conv_assumption_failed', [])
  if len(lst) < 20:
    lst.append({'config': _cfg(case), 'shapes': {k: v['s'] for k, v in case.items() if isinstance(v, dict) and 's' in v},
                'case': _strip(case) if sum(len(v.get('d', [])) for v in case.values() if isinstance(v, dict)) <= 200 else None,
                'impl': {api: _short(ev[api]) for api in ('linen', 'nnx') if api in ev},
                'reference': _short(oracle) if isinstance(oracle[1], dict) and 's' in oracle[1] and ('d' in oracle[1] or 'f' in oracle[1]) else str(oracle)[:300]})


def judge_exact(ctx, case, ev, lean):
  kind = case['kind'] + ('-local' if case.get('local') else '') + (('-' + case['op']) if case['kind'] == 'embed' else '')
  oracle = ev['oracle']
  bad = False
  if ev.get('lax_ok') is False:
    _record_aconv(ctx, kind, case, ev, oracle)
    m = lean[0]
    if case['kind'] == 'embed' and case['op'] == 'lookup':
      mm = ['ok', {'s': oracle[1]['s'], 'f': m[1]}] if m[0] == 'ok' else ['err', m[1]]
    else:
      mm = [m[0], m[1]]
    if not same_exact(mm, oracle):
      ctx.disagreements_checked += 1
      ctx.violation(f'{kind}-model-mismatch', f'Lean model and direct-sum reference differ on {kind}: config={_cfg(case)}', _strip(case), concrete=False)
    return
  for api in ('linen', 'nnx'):
    if api not in ev:
      continue
    r = ev[api]
    ok = same_exact(r, oracle)
    if ok and r[0] == 'ok' and r[1].get('dt') != 'float32':
      ok = False
    if not ok:
      bad = True
      ctx.violation(f'{kind}-{api}-formula', f'{api} {kind} output differs from the direct-sum reference: impl={_short(r)} reference={_short(oracle)} config={_cfg(case)}', _strip(case))
  if bad:
    return
  impl = ev['linen']
  m = lean[0]
  if case['kind'] == 'embed' and case['op'] == 'lookup':
    mm = ['ok', {'s': impl[1]['s'] if impl[0] == 'ok' else [], 'f': m[1]}] if m[0] == 'ok' else ['err', m[1]]
  else:
    mm = [m[0], m[1]]
  if not same_exact(mm, impl):
    ctx.disagreements_checked += 1
    ctx.violation(f'{kind}-model-mismatch', f'Lean model and implementation differ on {kind}: model={_short(mm)} impl={_short(impl)} config={_cfg(case)}', _strip(case), concrete=False)


def _cfg(case):
  return {k: v for k, v in case.items() if not (isinstance(v, dict) and 'd' in v) and k not in ('steps',) and not k.startswith('_')}


def pool_expected(op, nums, dens, empties):
  out = []
  for n, d, e in zip(nums, dens, empties):
    if op == 'avg':
      out.append(None if d == 0 else Fraction(n, d))
    else:
      out.append(('-inf' if op == 'max' else 'inf') if e else Fraction(n))
  return out


def pool_matches(r, exp_shape, exp):
  if r[0] != 'ok' or list(r[1]['s']) != list(exp_shape) or r[1].get('dt') != 'float32':
    return False
  for got, want in zip(r[1]['v'], exp):
    if want is None:
      if got is not None and not math.isnan(got):
        return False
    elif want in ('inf', '-inf'):
      if got != float(want):
        return False
    else:
      w = float(want)
      if got is None or abs(got - w) > 3 * U32 * abs(w):
        return False
  return True


def judge_pool(ctx, case, ev, lean):
  kind = 'pool-' + case['op']
  o = ev['oracle']
  m = lean[0]
  expected_from = lambda nums, dens, empties: pool_expected(case['op'], nums, dens, empties)
  matches = pool_matches
  if ev.get('lax_ok') is False:
    _record_aconv(ctx, kind, case, ev, o)
    return
  if o[0] == 'err':
    for api in ('linen', 'nnx'):
      if ev[api][0] != 'err':
        ctx.violation(f'{kind}-{api}-formula', f'{kind} accepted a configuration the reference rejects: {_cfg(case)}', _strip(case))
    return
  exp = expected_from(o[1]['num'], o[1]['den'], o[1]['empty'])
  bad = False
  for api in ('linen', 'nnx'):
    if not matches(ev[api], o[1]['s'], exp):
      bad = True
      ctx.violation(f'{kind}-{api}-formula', f'{api} {kind} differs from the window reduction: impl={_short(ev[api])} reference={[str(e) for e in exp][:24]} config={_cfg(case)}', _strip(case))
  if bad:
    return
  if m[0] == 'ok':
    if case['op'] == 'avg':
      mexp = [None if p[1] == 0 else Fraction(p[0], p[1]) for p in m[1]['d']]
    else:
      mexp = [('-inf' if case['op'] == 'max' else 'inf') if v is None else Fraction(v) for v in m[1]['d']]
    ok = list(m[1]['s']) == list(o[1]['s']) and mexp == exp
  else:
    ok = False
  if not ok:
    ctx.disagreements_checked += 1
    ctx.violation(f'{kind}-model-mismatch', f'Lean model and implementation differ on {kind}: model={str(m)[:300]} config={_cfg(case)}', _strip(case), concrete=False)


def norm_reference(xvals, pieces, eps):
  """float64 value and a float32 error bound per element from the model's exact rational pieces"""
  big = max([abs(v) for v in xvals] + [1])
  ntot = len(xvals)
  out = []
  for x, (st, sc, bi) in zip(xvals, pieces):
    if st is None:
      out.append((None, 0.0))
      continue
    mean = Fraction(st[0][0], st[0][1])
    var = Fraction(st[1][0], st[1][1])
    v = float(var) + eps
    r = 1.0 / math.sqrt(v)
    dx = float(x - mean)
    t = dx * r * sc
    y = t + bi
    dm = 4 * U32 * big
    dv = 2 * (ntot + 16) * U32 * big * big
    if dv > v / 4:
      out.append((y, math.inf))
    else:
      tol = 4 * (r * abs(sc) * dm + abs(dx) * abs(sc) * r**3 / 2 * dv + 8 * U32 * (abs(t) + abs(bi) + abs(y))) + 1e-30
      out.append((y, tol))
  return out


def _close_list(got, ref, count=None):
  """got: list of float|None; ref: list of (value|None, tol). Returns index of first mismatch or -1."""
  if len(got) != len(ref):
    return 0
  for i, (g, (w, tol)) in enumerate(zip(got, ref)):
    if w is None:
      if g is not None and not math.isnan(g):
        return i
      continue
    if tol == math.inf:
      if count is not None:
        count[1] += 1
      continue
    if count is not None:
      count[0] += 1
    if g is None or abs(g - w) > tol:
      return i
  return -1


def judge_norm(ctx, case, ev, lean):
  kind = 'norm-' + case['norm']
  o = ev['oracle']
  m = lean[0]
  xs = case['x']['d']
  if o[0] == 'err':
    for api in ('linen', 'nnx'):
      if api in ev and ev[api][0] != 'err':
        ctx.violation(f'{kind}-{api}-accepts', f'{api} {kind} accepted a configuration the documented formula rejects: {_cfg(case)}', _strip(case))
        return
    if m[0] != 'err':
      ctx.disagreements_checked += 1
      ctx.violation(f'{kind}-model-mismatch', f'model accepts {_cfg(case)}, implementation rejects', _strip(case), concrete=False)
    return
  # the oracle's float64 values with the generic error bound (pieces unknown to the oracle: use its own stats)
  ref_model = norm_reference(xs, m[1], case['eps']) if m[0] == 'ok' else None
  cnt = [0, 0]
  bad = False
  for api in ('linen', 'nnx'):
    if api not in ev:
      continue
    r = ev[api]
    if r[0] != 'ok' or list(r[1]['s']) != list(case['x']['s']) or r[1].get('dt') != 'float32':
      bad = True
      ctx.violation(f'{kind}-{api}-formula', f'{api} {kind} failed or has the wrong shape/dtype: {_short(r)} config={_cfg(case)}', _strip(case))
      continue
    # tolerance from the model's pieces when available, else a flat one
    ref_o = [(v, (ref_model[i][1] if ref_model else 1e-3 * (1 + abs(v or 0)))) for i, v in enumerate(o[1]['v'])]
    i = _close_list(r[1]['v'], ref_o, cnt)
    if i >= 0:
      bad = True
      ctx.violation(f'{kind}-{api}-formula', f'{api} {kind} differs from the documented formula at flat index {i}: impl={r[1]["v"][i]} reference={ref_o[i]} config={_cfg(case)}', _strip(case))
  ctx.count('norm_elements', 'compared', cnt[0])
  ctx.count('norm_elements', 'ill_conditioned_skipped', cnt[1])
  if bad:
    return
  ok = m[0] == 'ok' and _close_list(o[1]['v'], [(v, 1e-9 * (1 + abs(v or 0))) if v is not None else (None, 0) for v, _ in ref_model]) < 0
  if not ok:
    ctx.disagreements_checked += 1
    ctx.violation(f'{kind}-model-mismatch', f'Lean model pieces do not reproduce the implementation on {kind}: model={str(m)[:200]} config={_cfg(case)}', _strip(case), concrete=False)


def judge_batch_norm(ctx, case, ev, lean):
  o = ev['oracle']
  m = lean[0]
  if o[0] != 'ok':
    raise InfraError(f'batch_norm oracle failed: {o}')
  big = max([abs(v) for s in case['steps'] for v in s['x']['d']] + [abs(v) for v in case['ra_mean'] + case['ra_var']] + [1])
  stat_tol = 64 * U32 * (big * big + 1)
  bad = False
  for api in ('linen', 'nnx'):
    r = ev[api]
    if r[0] != 'ok':
      bad = True
      ctx.violation(f'batch_norm-{api}-raises', f'{api} BatchNorm raised {r[1]} on {_cfg(case)}', _strip(case))
      continue
    prev = ([float(v) for v in case['ra_mean']], [float(v) for v in case['ra_var']])
    for t, (got, want, step) in enumerate(zip(r[1], o[1], case['steps'])):
      pieces = m[1][t]['pieces'] if m[0] == 'ok' else None
      ref = norm_reference(step['x']['d'], pieces, case['eps']) if pieces else None
      ref_o = [(v, ref[i][1] if ref else 1e-3 * (1 + abs(v or 0))) for i, v in enumerate(want['y']['v'])]
      i = _close_list(got['y']['v'], ref_o)
      if i >= 0:
        bad = True
        ctx.violation(f'batch_norm-{api}-output', f'{api} BatchNorm step {t} (use_running_average={step["use_running_average"]}) output differs at {i}: impl={got["y"]["v"][i]} reference={ref_o[i]} config={_cfg(case)}', _strip(case))
        break
      for nm in ('mean', 'var'):
        g, w = got[nm]['v'], want[nm]['v']
        if step['use_running_average']:
          if g != prev[0 if nm == 'mean' else 1]:
            bad = True
            ctx.violation(f'batch_norm-{api}-inference-writes', f'{api} BatchNorm changed running {nm} in inference mode at step {t}: {prev[0 if nm == "mean" else 1]} -> {g}', _strip(case))
            break
        elif any((a is None) != (b is None) or (a is not None and abs(a - b) > stat_tol) for a, b in zip(g, w)) or len(g) != len(w):
          bad = True
          ctx.violation(f'batch_norm-{api}-ema', f'{api} BatchNorm running {nm} after step {t} is {g}, momentum*old+(1-momentum)*batch gives {w} (momentum={case["momentum"]})', _strip(case))
          break
      if bad:
        break
      prev = (got['mean']['v'], got['var']['v'])
  if bad:
    return
  ok = m[0] == 'ok' and len(m[1]) == len(o[1])
  if ok:
    for t, (mm, want) in enumerate(zip(m[1], o[1])):
      ref = norm_reference(case['steps'][t]['x']['d'], mm['pieces'], case['eps'])
      if _close_list(want['y']['v'], [(v, 1e-9 * (1 + abs(v or 0))) if v is not None else (None, 0) for v, _ in ref]) >= 0:
        ok = False
      for nm in ('mean', 'var'):
        mv = [None if p is None else p[0] / p[1] for p in mm[nm]]
        if any((a is None) != (b is None) or (a is not None and abs(a - b) > 1e-9 * (1 + abs(b))) for a, b in zip(mv, want[nm]['v'])):
          ok = False
  if not ok:
    ctx.disagreements_checked += 1
    ctx.violation('batch_norm-model-mismatch', f'Lean BatchNorm model does not reproduce the implementation: config={_cfg(case)}', _strip(case), concrete=False)


def judge_bn_flags(ctx, case, ev, lean):
  call_f, ctor, mode = case['call'], case['ctor'], case.get('mode')
  xs = case['x']
  n, nf = xs['s']
  X = [[Fraction(xs['d'][i * nf + j]) for j in range(nf)] for i in range(n)]
  mom = Fraction(*case['momentum'])
  rm = [Fraction(v) for v in case['ra_mean']]
  rv = [Fraction(v) for v in case['ra_var']]
  bmean = [sum(X[i][j] for i in range(n)) / n for j in range(nf)]
  bvar = [sum((X[i][j] - bmean[j]) ** 2 for i in range(n)) / n for j in range(nf)]

  def expect(flag):
    mean, var = (rm, rv) if flag else (bmean, bvar)
    nm, nv = (rm, rv) if flag else ([mom * a + (1 - mom) * b for a, b in zip(rm, bmean)], [mom * a + (1 - mom) * b for a, b in zip(rv, bvar)])
    y = [float(X[i][j] - mean[j]) / math.sqrt(float(var[j]) + case['eps']) for i in range(n) for j in range(nf)]
    return y, nm, nv

  def behaves_as(r, flag):
    y, nm, nv = expect(flag)
    return (all(g is not None and abs(g - w) <= 1e-4 * (1 + abs(w)) for g, w in zip(r['y']['v'], y))
            and [Fraction(g) for g in r['mean']['v']] == nm and [Fraction(g) for g in r['var']['v']] == nv)

  def resolved(api):
    attr = ctor if mode is None else (mode == 'eval')
    if api == 'nnx':
      return call_f if call_f is not None else attr  # None = error
    if (ctor is None) == (call_f is None):
      return None
    return call_f if call_f is not None else ctor

  for k, api in enumerate(a for a in ('nnx', 'linen') if a in ev):
    r = ev[api]
    want = resolved(api)
    m = lean[k]
    desc = f'{api} BatchNorm(use_running_average={ctor}){"." + mode + "()" if mode else ""} called with use_running_average={"<omitted>" if case.get("omit_call") else call_f}'
    if want is None:
      if r[0] != 'err':
        ctx.violation(f'bn-flag-{api}-accepts-no-flag', f'{desc} must refuse (no / ambiguous flag) but returned a value', _strip(case))
        continue
      exhibited = None
    else:
      if r[0] != 'ok':
        ctx.violation(f'bn-flag-{api}-raises', f'{desc} raised {r[1]}; it must run with use_running_average={want}', _strip(case))
        continue
      if not behaves_as(r[1], want):
        other = behaves_as(r[1], not want)
        ctx.violation(f'bn-flag-{api}-wrong-mode', f'{desc} must behave as use_running_average={want} ('
                      + ('normalise with the running statistics and leave them unchanged' if want else 'normalise with the batch statistics and update running = m*old+(1-m)*batch')
                      + f') but {"behaves as " + str(not want) if other else "matches neither formula"}: mean={r[1]["mean"]["v"]} var={r[1]["var"]["v"]}', _strip(case))
        continue
      exhibited = want
    mexp = ('err', None) if exhibited is None else ('ok', exhibited)
    if (m[0] == 'err') != (mexp[0] == 'err') or (m[0] == 'ok' and m[1] != mexp[1]):
      ctx.disagreements_checked += 1
      ctx.violation(f'bn-flag-{api}-model-mismatch', f'Lean flag resolution {m} vs implementation behaviour {mexp} for {desc}', _strip(case), concrete=False)


def judge_dropout(ctx, case, ev, lean):
  num, den = case['rate']
  keep = Fraction(den - num, den)
  shape = case['shape']
  n = prod(shape)
  xs, xs2 = case['x']['d'], case['x2']['d']
  rank = len(shape)
  bd = sorted({b % rank for b in case['broadcast_dims']})
  branch, branch_det = lean[0], lean[1]

  def v(r):
    return r[1]['v'] if r[0] == 'ok' else None

  masks = {}
  for api in ('linen', 'nnx'):
    e = ev[api]
    key = f'dropout-{api}'
    for nm, r in e.items():
      if r[0] != 'ok' or list(r[1]['s']) != list(shape):
        ctx.violation(f'{key}-raises', f'{api} Dropout({num}/{den}) {nm}: {_short(r)}', _strip(case))
        return
    if v(e['det']) != [float(a) for a in xs] or v(e['det_ctor']) != [float(a) for a in xs]:
      ctx.violation(f'{key}-deterministic-not-identity', f'{api} Dropout(rate={num}/{den}, deterministic=True) is not the identity', _strip(case))
      return
    if num == 0:
      if v(e['x']) != [float(a) for a in xs] or v(e['ones']) != [1.0] * n:
        ctx.violation(f'{key}-rate0-not-identity', f'{api} Dropout(rate=0) is not the identity', _strip(case))
      continue
    if num == den:
      if any(a != 0 for a in v(e['x'])) or any(a != 0 for a in v(e['ones'])):
        ctx.violation(f'{key}-rate1-not-zero', f'{api} Dropout(rate=1) output is not zero', _strip(case))
      continue
    inv = float(1 / keep)
    ones = v(e['ones'])
    if any(a != 0.0 and abs(a - inv) > 2 * U32 * inv for a in ones):
      ctx.violation(f'{key}-scale', f'{api} Dropout(rate={num}/{den}) maps 1 to {sorted(set(ones))}, expected 0 or 1/(1-rate)={inv}', _strip(case))
      return
    mask = [a != 0.0 for a in ones]
    masks[api] = mask
    for nm, data in (('x', xs), ('x2', xs2)):
      got = v(e[nm])
      for i in range(n):
        want = float(Fraction(data[i]) / keep) if mask[i] else 0.0
        if abs(got[i] - want) > 2 * U32 * abs(want):
          ctx.violation(f'{key}-select-scale', f'{api} Dropout(rate={num}/{den}): element {i} of input {data[i]} became {got[i]}, mask (seen on all-ones input, same key) says {want}: mask depends on data or scaling is not 1/(1-rate)', _strip(case))
          return
    for nm in ('call_false_over_ctor_true', 'call_false_after_eval'):
      if nm in e and v(e[nm]) != v(e['x']):
        ctx.violation(f'{key}-call-flag-ignored', f'{api} Dropout constructed / switched to deterministic=True and called with deterministic=False must apply dropout (the call-time flag wins): {nm} differs from the non-deterministic output', _strip(case))
        return
    if v(e['ones_again']) != ones:
      ctx.violation(f'{key}-not-key-determined', f'{api} Dropout gives different masks for the same key', _strip(case))
      return
    # broadcast dims share the mask
    strides = [prod(shape[i + 1 :]) for i in range(rank)]
    for i in range(n):
      idx = [(i // strides[a]) % shape[a] for a in range(rank)]
      j = sum((0 if a in bd else idx[a]) * strides[a] for a in range(rank))
      if mask[i] != mask[j]:
        ctx.violation(f'{key}-broadcast-dims', f'{api} Dropout(broadcast_dims={case["broadcast_dims"]}) mask differs along a broadcast dimension', _strip(case))
        return
    ctx.count('dropout_key_sensitivity', 'mask_changes_with_key' if v(e['ones_key2']) != ones else 'same_mask_other_key')
  if 0 < num < den and 'linen' in masks:
    cross = ev['cross']
    want = v(ev['nnx']['x'])
    if cross[0] != 'ok' or v(cross) != want:
      ctx.violation('dropout-linen-nnx-same-key', f'Linen Dropout(rng=k) and NNX Dropout drawing k give different outputs: {_short(cross)} vs {want[:12]}', _strip(case))
      return
  # model: branch structure and mask shape
  exp_branch = 'identity' if num == 0 else ('zeros' if num == den else {'keep': [den - num, den], 'mask_shape': [1 if a in bd else shape[a] for a in range(rank)]})
  if branch != ('ok', exp_branch) or branch_det != ('ok', 'identity'):
    ctx.disagreements_checked += 1
    ctx.violation('dropout-model-mismatch', f'Lean dropoutBranch={branch}/{branch_det}, observed behaviour corresponds to {exp_branch}', _strip(case), concrete=False)


JUDGES = {'dense': judge_exact, 'dense_general': judge_exact, 'einsum': judge_exact, 'conv': judge_exact, 'conv_transpose': judge_exact,
          'embed': judge_exact, 'pool': judge_pool, 'norm': judge_norm, 'batch_norm': judge_batch_norm, 'bn_flags': judge_bn_flags, 'dropout': judge_dropout}


# ------------------------------------------------------------------------------------------------
# running
# ------------------------------------------------------------------------------------------------


def run_workers(cases, nworkers):
  """Evaluates the cases on the real flax in `nworkers` subprocesses (round-robin), preserving order."""
  if not cases:
    return []
  nworkers = max(1, min(nworkers, len(cases)))
  chunks = [cases[i::nworkers] for i in range(nworkers)]
  env = dict(os.environ)
  env['PYTHONPATH'] = VERIF + os.pathsep + env.get('PYTHONPATH', '')

  def one(chunk):
    """A worker that dies (XLA aborts the process on some inputs: a JAX/XLA failure, not an observation of flax) is restarted
    after the case it died on; that case is returned as {'process_abort': rc}."""
    out = []
    rest = chunk
    aborts = 0
    while rest:
      p = subprocess.run([sys.executable, '-c', 'from harness.props import c12; c12.worker_main()'], input=json.dumps(rest),
                         capture_output=True, text=True, cwd=VERIF, env=env)
      lines = [ln for ln in p.stdout.splitlines() if ln.startswith('{')]
      got = []
      for ln in lines:
        try:
          got.append(json.loads(ln))
        except ValueError:
          break
      out += got
      if len(got) == len(rest):
        break
      if p.returncode >= 0 or aborts >= 3:
        raise InfraError(f'C12 worker failed (rc={p.returncode}, {len(got)}/{len(rest)} results): {p.stderr[-600:]}')
      aborts += 1
      tail = [ln for ln in p.stderr.splitlines() if ln.strip() and not ln.lstrip().startswith('@')][-3:]
      out.append({'process_abort': p.returncode, 'stderr': ' | '.join(tail)[-300:]})
      rest = rest[len(got) + 1 :]
    return out

  with ThreadPoolExecutor(nworkers) as ex:
    parts = list(ex.map(one, chunks))
  out = [None] * len(cases)
  for w, part in enumerate(parts):
    for j, r in enumerate(part):
      out[w + j * nworkers] = r
  return out


def judge_all(ctx, drv, cases, evs):
  reqs, spans = [], []
  aborted = [(c, e) for c, e in zip(cases, evs) if 'process_abort' in e]
  for c, e in aborted:
    ctx.count('xla_process_abort', c['kind'])
    ctx.extra.setdefault('xla_process_abort', []).append({'config': _cfg(c), 'x_shape': c.get('x', {}).get('s'), 'k_shape': c.get('k', {}).get('s'),
                                                          'rc': e['process_abort'], 'stderr': e.get('stderr', '')})
  keep = [(c, e) for c, e in zip(cases, evs) if 'process_abort' not in e]
  cases, evs = [c for c, _ in keep], [e for _, e in keep]
  for case, ev in zip(cases, evs):
    if 'harness_error' in ev:
      raise InfraError(f'C12 evaluator crashed on {case["kind"]}: {ev["harness_error"]}\n{ev.get("tb", "")}')
    spans.append((len(reqs), len(ev['lean'])))
    reqs += [(fn, args) for fn, args in ev['lean']]
  outs = drv.run(reqs)
  for case, ev, (a, n) in zip(cases, evs, spans):
    lean = outs[a : a + n]
    lean = [(s, v) for s, v in lean]
    fam = case['kind'] + (':' + case['norm'] if case['kind'] == 'norm' else '') + (':local' if case.get('local') else '') + \
      (':' + case['op'] if case['kind'] in ('embed', 'pool') else '')
    ctx.count('family', fam)
    if case.get('_malformed'):
      ctx.count('malformed', case['_malformed'])
    ctx.count('stream', 'systematic' if case.get('_sys') else ('malformed' if case.get('_malformed') else 'random'))
    if case['kind'] == 'dense_general':
      nbd = len(case['batch_dims'])
      free = len(case['x']['s']) - nbd - len(case['axis'])
      ctx.count('dense_general_shape', f"batch={nbd} free={min(free, 2)} bias={'y' if case.get('bias') else 'n'}")
    if case['kind'] in ('conv', 'conv_transpose'):
      ctx.count('padding', case['padding'] if isinstance(case['padding'], str) else ('int' if isinstance(case['padding'], int) else 'explicit'))
      ctx.count('batch_dims', len(case['x']['s']) - len(case['kernel_size']) - 1)
    first = ev.get('linen')
    if isinstance(first, list):
      ctx.count('impl_status', first[0] if first[0] == 'ok' else 'err:' + str(first[1]))
    ctx.case(_strip(case), nontrivial=bool(case.get('_nt', True)) and not case.get('_malformed'))
    JUDGES[case['kind']](ctx, case, ev, [(s, v) for s, v in lean] if case['kind'] == 'dropout' else [[s, v] for s, v in lean])


def small_scope(ctx, drv):
  """Exhaustive small-scope correspondence of flax's pure index helpers with the model."""
  J = jx()
  np, jnp = J['np'], J['jnp']
  from flax.linen import linear as ll, normalization as ln
  from flax.nnx.nn import linear as nl, normalization as nnorm
  from jax._src.lax import convolution as jconv
  from jax import lax

  reqs, wants, what = [], [], []

  def add(fn, args, want, desc):
    reqs.append((fn, args))
    wants.append(want)
    what.append(desc)

  for ndim in range(1, 5):
    axs = list(range(-ndim, ndim))
    for k in (1, 2):
      for axes in itertools.permutations(axs, k):
        for mod, nm in ((ll, 'linen'), (nl, 'nnx')):
          add('normalize_axes', {'ndim': ndim, 'axes': list(axes)}, ('ok', list(mod._normalize_axes(tuple(axes), ndim))), f'{nm}._normalize_axes({axes},{ndim})')
      for axes in itertools.product(axs, repeat=k):
        for mod, nm in ((ln, 'linen'), (nnorm, 'nnx')):
          add('canon_axes', {'rank': ndim, 'axes': list(axes)}, ('ok', list(mod._canonicalize_axes(ndim, tuple(axes)))), f'{nm}._canonicalize_axes({ndim},{axes})')
  for rank in (1, 2, 3):
    forms = ['SAME', 'VALID', 'CIRCULAR', 'REFLECT', 'CAUSAL', 0, 2, [1] * rank, [(0, 2)] * rank, [1] + [(2, 0)] * (rank - 1), [(1, 1)] * (rank + 1), [1] * (rank - 1)]
    for f in forms:
      for mod, nm in ((ll, 'linen'), (nl, 'nnx')):
        r = call(lambda: mod.canonicalize_padding(f, rank))
        want = ('ok', r[1] if isinstance(r[1], str) else [list(p) for p in r[1]]) if r[0] == 'ok' else ('err', None)
        jf = [list(p) if isinstance(p, tuple) else p for p in f] if isinstance(f, list) else f
        add('canon_padding', {'padding': jf, 'rank': rank}, want, f'{nm}.canonicalize_padding({f},{rank})')
  for n in range(1, 9):
    for w in range(1, 6):
      for s in range(1, 4):
        add('same_pads', {'n': n, 'w': w, 's': s}, ('ok', [int(v) for v in lax.padtype_to_pads((n,), (w,), (s,), 'SAME')[0]]), f'padtype_to_pads SAME n={n} w={w} s={s}')
  for kd in range(1, 8):
    for s in range(1, 5):
      for same in (True, False):
        add('transpose_pads', {'kd': kd, 's': s, 'same': same}, ('ok', [int(v) for v in jconv._conv_transpose_padding(kd, s, 'SAME' if same else 'VALID')]), f'_conv_transpose_padding({kd},{s},{same})')
  for n, lo, hi in ((1, 2, 3), (2, 3, 3), (3, 5, 4), (4, 2, 7), (5, 1, 0)):
    for mode, jm in (('wrap', 'wrap'), ('reflect', 'reflect'), ('zeros', 'constant')):
      got = np.asarray(jnp.pad(jnp.arange(n) + 1, (lo, hi), mode=jm))
      add('pad_src', {'mode': mode, 'n': n, 'lo': lo, 'hi': hi}, ('ok', [None if v == 0 else int(v) - 1 for v in got]), f'jnp.pad(range({n}),({lo},{hi}),{jm})')
  outs = drv.run(reqs)
  for (fn, args), got, want, desc in zip(reqs, outs, wants, what):
    ctx.case({'kind': 'index-fn', 'fn': fn, 'args': args, 'who': desc.split('.')[0]}, nontrivial=True)
    ctx.count('family', 'index-fn:' + fn)
    ok = (got[0] == 'err') if want[0] == 'err' else (got == want)
    if not ok:
      ctx.disagreements_checked += 1
      ctx.violation(f'index-fn-{fn}-model-mismatch', f'{desc} = {want}, Lean model {fn}{args} = {got}', {'kind': 'index-fn', 'fn': fn, 'args': args, 'want': list(want)}, concrete=False)


def systematic(rng):
  """A fixed sweep run on every seed: the pad-split / dilation / stride arithmetic of every padding mode on even and
  odd dilated kernel sizes, circular ConvTranspose alignment, explicit pooling pads with 0-2 batch dims (data random)."""
  cases = []
  for mode in ('CIRCULAR', 'REFLECT', 'CAUSAL'):
    for k in (1, 2, 3, 4):
      for d in (1, 2):
        for s in (1, 2):
          n = 5 if (k + d + s) % 2 else 6
          c = {'kind': 'conv', 'local': False, 'features': 1, 'kernel_size': [k], 'kernel_int': False, 'strides': [s], 'padding': mode,
               'input_dilation': 1, 'kernel_dilation': [d], 'groups': 1, 'x': rand_T(rng, [1, n, 1], -XR, XR),
               'k': rand_T(rng, [k, 1, 1], 1, KR), 'bias': None, 'mask': None, '_nt': k >= 2, '_sys': True}
          cases.append(c)
  for k in (1, 2, 3, 4):
    for s in (1, 2, 3):
      for tk in (False, True):
        cases.append({'kind': 'conv_transpose', 'features': 1, 'kernel_size': [k], 'kernel_int': False, 'strides': [s], 'padding': 'CIRCULAR',
                      'kernel_dilation': [1 + (k + s) % 2], 'transpose_kernel': tk, 'x': rand_T(rng, [1, 3, 1], -XR, XR),
                      'k': rand_T(rng, [k, 1, 1], 1, KR), 'bias': None, 'mask': None, '_nt': k >= 2, '_sys': True})
  for nbd, bshape in ((0, []), (1, [2]), (2, [2, 2])):
    for op in ('avg', 'max', 'min'):
      cases.append({'kind': 'pool', 'op': op, 'x': rand_T(rng, bshape + [4, 1], -XR, XR), 'window': [2], 'strides': [1 + nbd % 2],
                    'padding': [[1, 1]], 'count_include_pad': False, '_nt': True, '_sys': True})
  # use_running_average resolution: (ctor flag) x (call flag) x (.eval() / .train() / neither); dyadic statistics => exact updates
  for ctor in (None, True, False):
    for call_f in (None, True, False):
      for mode in (None, 'eval', 'train'):
        nf = 2
        while True:
          half = [[rng.randint(-3, 3) for _ in range(nf)] for _ in range(2)]
          rows = half + [[v + 2 * rng.choice([-1, 1]) for v in r] for r in half]  # 4 rows: means are dyadic
          ra_mean = [rng.randint(-4, 4) for _ in range(nf)]
          bm = [sum(r[j] for r in rows) / 4 for j in range(nf)]
          if all(abs(bm[j] - ra_mean[j]) >= 1 for j in range(nf)):
            break
        cases.append({'kind': 'bn_flags', 'ctor': ctor, 'call': call_f, 'mode': mode, 'omit_call': call_f is None and rng.random() < 0.5,
                      'x': T([4, nf], [v for r in rows for v in r]), 'ra_mean': ra_mean, 'ra_var': [rng.randint(1, 4) for _ in range(nf)],
                      'momentum': rng.choice([[1, 2], [3, 4], [7, 8]]), 'eps': 0.125, 'fast': rng.random() < 0.5, '_nt': True, '_sys': True})
  # DenseGeneral / LinearGeneral with per-batch kernel AND bias: 1-2 batch axes, a free axis of size == B, != B and 1,
  # single / multi-axis contraction (unsorted, negative), single / multi-dim features, bias rows distinct per batch entry
  for bshape in ([2], [3], [2, 3]):
    nb = len(bshape)
    for t in (bshape[0], bshape[0] + 1, 1):
      for contr, axis, feats in (([3], [-1], [2]), ([2, 3], [-1, nb + 1], [2, 2]), ([3], [nb + 1], [1, 2])):
        shp = bshape + [t] + contr
        kshape = bshape + contr + feats
        bsh = bshape + feats
        nrow = prod(feats)
        while True:
          bias = rand_T(rng, bsh, -BR, BR)
          rows = [tuple(bias['d'][i * nrow : (i + 1) * nrow]) for i in range(prod(bshape))]
          if len(set(rows)) == len(rows):
            break
        cases.append({'kind': 'dense_general', 'x': rand_T(rng, shp, -XR, XR), 'k': rand_T(rng, kshape, -KR, KR), 'bias': bias,
                      'axis': axis, 'batch_dims': list(range(nb)), 'features': feats, 'axis_int': False, 'features_int': False,
                      '_nt': True, '_sys': True})
  for n in (1, 3):
    idx = list(range(-n - 1, n + 1))
    cases.append({'kind': 'embed', 'op': 'lookup', 'table': rand_T(rng, [n, 2], -XR, XR), 'idx': T([len(idx)], idx), '_nt': True, '_sys': True})
    cases.append({'kind': 'embed', 'op': 'lookup', 'table': rand_T(rng, [n, 2], -XR, XR), 'idx': T([], [n - 1]), '_nt': True, '_sys': True})
  for rank, red in ((3, [-1]), (3, [1, 2]), (4, [2, -1]), (1, None), (2, None)):
    shp = [2, 3, 2, 4][4 - rank :]
    cases.append({'kind': 'norm', 'norm': 'group', 'eps': 0.125, 'fast': rank % 2 == 0, 'num_groups': 2, 'reduction_axes': red,
                  'x': rand_T(rng, shp, -XR, XR), 'scale': rand_T(rng, [4], 1, KR), 'bias': rand_T(rng, [4], -BR, BR), 'mask': None,
                  '_nt': True, '_sys': True})
  return cases


GENS = [
  (gen_dense, 4), (gen_dense_general, 9), (gen_einsum, 7), (gen_conv, 30), (gen_conv_transpose, 12), (gen_embed, 5),
  (gen_pool, 9), (gen_norm, 14), (gen_batch_norm, 6), (gen_dropout, 4), (gen_malformed, 3),
]


def generate(rng, n):
  total = sum(w for _, w in GENS)
  cases = []
  for g, w in GENS:
    for _ in range(max(1, n * w // total)):
      cases.append(g(rng))
  return cases


def run(ctx):
  drv = LeanDriver('drv_c12')
  thorough = ctx.tier == 'thorough'
  nworkers = int(os.environ.get('VERIF_C12_WORKERS', '0')) or max(2, min(8, (os.cpu_count() or 4) // 2))
  corpus = load_corpus('C12')
  ccases = [_unwrap(obj) for _, obj in corpus]
  ctx.corpus_replayed = len(ccases)
  n = 16000 if thorough else int(os.environ.get('VERIF_C12_CASES', '540'))
  cases = systematic(ctx.rng) + generate(ctx.rng, n)
  if thorough:
    cases += [gen_conv(ctx.rng, allow3d=True) for _ in range(800)]
  allc = ccases + cases
  evs = run_workers(allc, nworkers)
  judge_all(ctx, drv, allc, evs)
  small_scope(ctx, drv)
  for c in (cases[0], next(c for c in cases if c['kind'] == 'conv'), next(c for c in cases if c['kind'] == 'norm'), next(c for c in cases if c['kind'] == 'dropout')):
    ctx.sample(_cfg(c) | {'x_shape': c.get('x', {}).get('s')})
  err = sum(v for k, v in ctx.dist.get('impl_status', {}).items() if k != 'ok')
  if err > 0.2 * len(allc):
    raise InfraError(f'generator degenerated: {err}/{len(allc)} cases are rejected by the implementation')
  ctx.extra['exhaustive'] = False
  ctx.extra['workers'] = nworkers
  ctx.extra['driver_calls'] = drv.calls
  ctx.extra['float_comparisons'] = 'normalisation outputs / running statistics / avg_pool / dropout scaling are float comparisons within computed bounds; every other family is exact'


def _unwrap(obj):
  case = obj.get('case', obj)
  while isinstance(case.get('case'), dict):
    case = case['case']
  return case


def replay(ctx, obj):
  drv = LeanDriver('drv_c12')
  case = obj.get('case', obj)
  while isinstance(case.get('case'), dict):
    case = case['case']
  if case.get('kind') == 'index-fn':
    small_scope(ctx, drv)
  else:
    judge_all(ctx, drv, [case], [evaluate(case)])
  for v in ctx.violations:
    print('  ', v['key'], '-', v['what'][:300])
  return bool(ctx.violations)
