"""Shared machinery of every check: Lean build + audit, driver I/O, evidence, findings, verdicts.

Exit codes of a check: 0 property held on everything explored (KNOWN-FINDING lines allowed),
1 violation (a `VIOLATION property=<id> replay=<path>` line is printed), 2 infrastructure failure
(build broke, driver crashed, generator degenerated, timeout) — never reported as a violation.
"""
from __future__ import annotations

import fcntl
import hashlib
import json
import os
import random
import re
import subprocess
import sys
import time
import traceback

VERIF = os.path.dirname(os.path.dirname(os.path.abspath(__file__)))
LEAN_DIR = os.path.join(VERIF, 'lean')
REPO = os.environ.get('VERIF_REPO', '/repo')
ALLOWED_AXIOMS = {'propext', 'Classical.choice', 'Quot.sound'}
FORBIDDEN = re.compile(
  r'\b(sorry|admit|native_decide|bv_decide|implemented_by|unsafe)\b|^\s*axiom\s|maxHeartbeats\s+0'
)


class InfraError(Exception):
  pass


# ----------------------------------------------------------------------------------------------
# Lean: build, audit, driver
# ----------------------------------------------------------------------------------------------


class _Lock:
  def __init__(self, path):
    self.path = path

  def __enter__(self):
    os.makedirs(os.path.dirname(self.path), exist_ok=True)
    self.f = open(self.path, 'w')
    fcntl.flock(self.f, fcntl.LOCK_EX)

  def __exit__(self, *a):
    fcntl.flock(self.f, fcntl.LOCK_UN)
    self.f.close()


def _env():
  env = dict(os.environ)
  env.pop('LEAN_PATH', None)
  return env


def lean_build(targets):
  """`lake build <targets>`; serialised across concurrently running checks."""
  t0 = time.time()
  with _Lock(os.path.join(LEAN_DIR, '.lake', 'verif.lock')):
    p = subprocess.run(
      ['lake', 'build'] + list(targets),
      cwd=LEAN_DIR,
      env=_env(),
      capture_output=True,
      text=True,
    )
  if p.returncode != 0:
    tail = '\n'.join((p.stdout + p.stderr).splitlines()[-40:])
    raise InfraError(f'lake build {targets} failed:\n{tail}')
  return time.time() - t0


def _strip_comments(src: str) -> str:
  """Removes Lean block comments (nested) and line comments."""
  out = []
  i, depth, n = 0, 0, len(src)
  while i < n:
    if src.startswith('/-', i):
      depth += 1
      i += 2
    elif depth and src.startswith('-/', i):
      depth -= 1
      i += 2
    elif depth:
      if src[i] == '\n':
        out.append('\n')
      i += 1
    elif src.startswith('--', i):
      while i < n and src[i] != '\n':
        i += 1
    else:
      out.append(src[i])
      i += 1
  return ''.join(out)


def _lean_closure(module: str, seen=None):
  """Flax.* modules transitively imported by `module` (source-level)."""
  seen = seen if seen is not None else set()
  if module in seen or not module.startswith('Flax.'):
    return seen
  seen.add(module)
  path = os.path.join(LEAN_DIR, *module.split('.')) + '.lean'
  if os.path.exists(path):
    for m in re.findall(r'^import\s+(\S+)', open(path).read(), flags=re.M):
      _lean_closure(m, seen)
  return seen


def audit(prop: str, thorough: bool = False):
  """Obligations of `Flax/Props/<prop>.lean`: every public `theorem` there, each checked with
  `#print axioms`; forbidden constructs are grepped in the whole import closure."""
  module = f'Flax.Props.{prop}'
  path = os.path.join(LEAN_DIR, 'Flax', 'Props', f'{prop}.lean')
  src = _strip_comments(open(path).read())
  names = re.findall(r'^\s*theorem\s+([A-Za-z_][A-Za-z0-9_\.\']*)', src, flags=re.M)
  names = [n for n in names if not re.search(r'^\s*private\s+theorem\s+' + re.escape(n), src, flags=re.M)]
  ns = re.search(r'^namespace\s+(\S+)', src, flags=re.M)
  prefix = (ns.group(1) + '.') if ns else ''
  problems = []
  closure = sorted(_lean_closure(module))
  for m in closure:
    mp = os.path.join(LEAN_DIR, *m.split('.')) + '.lean'
    for ln, line in enumerate(_strip_comments(open(mp).read()).splitlines(), 1):
      if FORBIDDEN.search(line):
        problems.append(f'forbidden construct in {m}:{ln}: {line.strip()[:80]}')
  audit_dir = os.path.join(LEAN_DIR, '.lake', 'audit')
  os.makedirs(audit_dir, exist_ok=True)
  audit_file = os.path.join(audit_dir, f'{prop}_{os.getpid()}.lean')
  with open(audit_file, 'w') as f:
    f.write(f'import {module}\n')
    for n in names:
      f.write(f'#print axioms {prefix}{n}\n')
  try:
    p = subprocess.run(
      ['lake', 'env', 'lean', audit_file], cwd=LEAN_DIR, env=_env(), capture_output=True, text=True
    )
  finally:
    try:
      os.remove(audit_file)
    except OSError:
      pass
  out = p.stdout + p.stderr
  if p.returncode != 0:
    raise InfraError(f'axiom audit of {module} failed:\n' + '\n'.join(out.splitlines()[-30:]))
  axioms = {}
  for m in re.finditer(
    r"'([^']+)' (?:depends on axioms: \[([^\]]*)\]|does not depend on any axioms)", out
  ):
    axioms[m.group(1)] = [a.strip() for a in (m.group(2) or '').replace('\n', ' ').split(',') if a.strip()]
  discharged = 0
  used = set()
  for n in names:
    full = prefix + n
    if full not in axioms:
      problems.append(f'no axiom report for {full}')
      continue
    extra = set(axioms[full]) - ALLOWED_AXIOMS
    used |= set(axioms[full])
    if extra:
      problems.append(f'{full} depends on non-standard axioms {sorted(extra)}')
    else:
      discharged += 1
  res = {
    'module': module,
    'theorems': [prefix + n for n in names],
    'obligations': len(names),
    'discharged': discharged,
    'axioms_used': sorted(used),
    'closure': closure,
    'problems': problems,
    'checker_cmd': f'cd lean && lake build {module} && lake env lean <#print axioms of every theorem in Flax/Props/{prop}.lean>',
  }
  if thorough:
    t0 = time.time()
    p = subprocess.run(
      ['lake', 'env', 'leanchecker', module], cwd=LEAN_DIR, env=_env(), capture_output=True, text=True
    )
    res['leanchecker'] = {'rc': p.returncode, 'wall_s': round(time.time() - t0, 1)}
    res['checker_cmd'] += f' && lake env leanchecker {module}'
    if p.returncode != 0:
      problems.append('leanchecker rejected ' + module + ': ' + (p.stdout + p.stderr)[-400:])
  return res


class LeanDriver:
  """Batch interface to a compiled per-property driver (`lean/.lake/build/bin/<exe>`)."""

  def __init__(self, exe: str):
    self.exe = os.path.join(LEAN_DIR, '.lake', 'build', 'bin', exe)
    self.calls = 0

  def run(self, reqs):
    """reqs: list of (fn, args). Returns list of ('ok', value) / ('err', enum)."""
    if not reqs:
      return []
    lines = [json.dumps({'id': i, 'fn': fn, 'args': args}, separators=(',', ':')) for i, (fn, args) in enumerate(reqs)]
    p = subprocess.run([self.exe], input='\n'.join(lines) + '\n', capture_output=True, text=True)
    if p.returncode != 0:
      raise InfraError(f'driver {self.exe} exited {p.returncode}: {p.stderr[-400:]}')
    outs = p.stdout.splitlines()
    if len(outs) != len(reqs):
      raise InfraError(f'driver returned {len(outs)} lines for {len(reqs)} requests')
    res = []
    for i, o in enumerate(outs):
      j = json.loads(o)
      if j.get('id') != i:
        raise InfraError(f'driver reply out of order at {i}: {o[:100]}')
      if 'ok' in j:
        res.append(('ok', j['ok']))
      else:
        res.append(('err', j.get('err')))
    self.calls += len(reqs)
    return res


# ----------------------------------------------------------------------------------------------
# known findings
# ----------------------------------------------------------------------------------------------


def load_findings(prop):
  path = os.path.join(VERIF, 'known_findings.json')
  if not os.path.exists(path):
    return []
  return [e for e in json.load(open(path)) if e.get('property') == prop]


# ----------------------------------------------------------------------------------------------
# check context
# ----------------------------------------------------------------------------------------------


class Ctx:
  def __init__(self, prop, tier, seed):
    self.prop = prop
    self.tier = tier
    self.seed = seed
    self.rng = random.Random(seed)
    self.t0 = time.time()
    self.evaluations = 0
    self.distinct = set()
    self.samples = []
    self.dist = {}
    self.violations = []  # dicts: {key, what, case, concrete: bool}
    self.disagreements_checked = 0
    self.corpus_replayed = 0
    self.notes = []
    self.extra = {}
    self.rule = ''

  # --- measurement -------------------------------------------------------------------------
  def count(self, bucket, key=1, n=1):
    d = self.dist.setdefault(bucket, {})
    k = str(key)
    d[k] = d.get(k, 0) + n

  def case(self, canon, nontrivial=True, n=1):
    """Registers one explored case; `canon` is any JSON-able canonical form of it."""
    self.evaluations += n
    if nontrivial:
      h = hashlib.blake2b(json.dumps(canon, sort_keys=True, default=str).encode(), digest_size=8).digest()
      self.distinct.add(h)

  def sample(self, obj, cap=6):
    if len(self.samples) < cap:
      self.samples.append(obj)

  # --- verdicts ------------------------------------------------------------------------------
  def violation(self, key, what, case, concrete=True):
    """A property failure. `key` classifies the failing input narrowly (matched against
    known_findings.json); `concrete=False` means model and code disagree (or a proof obligation
    broke) but no input on which the property itself fails was found."""
    self.violations.append({'key': key, 'what': what, 'case': case, 'concrete': concrete})

  def elapsed(self):
    return time.time() - self.t0


def _write_json(path, obj):
  os.makedirs(os.path.dirname(path), exist_ok=True)
  tmp = path + f'.tmp{os.getpid()}'
  with open(tmp, 'w') as f:
    json.dump(obj, f, indent=1, sort_keys=True, default=str)
    f.write('\n')
  os.replace(tmp, path)


def finish(ctx: Ctx, aud, spec):
  """Writes evidence, prints verdict lines, returns the exit code."""
  findings = load_findings(ctx.prop)
  known_keys = {e['key']: e for e in findings if e.get('status') == 'finding'}
  printed_known = set()
  new = []
  for v in ctx.violations:
    if v['concrete'] and v['key'] in known_keys:
      if v['key'] not in printed_known:
        printed_known.add(v['key'])
        print(f"KNOWN-FINDING: property={ctx.prop} {known_keys[v['key']]['what']}")
    else:
      new.append(v)
  for p in aud['problems']:
    new.append({'key': 'proof-audit', 'what': p, 'case': {'theorem_or_audit': p}, 'concrete': False})
  if any(v['concrete'] for v in new):
    # a concrete failing input was found: model/impl disagreements of the same run are its symptoms,
    # they are listed inside the replay file instead of being reported as `no-failing-input-found`
    symptoms = [v for v in new if not v['concrete'] and v['key'] != 'proof-audit']
    new = [v for v in new if v['concrete'] or v['key'] == 'proof-audit']
    for v in new:
      v['case'] = {'case': v['case'], 'model_disagreements_in_same_run': sorted({s_['key'] for s_ in symptoms})}
  rc = 0
  seen_keys = set()
  for v in new:
    if v['key'] in seen_keys:
      continue
    seen_keys.add(v['key'])
    rc = 1
    name = re.sub(r'[^A-Za-z0-9_.-]', '_', v['key'])[:60]
    path = os.path.join(VERIF, 'replays', f'{ctx.prop}_{name}_{ctx.seed}.json')
    _write_json(
      path,
      {
        'property': ctx.prop,
        'key': v['key'],
        'what': v['what'],
        'concrete_failing_input': v['concrete'],
        'case': v['case'],
        'seed': ctx.seed,
        'tier': ctx.tier,
        'replay_cmd': f'/venv/bin/python checks/run.py {ctx.prop} --replay {os.path.relpath(path, VERIF)}',
      },
    )
    tail = '' if v['concrete'] else ' no-failing-input-found'
    print(f'VIOLATION property={ctx.prop} replay={path}{tail}')
    print(f'  what: {v["what"][:300]}')
  coverage = {
    'obligations': aud['obligations'],
    'discharged': aud['discharged'],
    'checker_cmd': aud['checker_cmd'],
    'trusted_base': spec.get('trusted_base', [])
    + [f"Lean 4 kernel; axioms used by the property theorems: {aud['axioms_used'] or 'none'}"],
    'theorems': aud['theorems'],
    'evaluations': ctx.evaluations,
    'distinct_nontrivial': len(ctx.distinct),
    'rule': ctx.rule or spec.get('rule', ''),
    'samples': ctx.samples or ['(no sample recorded)'],
    'disagreements_checked': ctx.disagreements_checked,
    'corpus_replayed': ctx.corpus_replayed,
    'generator_distribution': ctx.dist,
    'model_partial': spec.get('model_partial', []),
    'known_findings_hit': sorted(printed_known),
    'exhaustive': bool(ctx.extra.get('exhaustive', False)),
  }
  if 'leanchecker' in aud:
    coverage['leanchecker'] = aud['leanchecker']
  coverage.update({k: v for k, v in ctx.extra.items() if k != 'exhaustive'})
  ev = {
    'property_id': ctx.prop,
    'tier': ctx.tier,
    'seed': ctx.seed,
    'level': 'proof',
    'coverage': coverage,
    'assumptions': spec.get('assumptions', []),
    'wall_s': round(ctx.elapsed(), 2),
    'violations': len(seen_keys),
  }
  if os.path.realpath(REPO) == '/repo':
    _write_json(os.path.join(VERIF, 'evidence', f'{ctx.prop}.json'), ev)
  else:
    # a run against a scratch checkout (seeded-change experiment): never overwrite the registered evidence
    ev['repo_under_test'] = REPO
    _write_json(os.path.join(VERIF, 'replays', 'scratch_evidence', f'{ctx.prop}.json'), ev)
  print(
    f'[{ctx.prop}] tier={ctx.tier} seed={ctx.seed} theorems={aud["discharged"]}/{aud["obligations"]} '
    f'cases={ctx.evaluations} distinct_nontrivial={len(ctx.distinct)} '
    f'known={len(printed_known)} violations={len(seen_keys)} wall={ctx.elapsed():.1f}s'
  )
  return rc


def load_corpus(prop):
  d = os.path.join(VERIF, 'corpus', prop)
  out = []
  if os.path.isdir(d):
    for fn in sorted(os.listdir(d)):
      if fn.endswith('.json'):
        out.append((fn, json.load(open(os.path.join(d, fn)))))
  return out


def main_check(prop, module, argv):
  import argparse

  ap = argparse.ArgumentParser()
  ap.add_argument('--tier', default=os.environ.get('VERIF_TIER', 'quick'), choices=['quick', 'thorough'])
  ap.add_argument('--replay', default=None)
  ap.add_argument('--seed', type=int, default=int(os.environ.get('VERIF_SEED', '0') or 0))
  args = ap.parse_args(argv)
  ctx = Ctx(prop, args.tier, args.seed)
  spec = module.SPEC
  # --- stage 1: things that live entirely in /verif (Lean build, axiom audit). A failure here cannot be caused by
  # a change to /repo and is an infrastructure failure (exit 2), never a verdict.
  try:
    lean_build([f'Flax.Props.{prop}'] + list(spec.get('exes', [])))
    aud = audit(prop, thorough=(args.tier == 'thorough'))
  except InfraError as e:
    print(f'[{prop}] INFRASTRUCTURE FAILURE (exit 2, not a verdict): {e}', file=sys.stderr)
    return 2
  except Exception:
    traceback.print_exc()
    print(f'[{prop}] INFRASTRUCTURE FAILURE (exit 2, not a verdict): build/audit crashed', file=sys.stderr)
    return 2
  if args.replay:
    try:
      obj = json.load(open(os.path.join(VERIF, args.replay) if not os.path.isabs(args.replay) else args.replay))
      if isinstance(obj.get('case'), dict) and 'model_disagreements_in_same_run' in obj['case']:
        obj['case'] = obj['case']['case']  # undo the wrapping done by finish()
      still = module.replay(ctx, obj)
    except Exception:
      traceback.print_exc()
      print(f'[{prop}] INFRASTRUCTURE FAILURE (exit 2, not a verdict): replay crashed', file=sys.stderr)
      return 2
    print(f'[{prop}] replay {"reproduces the violation" if still else "passes"}')
    return 1 if still else 0
  # --- stage 2: the correspondence run against the code under test. The harness never crashes on the unchanged
  # tree (that is what the multi-seed clean runs establish), so if it cannot complete, the code under test behaved in
  # a way the correspondence does not cover: the tie between model and code is broken. Per the brief this is
  # reported as a violation without a concrete failing input (after any concrete violations found before the stop).
  # One retry with a derived seed separates the two possible causes of a stop: a slip in a random generator of the
  # harness depends on the draw and does not recur on another exploration (the second run then stands as the run of
  # record, with the first stop written into the evidence notes); a stop caused by how the code under test behaves
  # recurs, because it does not depend on the draw, and is reported as the violation described above. The retry is made
  # only when nothing had been found before the stop.
  first_stop = None
  try:
    module.run(ctx)
  except Exception as e0:
    if ctx.violations:
      first_stop = None
      e, tb = e0, traceback.format_exc()
    else:
      first_stop = f'{type(e0).__name__}: {str(e0)[:200]}'
      sys.stderr.write(traceback.format_exc())
      retry_seed = (args.seed * 1000003 + 7919) % (2**31)
      sys.stderr.write(f'[{prop}] the run stopped before finding anything ({first_stop}); retrying once with derived seed {retry_seed}\n')
      ctx2 = Ctx(prop, args.tier, args.seed)
      ctx2.rng = random.Random(retry_seed)
      try:
        module.run(ctx2)
        ctx2.notes.append(f'generator_retry: the first exploration (rng seed {args.seed}) stopped with {first_stop}; this evidence is the second exploration (derived rng seed {retry_seed}), which completed')
        ctx2.extra['generator_retry'] = {'first_stop': first_stop, 'derived_seed': retry_seed}
        ctx, e, tb = ctx2, None, None
      except Exception as e1:
        ctx, e, tb = ctx2, e1, traceback.format_exc()
    if e is not None:
      sys.stderr.write(tb)
      ctx.violation(
        'correspondence-could-not-complete',
        f'the correspondence run of {prop} stopped with {type(e).__name__}: {str(e)[:300]} — the implementation behaved in a way '
        f'the harness/model tie does not cover; the theorems of Flax/Props/{prop}.lean are no longer shown to apply to this code',
        {'correspondence': f'harness/props/{prop.lower()}.py', 'theorems': f'lean/Flax/Props/{prop}.lean',
         'exception': type(e).__name__, 'message': str(e)[:1000], 'traceback_tail': tb[-1500:],
         'first_stop_before_retry': first_stop},
        concrete=False,
      )
  try:
    return finish(ctx, aud, spec)
  except Exception:
    traceback.print_exc()
    print(f'[{prop}] INFRASTRUCTURE FAILURE (exit 2, not a verdict): could not write evidence', file=sys.stderr)
    return 2
