"""Harness-side JAX compatibility shim (DESIGN.md §0.1).

The pinned flax (0.10.5) calls three JAX entry points that the installed jax (0.11.x) removed.
Nothing under /repo is edited: the names are re-bound in the checking process only, and narrowly
(only the flax modules that use them see the proxies).  Import this module before using flax.

  * jax.core.get_opaque_trace_state(convention=...)  -> jax.extend.core.get_opaque_trace_state
  * jax.jit(..., abstracted_axes=None)               -> kwarg dropped (only when it is None)
  * jax.checkpoint/remat(..., concrete=False)        -> kwarg dropped (only when it is False)
"""
from __future__ import annotations

import os
import sys

REPO = os.environ.get('VERIF_REPO', '/repo')
if REPO not in sys.path:
  sys.path.insert(0, REPO)

os.environ.setdefault('JAX_PLATFORMS', 'cpu')
os.environ.setdefault('XLA_FLAGS', '--xla_force_host_platform_device_count=1')

import jax  # noqa: E402
import jax.core  # noqa: E402

if not hasattr(jax.core, 'get_opaque_trace_state'):
  import jax.extend.core as _jex_core

  jax.core.get_opaque_trace_state = _jex_core.get_opaque_trace_state  # type: ignore[attr-defined]


class _JaxProxy:
  """Delegates every attribute to the real `jax` module except the patched callables."""

  def __init__(self, real, overrides):
    object.__setattr__(self, '_real', real)
    object.__setattr__(self, '_overrides', overrides)

  def __getattr__(self, name):
    ov = object.__getattribute__(self, '_overrides')
    if name in ov:
      return ov[name]
    return getattr(object.__getattribute__(self, '_real'), name)


def _jit_drop_abstracted_axes(*args, **kwargs):
  if 'abstracted_axes' in kwargs:
    if kwargs['abstracted_axes'] is not None:
      raise NotImplementedError('abstracted_axes is not supported by the installed jax')
    kwargs.pop('abstracted_axes')
  return jax.jit(*args, **kwargs)


def _remat_drop_concrete(*args, **kwargs):
  if 'concrete' in kwargs:
    if kwargs['concrete']:
      raise NotImplementedError('concrete=True is not supported by the installed jax')
    kwargs.pop('concrete')
  return jax.checkpoint(*args, **kwargs)


_installed = False


def install():
  """Idempotently installs the proxies into the flax modules that need them."""
  global _installed
  if _installed:
    return
  import inspect

  if 'abstracted_axes' not in inspect.signature(jax.jit).parameters:
    import flax.nnx.transforms.compilation as _comp

    _comp.jax = _JaxProxy(jax, {'jit': _jit_drop_abstracted_axes})
  if 'concrete' not in inspect.signature(jax.checkpoint).parameters:
    import flax.core.lift as _lift

    _lift.jax = _JaxProxy(
      jax, {'remat': _remat_drop_concrete, 'checkpoint': _remat_drop_concrete}
    )
  _installed = True


install()
